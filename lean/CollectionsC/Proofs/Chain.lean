import CollectionsC.Model.Chain
import CollectionsC.Proofs.MemT
/-! Helper lemmas about the shared `Chain` state: the canonical chain `ofList t xs` (the unique state
with content `xs` that satisfies the invariant), pointer arithmetic, the walking loops. -/
namespace CC
open CC

namespace Chain
variable {t : Triple}

/-- the state with content `xs` whose bookkeeping is right -/
def ofList (t : Triple) (xs : List Nat) : Chain :=
  { triple := t, nodes := xs, size := xs.length,
    head := if xs.length = 0 then none else some 0,
    tail := if xs.length = 0 then none else some (xs.length - 1) }

theorem ofList_inv (xs : List Nat) : (ofList t xs).Inv := by simp [ofList, Inv]
@[simp] theorem ofList_abs (xs : List Nat) : (ofList t xs).abs = xs := rfl
@[simp] theorem ofList_nodes (xs : List Nat) : (ofList t xs).nodes = xs := rfl
@[simp] theorem ofList_size (xs : List Nat) : (ofList t xs).size = xs.length := rfl
@[simp] theorem ofList_triple (xs : List Nat) : (ofList t xs).triple = t := rfl

theorem inv_iff (l : Chain) : l.Inv ↔ l = ofList l.triple l.nodes := by
  constructor
  · intro ⟨h1, h2, h3⟩
    cases l; simp_all [ofList]
  · intro h; rw [h]; exact ofList_inv _

theorem Inv.eq {l : Chain} (h : l.Inv) : l = ofList l.triple l.abs := (inv_iff l).1 h

theorem ofList_nil : ofList t [] = { triple := t } := by simp [ofList]
theorem ofList_head_cons (x : Nat) (xs : List Nat) : (ofList t (x :: xs)).head = some 0 := by simp [ofList]
theorem ofList_tail_cons (x : Nat) (xs : List Nat) : (ofList t (x :: xs)).tail = some xs.length := by simp [ofList]

end Chain
end CC

namespace CC
namespace Chain

theorem walkNext_some (n : Nat) : ∀ (k j : Nat), j + k < n → walkNext n (some j) k = some (j + k)
  | 0, j, _ => rfl
  | k + 1, j, h => by
    have : j + 1 < n := by omega
    simp only [walkNext, Ptr.next, this, if_true]
    rw [walkNext_some n k (j + 1) (by omega)]; congr 1; omega

theorem walkPrev_some : ∀ (k j : Nat), k ≤ j → walkPrev (some j) k = some (j - k)
  | 0, j, _ => rfl
  | k + 1, j, h => by
    have : j ≠ 0 := by omega
    simp only [walkPrev, Ptr.prev, this, if_false]
    rw [walkPrev_some k (j - 1) (by omega)]; congr 1; omega

@[simp] theorem forward_ofList (xs : List Nat) : (ofList t xs).forward = xs := by
  cases xs <;> simp [forward, walk, ofList]
@[simp] theorem backward_ofList (xs : List Nat) : (ofList t xs).backward = xs.reverse := by
  cases xs <;> simp [backward, walkBack, ofList]

theorem data_some (l : Chain) (j : Nat) : l.data (some j) = l.nodes.getD j 0 := rfl

end Chain

/-! ## the ledger seen from one allocator triple -/

/-! `Mem.liveT m t` — blocks currently owned through the triple `t` —, `Mem.allocT_nil` and
`Mem.freeT_sched` come from `Proofs/MemT.lean` (shared with the other containers). -/

/-- the counters of the configured allocator / of the C library allocator -/
def Mem.confSide (m : Mem) : List Bool × Nat × Nat × Nat × Nat := (m.sched, m.live, m.nalloc, m.nfree, m.nrefused)
def Mem.libcSide (m : Mem) : Nat × Nat × Nat × Nat := (m.libc, m.liveLibc, m.lalloc, m.lfree)

/-- an operation that works through the triple `t` leaves the other allocator's counters alone -/
def Mem.Frame (t : Triple) (m m' : Mem) : Prop :=
  match t with
  | .conf => m'.libcSide = m.libcSide
  | .libc => m'.confSide = m.confSide

theorem Mem.Frame.rfl' (t : Triple) (m : Mem) : Mem.Frame t m m := by cases t <;> rfl
theorem Mem.Frame.trans {t : Triple} {m1 m2 m3 : Mem} (h1 : Mem.Frame t m1 m2) (h2 : Mem.Frame t m2 m3) : Mem.Frame t m1 m3 := by
  cases t <;> simp only [Mem.Frame] at * <;> rw [h2, h1]
theorem Mem.Frame.liveT {t t' : Triple} {m m' : Mem} (h : Mem.Frame t m m') (hne : t' ≠ t) : m'.liveT t' = m.liveT t' := by
  cases t <;> cases t' <;> simp_all [Mem.Frame, Mem.liveT, Mem.confSide, Mem.libcSide]
theorem Mem.frame_allocT (t : Triple) (m : Mem) : Mem.Frame t m (m.allocT t).2 := by
  cases t
  · simp only [Mem.Frame, Mem.allocT, Mem.alloc, Mem.libcSide]; split <;> rfl
  · rfl
theorem Mem.frame_freeT (t : Triple) (m : Mem) : Mem.Frame t m (m.freeT t) := by
  cases t
  · simp only [Mem.Frame, Mem.freeT, Mem.free, Mem.libcSide]; split <;> rfl
  · simp only [Mem.Frame, Mem.freeT, Mem.confSide]; split <;> rfl
theorem Mem.frame_check (t : Triple) (m : Mem) (b : Bool) : Mem.Frame t m (m.check b) := by
  cases b <;> cases t <;> rfl

theorem Mem.allocT_fst_true (m : Mem) (t : Triple) (h : (m.allocT t).1 = true) :
    (m.allocT t).2.liveT t = m.liveT t + 1 ∧ (m.allocT t).2.fault = m.fault := by
  cases t
  · have := Mem.alloc_fst_true m h; exact ⟨this.1, this.2.1⟩
  · exact ⟨rfl, rfl⟩
theorem Mem.allocT_fst_false (m : Mem) (t : Triple) (h : (m.allocT t).1 = false) :
    (m.allocT t).2.liveT t = m.liveT t ∧ (m.allocT t).2.fault = m.fault ∧ t = .conf := by
  cases t
  · have := Mem.alloc_fst_false m h; exact ⟨this.1, this.2.1, rfl⟩
  · simp [Mem.allocT] at h
theorem Mem.freeT_live (m : Mem) (t : Triple) (h : 0 < m.liveT t) :
    (m.freeT t).liveT t = m.liveT t - 1 ∧ (m.freeT t).fault = m.fault := by
  cases t
  · simp only [Mem.liveT] at h; simp only [Mem.freeT, Mem.free, Mem.liveT]; split
    · omega
    · exact ⟨rfl, rfl⟩
  · simp only [Mem.liveT] at h; simp only [Mem.freeT, Mem.liveT]; split
    · omega
    · exact ⟨rfl, rfl⟩

theorem Mem.freeN_live (t : Triple) : ∀ (n : Nat) (m : Mem), n ≤ m.liveT t →
    (Mem.freeN t n m).liveT t = m.liveT t - n ∧ (Mem.freeN t n m).fault = m.fault ∧ Mem.Frame t m (Mem.freeN t n m)
  | 0, m, _ => ⟨rfl, rfl, Mem.Frame.rfl' t m⟩
  | k + 1, m, h => by
    have hf := Mem.freeT_live m t (by omega)
    have ih := Mem.freeN_live t k (m.freeT t) (by omega)
    simp only [Mem.freeN]
    exact ⟨by omega, by rw [ih.2.1, hf.2], (Mem.frame_freeT t m).trans ih.2.2⟩

theorem Mem.freeN_free (t : Triple) : ∀ (n : Nat) (m : Mem), ((Mem.freeN t n m).freeT t) = Mem.freeN t n (m.freeT t)
  | 0, _ => rfl
  | k + 1, m => by simp only [Mem.freeN]; exact Mem.freeN_free t k (m.freeT t)

theorem Mem.freeN_succ (t : Triple) (n : Nat) (m : Mem) : Mem.freeN t (n + 1) m = ((Mem.freeN t n m).freeT t) := by
  rw [Mem.freeN_free]; rfl

theorem getD_set (l : List Nat) (a j v : Nat) :
    (l.set a v).getD j 0 = if a = j ∧ a < l.length then v else l.getD j 0 := by
  simp only [List.getD_eq_getElem?_getD, List.getElem?_set]
  by_cases h : a = j
  · subst h; by_cases h2 : a < l.length <;> simp [h2]
  · simp [h]

theorem ext_getD {l1 l2 : List Nat} (hl : l1.length = l2.length)
    (h : ∀ j, j < l1.length → l1.getD j 0 = l2.getD j 0) : l1 = l2 := by
  apply List.ext_getElem hl
  intro j h1 h2
  have := h j h1
  simpa [List.getD_eq_getElem?_getD, h1, h2] using this


namespace Chain
/-- the pointer reached after `j` steps from the head of a chain of `n` nodes -/
def ptrAt (n j : Nat) : Ptr := if j < n then some j else none

theorem ofList_head_ptrAt (xs : List Nat) : (ofList t xs).head = ptrAt xs.length 0 := by
  cases xs <;> simp [ofList, ptrAt]
theorem next_ptrAt (n j : Nat) (h : j < n) : Ptr.next n (ptrAt n j) = ptrAt n (j + 1) := by
  simp [ptrAt, h, Ptr.next]
theorem ptrAt_lt (n j : Nat) (h : j < n) : ptrAt n j = some j := by simp [ptrAt, h]

theorem drop_eq_getD_cons (xs : List Nat) (j : Nat) (h : j < xs.length) :
    xs.drop j = xs.getD j 0 :: xs.drop (j + 1) := by
  rw [List.drop_eq_getElem_cons h]; simp [h]

theorem collect_ofList (xs : List Nat) (m : Mem) : ∀ (k j : Nat), j + k ≤ xs.length →
    collect (ofList t xs) k (ptrAt xs.length j) m = ((xs.drop j).take k, m)
  | 0, j, _ => by simp [collect]
  | k + 1, j, h => by
    have hj : j < xs.length := by omega
    simp only [collect, ofList_nodes]
    rw [next_ptrAt _ _ hj, collect_ofList xs _ k (j + 1) (by omega)]
    rw [ptrAt_lt _ _ hj]
    simp only [Ptr.valid, hj, decide_true, Mem.check_true, data_some, ofList_nodes]
    rw [drop_eq_getD_cons xs j hj]; simp
end Chain

namespace Chain
theorem writeBack_spec (n : Nat) (vals : List Nat) (m : Mem) : ∀ (k i : Nat) (l : Chain),
    l.nodes.length = n → i + k ≤ n → n ≤ vals.length →
    ∃ l', writeBack k i (ptrAt n i) vals l m = (l', m) ∧ l'.nodes.length = n ∧
      (∀ j, j < n → l'.nodes.getD j 0 = if i ≤ j ∧ j < i + k then vals.getD j 0 else l.nodes.getD j 0) ∧
      l'.size = l.size ∧ l'.head = l.head ∧ l'.tail = l.tail ∧ l'.triple = l.triple
  | 0, i, l, hn, _, _ => ⟨l, rfl, hn, by intro j _; rw [if_neg (by omega)], rfl, rfl, rfl, rfl⟩
  | k + 1, i, l, hn, hk, hv => by
    have hi : i < n := by omega
    simp only [writeBack, hn]
    rw [next_ptrAt _ _ hi, ptrAt_lt _ _ hi]
    have hiv : i < vals.length := by omega
    simp only [Ptr.valid, hi, hiv, decide_true, Bool.and_self, Mem.check_true]
    obtain ⟨l', e, h1, h2, h3, h4, h5, h6⟩ := writeBack_spec n vals m k (i + 1) (l.setData (some i) (vals.getD i 0))
      (by simp [Chain.setData, hn]) (by omega) hv
    refine ⟨l', e, h1, ?_, h3, h4, h5, h6⟩
    intro j hj
    rw [h2 j hj]
    simp only [Chain.setData, Ptr.pos, Option.getD_some, getD_set, hn]
    by_cases c1 : i + 1 ≤ j ∧ j < i + 1 + k
    · rw [if_pos c1, if_pos (by omega)]
    · rw [if_neg c1]
      by_cases c2 : i = j
      · subst c2; rw [if_pos ⟨rfl, hi⟩, if_pos (by omega)]
      · rw [if_neg (by omega), if_neg (by omega)]
end Chain

namespace Chain
variable {t : Triple}
/-- the counting loop over a canonical chain counts the matching elements behind the cursor -/
theorem countLoop_ofList (xs : List Nat) (f : Nat → Bool) (m : Mem) : ∀ (k j c : Nat), xs.length ≤ j + k →
    countLoop (ofList t xs) f k (ptrAt xs.length j) c m = (c + (xs.drop j).countP f, m)
  | 0, j, c, h => by simp [countLoop, List.drop_of_length_le (show xs.length ≤ j by omega)]
  | k + 1, j, c, h => by
    by_cases hj : j < xs.length
    · have hn : Ptr.next xs.length (some j) = ptrAt xs.length (j + 1) := by rw [← ptrAt_lt _ _ hj, next_ptrAt _ _ hj]
      rw [ptrAt_lt _ _ hj, drop_eq_getD_cons xs j hj, List.countP_cons]
      by_cases hf : f (xs.getD j 0) = true
      · simp only [countLoop, ofList_nodes, Ptr.valid, hj, decide_true, Mem.check_true, data_some, hf, if_true, hn]
        rw [countLoop_ofList xs f m k (j + 1) _ (by omega)]; congr 1; omega
      · simp only [countLoop, ofList_nodes, Ptr.valid, hj, decide_true, Mem.check_true, data_some, hf, if_false, hn,
          Bool.false_eq_true]
        rw [countLoop_ofList xs f m k (j + 1) _ (by omega)]; simp
    · simp [countLoop, ptrAt, hj, List.drop_of_length_le (Nat.le_of_not_lt hj)]

/-- the searching loop returns the position of the first match behind the cursor -/
theorem indexLoop_ofList (xs : List Nat) (f : Nat → Bool) (m : Mem) : ∀ (k j i : Nat), xs.length ≤ j + k →
    indexLoop (ofList t xs) f k (ptrAt xs.length j) i m = (((xs.drop j).findIdx? f).map (· + i), m)
  | 0, j, i, h => by simp [indexLoop, List.drop_of_length_le (show xs.length ≤ j by omega)]
  | k + 1, j, i, h => by
    by_cases hj : j < xs.length
    · have hn : Ptr.next xs.length (some j) = ptrAt xs.length (j + 1) := by rw [← ptrAt_lt _ _ hj, next_ptrAt _ _ hj]
      rw [ptrAt_lt _ _ hj, drop_eq_getD_cons xs j hj, List.findIdx?_cons]
      by_cases hf : f (xs.getD j 0) = true
      · simp only [indexLoop, ofList_nodes, Ptr.valid, hj, decide_true, Mem.check_true, data_some, hf, if_true]
        simp
      · simp only [indexLoop, ofList_nodes, Ptr.valid, hj, decide_true, Mem.check_true, data_some, hf, if_false, hn,
          Bool.false_eq_true]
        rw [indexLoop_ofList xs f m k (j + 1) _ (by omega)]
        cases (xs.drop (j + 1)).findIdx? f <;> simp; omega
    · simp [indexLoop, ptrAt, hj, List.drop_of_length_le (Nat.le_of_not_lt hj)]

theorem foreachLoop_ofList (xs : List Nat) (m : Mem) : ∀ (k j : Nat), xs.length ≤ j + k →
    foreachLoop (ofList t xs) k (ptrAt xs.length j) m = (xs.drop j, m)
  | 0, j, h => by simp [foreachLoop, List.drop_of_length_le (show xs.length ≤ j by omega)]
  | k + 1, j, h => by
    by_cases hj : j < xs.length
    · rw [ptrAt_lt _ _ hj]
      simp only [foreachLoop, ofList_nodes, Ptr.valid, hj, decide_true, Mem.check_true, data_some]
      have hn : Ptr.next xs.length (some j) = ptrAt xs.length (j + 1) := by rw [← ptrAt_lt _ _ hj, next_ptrAt _ _ hj]
      simp only [hn]
      rw [foreachLoop_ofList xs m k (j + 1) (by omega)]
      rw [drop_eq_getD_cons xs j hj]
    · simp [foreachLoop, ptrAt, hj, List.drop_of_length_le (Nat.le_of_not_lt hj)]
end Chain

/-- `k` node allocations in a row through the triple `t`; the first refusal releases the `got` nodes
obtained so far -/
def Mem.allocChain (t : Triple) : Nat → Nat → Mem → Bool × Mem
  | 0, _, m => (true, m)
  | k + 1, got, m =>
    let a := (m.allocT t)
    if !a.1 then (false, Mem.freeN t got a.2) else Mem.allocChain t k (got + 1) a.2

theorem Mem.allocChain_spec (t : Triple) : ∀ (k got : Nat) (m : Mem), got ≤ m.liveT t →
    ((Mem.allocChain t k got m).1 = true → (Mem.allocChain t k got m).2.liveT t = m.liveT t + k) ∧
    ((Mem.allocChain t k got m).1 = false → (Mem.allocChain t k got m).2.liveT t = m.liveT t - got) ∧
    (Mem.allocChain t k got m).2.fault = m.fault ∧ Mem.Frame t m (Mem.allocChain t k got m).2
  | 0, got, m, _ => by simp [Mem.allocChain, Mem.Frame.rfl']
  | k + 1, got, m, h => by
    simp only [Mem.allocChain]
    by_cases ha : (m.allocT t).1 = true
    · have e := Mem.allocT_fst_true m t ha
      have ih := Mem.allocChain_spec t k (got + 1) (m.allocT t).2 (by omega)
      simp only [ha, Bool.not_true, Bool.false_eq_true, if_false]
      refine ⟨fun h1 => by rw [ih.1 h1, e.1]; omega, fun h1 => by rw [ih.2.1 h1, e.1]; omega,
        by rw [ih.2.2.1, e.2], (Mem.frame_allocT t m).trans ih.2.2.2⟩
    · have ha' : (m.allocT t).1 = false := by simpa using ha
      have e := Mem.allocT_fst_false m t ha'
      have f := Mem.freeN_live t got (m.allocT t).2 (by omega)
      simp only [ha', Bool.not_false, if_true]
      refine ⟨by simp, fun _ => by rw [f.1, e.1], by rw [f.2.1, e.2.1], (Mem.frame_allocT t m).trans f.2.2⟩

namespace Chain
variable {t t2 : Triple}
/-- the copies are obtained through the **destination's** triple `t`, whatever triple the source has -/
theorem linkAll_ofList (xs : List Nat) : ∀ (k j : Nat) (acc : List Nat) (m : Mem), j + k ≤ xs.length →
    linkAll t (ofList t2 xs) k (ptrAt xs.length j) acc m =
      if (m.allocChain t k acc.length).1 then (true, acc ++ (xs.drop j).take k, (m.allocChain t k acc.length).2)
      else (false, [], (m.allocChain t k acc.length).2)
  | 0, j, acc, m, _ => by simp [linkAll, Mem.allocChain]
  | k + 1, j, acc, m, h => by
    have hj : j < xs.length := by omega
    simp only [linkAll, Mem.allocChain, ofList_nodes]
    by_cases ha : (m.allocT t).1 = true
    case neg => simp [ha]
    case pos =>
      simp only [ha, Bool.not_true, Bool.false_eq_true, if_false]
      rw [next_ptrAt _ _ hj, ptrAt_lt _ _ hj]
      simp only [Ptr.valid, hj, decide_true, Mem.check_true, data_some, ofList_nodes]
      have := linkAll_ofList xs k (j + 1) (acc ++ [xs.getD j 0]) (m.allocT t).2 (by omega)
      rw [this]
      simp only [List.length_append, List.length_cons, List.length_nil, List.append_assoc]
      rw [drop_eq_getD_cons xs j hj]
      simp

theorem linkAllExternally_ofList (xs : List Nat) (m : Mem) :
    (ofList t2 xs).linkAllExternally t m =
      if (m.allocChain t xs.length 0).1 then (true, xs, (m.allocChain t xs.length 0).2)
      else (false, [], (m.allocChain t xs.length 0).2) := by
  unfold linkAllExternally
  rw [ofList_head_ptrAt, ofList_size, linkAll_ofList xs xs.length 0 [] m (by omega)]
  simp
end Chain

end CC
