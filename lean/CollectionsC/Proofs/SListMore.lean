import CollectionsC.Proofs.SList
import CollectionsC.Proofs.DListDerived
/-! `cc_slist.c` model, part 2: array export, sort, in-place filter, bulk operations, derived
containers. -/
namespace CC.SList
open CC Chain
open CC.Spec
open CC.DList (length_ne_zero_of_ne_nil insMany_fix selMap selMap_some selMap_map selMap_filter Mem.buildChain builderResult
  eraseIdx_append_cons)

theorem toArray_ofList (xs : List Nat) (m : Mem) :
    toArray (ofList t xs) m =
      if (m.allocT t).1 then (.ok, (LSeq.toArray true xs).2, (m.allocT t).2) else (.errAlloc, none, (m.allocT t).2) := by
  unfold toArray LSeq.toArray
  (try simp only [ofList_triple])
  by_cases ha : (m.allocT t).1 = true
  · simp only [ha, Bool.not_true, Bool.false_eq_true, if_false, if_true, ofList_size]
    rw [ofList_head_ptrAt, collect_ofList _ _ _ 0 (by omega)]
    simp
  · simp [ha]

theorem sort_ofList (sortFn : List Nat → List Nat) (hlen : ∀ l, (sortFn l).length = l.length) (xs : List Nat) (m : Mem) :
    sort sortFn (ofList t xs) m =
      if xs.length = 1 then (.ok, ofList t xs, m)
      else if (m.allocT t).1 then (.ok, ofList t (sortFn xs), ((m.allocT t).2.freeT t)) else (.errAlloc, ofList t xs, (m.allocT t).2) := by
  unfold sort
  rw [toArray_ofList]
  by_cases h1 : xs.length = 1
  · simp [h1]
  simp only [ofList_size, h1, if_false, LSeq.toArray]
  (try simp only [ofList_triple])
  by_cases ha : (m.allocT t).1 = true
  · simp only [ha, if_true, Bool.not_true, Bool.and_false, Bool.false_eq_true, and_false, if_false]
    rw [ofList_head_ptrAt]
    obtain ⟨l', e, h1, h2, h3, h4, h5⟩ := writeBack_spec xs.length (sortFn xs) (m.allocT t).2
      xs.length 0 (ofList t xs) rfl (by omega) (by rw [hlen]; exact Nat.le_refl _)
    rw [e]
    have hnodes : l'.nodes = sortFn xs := by
      apply ext_getD (by rw [h1, hlen])
      intro j hj
      rw [h1] at hj
      rw [h2 j hj, if_pos (by omega)]
    cases l'
    simp only [ofList, hlen] at *
    simp [hnodes, h3, h4, h5]
  · simp [ha]

theorem filterMutLoop_ofList (p : Nat → Bool) : ∀ (rest kept : List Nat) (k : Nat) (m : Mem), rest.length ≤ k →
    filterMutLoop p k (ofList t (kept ++ rest)) (ptrAt (kept.length + rest.length) kept.length)
        (if kept.length = 0 then none else some (kept.length - 1)) m =
      (ofList t (kept ++ rest.filter p), Mem.freeN t (rest.length - (rest.filter p).length) m)
  | [], kept, k, m, _ => by
    cases k <;> simp [filterMutLoop, ptrAt, Mem.freeN]
  | y :: ys, kept, 0, m, h => by simp at h
  | y :: ys, kept, k + 1, m, h => by
    have hlt : kept.length < kept.length + (y :: ys).length := by simp
    rw [ptrAt_lt _ _ hlt]
    have hd : (kept ++ y :: ys).getD kept.length 0 = y := by simp
    simp only [filterMutLoop, ofList_nodes, List.length_append, Ptr.valid, hlt, decide_true, Mem.check_true, data_some, hd]
    by_cases hp : p y
    · simp only [hp, Bool.not_true, Bool.false_eq_true, if_false]
      have e1 : Ptr.next (kept.length + (y :: ys).length) (some kept.length) =
          ptrAt ((kept ++ [y]).length + ys.length) (kept ++ [y]).length := by
        simp only [Ptr.next, ptrAt, List.length_append, List.length_cons, List.length_nil]
        by_cases c : kept.length + 1 < kept.length + (ys.length + 1)
        · rw [if_pos c, if_pos (by omega)]
        · rw [if_neg c, if_neg (by omega)]
      have e2 : kept ++ y :: ys = (kept ++ [y]) ++ ys := by simp
      have e3 : (some kept.length : Ptr) = if (kept ++ [y]).length = 0 then none else some ((kept ++ [y]).length - 1) := by
        simp
      rw [e1, e2, e3, filterMutLoop_ofList p ys (kept ++ [y]) k m (by simpa using h)]
      simp [hp]
    · simp only [hp, Bool.not_false, if_true]
      rw [unlinkn_ofList _ _ _ (by simp)]
      have e1 : (Ptr.next (kept.length + (y :: ys).length) (some kept.length)).shiftDel kept.length =
          ptrAt (kept.length + ys.length) kept.length := by
        simp only [Ptr.next, ptrAt, List.length_cons]
        by_cases c : kept.length + 1 < kept.length + (ys.length + 1)
        · rw [if_pos c, if_pos (by omega)]; simp [Ptr.shiftDel]
        · rw [if_neg c, if_neg (by omega)]; rfl
      rw [e1, eraseIdx_append_cons, filterMutLoop_ofList p ys kept k (m.freeT t) (by simpa using h)]
      have hle : (ys.filter p).length ≤ ys.length := List.length_filter_le _ _
      simp only [List.filter_cons, hp, Bool.false_eq_true, if_false, List.length_cons]
      rw [show ys.length + 1 - (List.filter p ys).length = (ys.length - (List.filter p ys).length) + 1 by omega]
      simp [Mem.freeN]

theorem filterMut_ofList (p : Nat → Bool) (xs : List Nat) (m : Mem) :
    filterMut p (ofList t xs) m =
      ((LSeq.filterMut p xs).1, ofList t (LSeq.filterMut p xs).2, Mem.freeN t (xs.length - (xs.filter p).length) m) := by
  unfold filterMut LSeq.filterMut
  cases xs with
  | nil => simp [Mem.freeN]
  | cons y ys =>
    simp only [ofList_size, List.length_cons, Nat.add_one_ne_zero, if_false, ofList_nodes, reduceCtorEq]
    rw [ofList_head_ptrAt]
    have := filterMutLoop_ofList (t := t) p (y :: ys) [] (ys.length + 1) m (by simp)
    simp only [List.nil_append, List.length_nil, Nat.zero_add, List.length_cons, if_true] at this ⊢
    rw [this]

theorem addAll_ofList (xs ys : List Nat) (m : Mem) :
    addAll (ofList t xs) (ofList t2 ys) m =
      if ys = [] then (.ok, ofList t xs, m)
      else if (m.allocChain t ys.length 0).1 then (.ok, ofList t (LSeq.addAll xs ys).2.1, (m.allocChain t ys.length 0).2)
      else (.errAlloc, ofList t xs, (m.allocChain t ys.length 0).2) := by
  unfold addAll LSeq.addAll
  by_cases hy : ys = []
  · subst hy; simp
  have hyl := length_ne_zero_of_ne_nil hy
  rw [ofList_size, if_neg hyl, if_neg hy, linkAllExternally_ofList]
  simp only [ofList_triple]
  by_cases ha : (m.allocChain t ys.length 0).1 = true
  case neg => simp [ha]
  simp only [ha, Bool.not_true, Bool.false_eq_true, if_false, if_true]
  by_cases hx : xs = []
  · subst hx
    simp [ofList, hyl]
  have hxl := length_ne_zero_of_ne_nil hx
  have htp : (ofList t xs).tail = some (xs.length - 1) := by simp [ofList, hxl]
  have hpos : ∀ j, Ptr.pos (some j) = j := fun _ => rfl
  have e1 : xs.length - 1 + 1 = xs.length := by omega
  have hv1 : xs.length - 1 < xs.length := by omega
  simp only [ofList_size, hxl, if_false, htp, hpos, e1, ofList_nodes, Ptr.valid, hv1, decide_true, Mem.check_true]
  congr 1; congr 1
  have := insMany_fix xs ys xs.length hx hy (Nat.le_refl _) ((ofList t xs).insMany xs.length ys).head
    (some (xs.length + ys.length - 1)) ys.length rfl (by rw [if_neg hxl]) (by simp)
  simp at this ⊢; exact this

theorem addAllAt_ofList (xs ys : List Nat) (i : Nat) (m : Mem) :
    addAllAt (ofList t xs) (ofList t2 ys) i m =
      if (LSeq.addAllAt false xs ys i).1 = .ok ∧ ys ≠ [] then
        (if (m.allocChain t ys.length 0).1 then (.ok, ofList t (LSeq.addAllAt false xs ys i).2.1, (m.allocChain t ys.length 0).2)
         else (.errAlloc, ofList t xs, (m.allocChain t ys.length 0).2))
      else ((LSeq.addAllAt false xs ys i).1, ofList t xs, m) := by
  unfold addAllAt LSeq.addAllAt
  by_cases hy : ys = []
  · subst hy; simp
  have hyl := length_ne_zero_of_ne_nil hy
  rw [ofList_size, if_neg hyl, getNodeAt_ofList]
  by_cases hi : i < xs.length
  · have hx : xs ≠ [] := by intro e; subst e; simp at hi
    have hxl := length_ne_zero_of_ne_nil hx
    simp only [hi, if_true, bne_self_eq_false, Bool.false_eq_true, if_false, hy, Bool.false_eq_true, ne_eq, not_false_eq_true,
      and_self]
    rw [linkAllExternally_ofList]
    simp only [ofList_triple]
    by_cases ha : (m.allocChain t ys.length 0).1 = true
    case neg => simp [ha]
    simp only [ha, Bool.not_true, Bool.false_eq_true, if_false, if_true]
    have hpos : ∀ j, Ptr.pos (some j) = j := fun _ => rfl
    by_cases h0 : i = 0
    · subst h0
      simp only [if_true, hpos]
      congr 1; congr 1
      apply insMany_fix xs ys 0 hx hy (by omega) _ _ _ rfl
      · simp
      · rw [if_neg (by omega)]
    · have hne : ¬ ((some (i - 1) : Ptr) = none) := by simp
      have hv : i - 1 < xs.length := by omega
      simp only [h0, if_false, hne, hpos, ofList_nodes, Ptr.valid, hv, decide_true, Mem.check_true]
      congr 1; congr 1
      apply insMany_fix xs ys i hx hy (by omega) _ _ _ rfl
      · rw [if_neg h0]
      · rw [if_neg (by omega)]
  · simp [hi, hy]

theorem splice_ofList (xs ys : List Nat) (m : Mem) :
    splice (ofList t xs) (ofList t2 ys) m =
      (.ok, ofList t (LSeq.splice xs ys).2.1, ofList t2 (if ys = [] then ys else (LSeq.splice xs ys).2.2), m) := by
  unfold splice LSeq.splice
  by_cases hy : ys = []
  · subst hy; simp
  have hyl := length_ne_zero_of_ne_nil hy
  rw [ofList_size, if_neg hyl, if_neg hy]
  have ht2 : (ofList t2 ys).tail = some (ys.length - 1) := by simp [ofList, hyl]
  by_cases hx : xs = []
  · subst hx
    simp [ofList, hyl]
  have hxl := length_ne_zero_of_ne_nil hx
  have htp : (ofList t xs).tail = some (xs.length - 1) := by simp [ofList, hxl]
  have hpos : ∀ j, Ptr.pos (some j) = j := fun _ => rfl
  have e1 : xs.length - 1 + 1 = xs.length := by omega
  have hv1 : xs.length - 1 < xs.length := by omega
  simp only [ofList_size, hxl, if_false, htp, ht2, hpos, e1, ofList_nodes, Ptr.valid, hv1, decide_true, Mem.check_true]
  congr 1; congr 1
  · have := insMany_fix xs ys xs.length hx hy (Nat.le_refl _) ((ofList t xs).insMany xs.length ys).head
      (some (xs.length + ys.length - 1)) ys.length rfl (by rw [if_neg hxl]) (by simp)
    have e2 : ys.length - 1 + xs.length = xs.length + ys.length - 1 := by omega
    simp [Ptr.offset, e2] at this ⊢; exact this

theorem spliceAt_ofList (xs ys : List Nat) (i : Nat) (m : Mem) :
    spliceAt (ofList t xs) (ofList t2 ys) i m =
      ((LSeq.spliceAt false xs ys i).1, ofList t (LSeq.spliceAt false xs ys i).2.1, ofList t2 (LSeq.spliceAt false xs ys i).2.2, m) := by
  unfold spliceAt LSeq.spliceAt
  by_cases hy : ys = []
  · subst hy; simp
  have hyl := length_ne_zero_of_ne_nil hy
  rw [ofList_size, if_neg hyl, ofList_size]
  by_cases hi : i < xs.length
  · have hx : xs ≠ [] := by intro e; subst e; simp at hi
    have hxl := length_ne_zero_of_ne_nil hx
    have hh2 : (ofList t2 ys).head = some 0 := by simp [ofList, hyl]
    have ht2 : (ofList t2 ys).tail = some (ys.length - 1) := by simp [ofList, hyl]
    have hhp : (ofList t xs).head = some 0 := by simp [ofList, hxl]
    have hpos : ∀ j, Ptr.pos (some j) = j := fun _ => rfl
    have hv2 : ys.length - 1 < ys.length := by omega
    rw [if_neg (by omega), getNodeAt_ofList]
    simp only [hi, if_true, bne_self_eq_false, Bool.false_eq_true, if_false, hy, spliceBetween, hh2, ht2, hhp, hpos,
      ofList_nodes, ofList_size, Ptr.valid, hv2, decide_true, Mem.check_true]
    by_cases h0 : i = 0
    · subst h0
      simp only [if_true]
      congr 1; congr 1
      · apply insMany_fix xs ys 0 hx hy (by omega) _ _ _ rfl
        · simp [Ptr.offset]
        · rw [if_neg (by omega)]
    · have hne : ¬ ((some (i - 1) : Ptr) = none) := by simp
      have hne2 : ¬ ((some i : Ptr) = none) := by simp
      have hv : i - 1 < xs.length := by omega
      simp only [h0, if_false, hne, hne2, hv, decide_true, Bool.and_self, Mem.check_true]
      congr 1; congr 1
      · apply insMany_fix xs ys i hx hy (by omega) _ _ _ rfl
        · rw [if_neg h0]
        · rw [if_neg (by omega)]
  · have : i ≥ xs.length := by omega
    simp [hi, hy, this]

theorem buildLoop_ofList (xs : List Nat) (sel : Nat → Option Nat) : ∀ (k j : Nat) (dst : List Nat) (m : Mem),
    j + k ≤ xs.length →
    buildLoop (ofList t xs) sel k (ptrAt xs.length j) (ofList t dst) m =
      let add := selMap sel ((xs.drop j).take k)
      let r := Mem.buildChain t add.length dst.length m
      if r.1 then (.ok, ofList t (dst ++ add), r.2) else (.errAlloc, {}, r.2)
  | 0, j, dst, m, _ => by simp [buildLoop, selMap, Mem.buildChain]
  | k + 1, j, dst, m, h => by
    have hj : j < xs.length := by omega
    rw [ptrAt_lt _ _ hj]
    simp only [buildLoop, ofList_nodes, Ptr.valid, hj, decide_true, Mem.check_true, data_some]
    have hn : Ptr.next xs.length (some j) = ptrAt xs.length (j + 1) := by
      rw [← ptrAt_lt _ _ hj, next_ptrAt _ _ hj]
    rw [hn, drop_eq_getD_cons xs j hj]
    simp only [List.take_succ_cons, selMap, List.filterMap_cons]
    obtain hs | ⟨y, hs⟩ : sel (xs.getD j 0) = none ∨ ∃ y, sel (xs.getD j 0) = some y := by
      cases sel (xs.getD j 0) <;> simp
    · simp only [hs]
      rw [buildLoop_ofList xs sel k (j + 1) dst m (by omega)]
      rfl
    · simp only [hs, addLast_ofList, LSeq.addLast, List.length_cons, Mem.buildChain]
      (try simp only [ofList_triple])
      by_cases ha : (m.allocT t).1 = true
      · simp only [ha, if_true, bne_self_eq_false, Bool.false_eq_true, if_false, Bool.not_true]
        rw [buildLoop_ofList xs sel k (j + 1) (dst ++ [y]) (m.allocT t).2 (by omega)]
        simp [selMap]
      · simp only [ha, Bool.not_false, if_true]
        have : (Stat.errAlloc != Stat.ok) = true := rfl
        simp [this, destroy_ofList]

theorem sublist_ofList (xs : List Nat) (b e : Nat) (m : Mem) :
    sublist (ofList t xs) b e m =
      match (LSeq.sublist xs b e).2 with
      | none => ((LSeq.sublist xs b e).1, none, m)
      | some add => builderResult t add m := by
  unfold sublist LSeq.sublist
  by_cases hr : b > e ∨ e ≥ xs.length
  · have : (decide (b > e) || decide (e ≥ xs.length)) = true := by simpa using hr
    simp [hr, this]
  · have : (decide (b > e) || decide (e ≥ (ofList t xs).size)) = false := by simpa using hr
    simp only [this, Bool.false_eq_true, if_false, hr, new_eq, builderResult]
    (try simp only [ofList_triple])
    by_cases ha : (m.allocT t).1 = true
    · have hb : b < xs.length := by omega
      simp only [ha, if_true, getNodeAt_ofList, hb, bne_self_eq_false, Bool.false_eq_true, if_false,
        Bool.not_true]
      rw [← ptrAt_lt _ _ hb, buildLoop_ofList xs some _ b [] (m.allocT t).2 (by omega)]
      simp only [selMap_some, List.nil_append, List.length_nil]
      generalize Mem.buildChain t (List.take (e - b + 1) (List.drop b xs)).length 0 (m.allocT t).2 = bc
      by_cases hc : bc.1 = true <;> simp [hc]
    · simp [ha]

theorem copy_ofList (cp : Nat → Nat) (xs : List Nat) (m : Mem) :
    copy cp (ofList t xs) m = builderResult t (LSeq.copyDeep cp xs) m := by
  unfold copy LSeq.copyDeep builderResult
  simp only [new_eq]
  (try simp only [ofList_triple])
  by_cases ha : (m.allocT t).1 = true
  · simp only [ha, if_true, Bool.not_true, Bool.false_eq_true, if_false, ofList_nodes]
    rw [ofList_head_ptrAt, buildLoop_ofList xs _ xs.length 0 [] (m.allocT t).2 (by omega)]
    simp only [selMap_map, List.drop_zero, List.take_length, List.nil_append, List.length_nil]
    generalize Mem.buildChain t (List.map cp xs).length 0 (m.allocT t).2 = bc
    by_cases hc : bc.1 = true <;> simp [hc]
  · simp [ha]

theorem filter_ofList (p : Nat → Bool) (xs : List Nat) (m : Mem) :
    filter p (ofList t xs) m =
      match (LSeq.filter p xs).2 with
      | none => ((LSeq.filter p xs).1, none, m)
      | some add => builderResult t add m := by
  unfold filter LSeq.filter
  by_cases hx : xs = []
  · simp [hx]
  have hxl := length_ne_zero_of_ne_nil hx
  simp only [ofList_size, hxl, if_false, hx, new_eq, builderResult]
  (try simp only [ofList_triple])
  by_cases ha : (m.allocT t).1 = true
  · simp only [ha, if_true, Bool.not_true, Bool.false_eq_true, if_false, ofList_nodes]
    rw [ofList_head_ptrAt, buildLoop_ofList xs _ xs.length 0 [] (m.allocT t).2 (by omega)]
    simp only [selMap_filter, List.drop_zero, List.take_length, List.nil_append, List.length_nil]
    generalize Mem.buildChain t (List.filter p xs).length 0 (m.allocT t).2 = bc
    by_cases hc : bc.1 = true <;> simp [hc]
  · simp [ha]

end CC.SList
