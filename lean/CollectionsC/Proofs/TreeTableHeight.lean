import CollectionsC.Proofs.TreeTableRBDelete
/-! Balance: a red-black tree of `n` keys has height at most `2·⌊log₂(n+1)⌋`, and the descent
functions call the comparator at most once per level (property C17). -/
namespace CC.Tree
open Colour
variable {cmp : Nat → Nat → Int}

/-- a subtree of black height `b` holds at least `2^b - 1` keys -/
theorem pow_bh_le_size (t : Tree) (h : RBok t) : 2 ^ bh t ≤ size t + 1 := by
  induction t with
  | nil => simp [bh, size]
  | node c l k v r ihl ihr =>
    obtain ⟨hl, hr, hbh, _⟩ := h
    have a := ihl hl
    have b := ihr hr
    rw [← hbh] at b
    cases c <;> simp only [bh, size, if_true, if_false, Nat.pow_succ, Nat.add_zero, reduceCtorEq] <;> omega

/-- no path is longer than twice the black height (plus one below a red root) -/
theorem height_le_bh (t : Tree) (h : RBok t) :
    height t ≤ 2 * bh t + (if t.col = red then 1 else 0) := by
  induction t with
  | nil => simp [height]
  | node c l k v r ihl ihr =>
    obtain ⟨hl, hr, hbh, hcc⟩ := h
    have a := ihl hl
    have b := ihr hr
    cases c
    · have := hcc rfl
      simp [this.1, this.2] at a b
      simp [height, bh]; omega
    · simp only [height, bh, col_node, if_true, reduceCtorEq, if_false]
      split at a <;> split at b <;> omega

/-- **the tree is balanced**: height at most `2·⌊log₂(n+1)⌋` -/
theorem height_le_log (t : Tree) (h : RB t) : height t ≤ 2 * Nat.log2 (size t + 1) := by
  have h1 := height_le_bh t h.1
  have h2 := pow_bh_le_size t h.1
  have h3 : bh t ≤ Nat.log2 (size t + 1) := (Nat.le_log2 (by omega)).2 h2
  simp [h.2] at h1
  omega

/-- a lookup compares once per node on its path -/
theorem find_cnt_le_height (k : Nat) (t : Tree) : (find cmp k t).2 ≤ height t := by
  induction t with
  | nil => simp [find, height]
  | node c l key val r ihl ihr =>
    unfold find
    split
    · simp only [height]; omega
    · split
      · simp only [height]; omega
      · simp only [height]; omega

/-- the descent of `add` compares once per node on its path -/
theorem ins_cnt_le_height (k v : Nat) (t : Tree) : (ins cmp k v t).2.2 ≤ height t := by
  induction t with
  | nil => simp [ins, height]
  | node c l key val r ihl ihr =>
    unfold ins
    split
    · simp only [height]; omega
    · split
      · simp only [height]; omega
      · simp only [height]; omega
end CC.Tree
