import CollectionsC.Proofs.PSList
/-! Pointer-level model of `cc_slist.c`, part 2: the single-list operations. -/
namespace CC.PSList
open CC
open CC.PList (Heap St Hdr PNode Cell nd setNext setData optSetNext upd idsOf dataOf nxt lastOr)
open CC.PList

theorem split_unique {cs pre pre' post post' : List Cell} {a a' : Cell} (e : cs = pre ++ a :: post) (e' : cs = pre' ++ a' :: post')
    (hl : pre.length = pre'.length) : pre' = pre ∧ a' = a ∧ post' = post := by
  have h1 := e.symm.trans e'
  have := List.append_inj h1 hl
  exact ⟨this.1.symm, (List.cons.inj this.2).1.symm, (List.cons.inj this.2).2.symm⟩

/-- **`cc_slist_remove_at`** -/
theorem removeAt_spec (s : St) (l : Hdr) (cs : List Cell) (i : Nat) (m : Mem)
    (r : SRepr s.heap l cs) (hb : ∀ x, x ∈ idsOf cs → x < s.fresh) :
    (¬ i < cs.length → removeAt s l i m = (.errOutOfRange, none, s, l, m)) ∧
    (∀ pre a post, cs = pre ++ a :: post → pre.length = i →
      (removeAt s l i m).1 = .ok ∧ (removeAt s l i m).2.1 = some a.2 ∧ (removeAt s l i m).2.2.2.2 = m.freeT l.triple ∧
      SKeeps s (removeAt s l i m).2.2.1 l (removeAt s l i m).2.2.2.1 cs (pre ++ post)) := by
  obtain ⟨ge, gs⟩ := getNodeAt_srepr r i
  unfold removeAt
  refine ⟨fun hi => by rw [ge hi]; simp [oor_bne], fun pre a post e hl => ?_⟩
  rw [gs pre a post e hl]
  subst e
  simp only [ok_bne, Bool.false_eq_true, if_false]
  have u := unlinkn_spec s l pre post a m r hb
  exact ⟨by first | trivial | rfl, by (first | rw [u.1] | (show _ = _; rw [u.1])), u.2.1, u.2.2⟩

/-- **`cc_slist_remove_first`** -/
theorem removeFirst_spec (s : St) (l : Hdr) (cs : List Cell) (m : Mem)
    (r : SRepr s.heap l cs) (hb : ∀ x, x ∈ idsOf cs → x < s.fresh) :
    (cs = [] → removeFirst s l m = (.errValueNotFound, none, s, l, m)) ∧
    (∀ a post, cs = a :: post →
      (removeFirst s l m).1 = .ok ∧ (removeFirst s l m).2.1 = some a.2 ∧ (removeFirst s l m).2.2.2.2 = m.freeT l.triple ∧
      SKeeps s (removeFirst s l m).2.2.1 l (removeFirst s l m).2.2.2.1 cs post) := by
  unfold removeFirst
  refine ⟨fun e => by subst e; simp [r.size], fun a post e => ?_⟩
  subst e
  have hs : l.size ≠ 0 := by rw [r.size]; simp
  have hh : l.head = some a.1 := r.head
  simp only [hs, if_false, hh]
  have u := unlinkn_spec s l [] post a m r hb
  simp only [lastOr_nil, List.nil_append] at u
  exact ⟨by first | trivial | rfl, by (first | rw [u.1] | (show _ = _; rw [u.1])), u.2.1, u.2.2⟩

/-- **`cc_slist_remove_last`** (a walk to the last node, remembering its predecessor) -/
theorem removeLast_spec (s : St) (l : Hdr) (cs : List Cell) (m : Mem)
    (r : SRepr s.heap l cs) (hb : ∀ x, x ∈ idsOf cs → x < s.fresh) :
    (cs = [] → removeLast s l m = (.errValueNotFound, none, s, l, m)) ∧
    (∀ pre a, cs = pre ++ [a] →
      (removeLast s l m).1 = .ok ∧ (removeLast s l m).2.1 = some a.2 ∧ (removeLast s l m).2.2.2.2 = m.freeT l.triple ∧
      SKeeps s (removeLast s l m).2.2.1 l (removeLast s l m).2.2.2.1 cs pre) := by
  unfold removeLast
  refine ⟨fun e => by subst e; simp [r.size], fun pre a e => ?_⟩
  have hs : l.size ≠ 0 := by rw [r.size, e]; simp
  simp only [hs, if_false]
  have hi : l.size - 1 = pre.length := by rw [r.size, e]; simp
  rw [hi]
  have := (removeAt_spec s l cs pre.length m r hb).2 pre a [] e rfl
  rw [List.append_nil] at this
  exact this

theorem getNodeLoop_sseg {h : Heap} (x : Nat) : ∀ {pre post : List Cell} {a : Cell} {p0 : Option Nat} (k : Nat),
    SSeg h (pre ++ a :: post) none → x ∉ dataOf pre → a.2 = x → pre.length < k →
    getNodeLoop h x k (nxt (pre ++ a :: post) none) p0 = some (a.1, lastOr pre p0)
  | [], post, a, p0, k, hs, _, ha, hk => by
    cases k with
    | zero => simp at hk
    | succ k =>
      rw [List.nil_append, SSeg_cons] at hs
      simp only [List.nil_append, nxt_cons, getNodeLoop, nd_of hs.1, ha, if_true, lastOr_nil]
  | c :: rest, post, a, p0, k, hs, hx, ha, hk => by
    cases k with
    | zero => simp at hk
    | succ k =>
      rw [List.cons_append, SSeg_cons] at hs
      have hc : c.2 ≠ x := fun e => hx (by simp [e])
      simp only [List.cons_append, nxt_cons, getNodeLoop, nd_of hs.1, hc, if_false, lastOr_cons]
      exact getNodeLoop_sseg x k hs.2 (fun hm => hx (by simp [hm])) ha (by simpa using hk)

theorem getNodeLoop_none {h : Heap} (x : Nat) : ∀ {cs : List Cell} {p0 : Option Nat} (k : Nat), SSeg h cs none → x ∉ dataOf cs →
    getNodeLoop h x k (nxt cs none) p0 = none
  | [], _, k, _, _ => by cases k <;> rfl
  | c :: rest, p0, k, hs, hx => by
    cases k with
    | zero => rfl
    | succ k =>
      rw [SSeg_cons] at hs
      have hc : c.2 ≠ x := fun e => hx (by simp [e])
      simp only [nxt_cons, getNodeLoop, nd_of hs.1, hc, if_false]
      exact getNodeLoop_none x k hs.2 (fun hm => hx (by simp [hm]))

/-- **`cc_slist_remove`** -/
theorem remove_spec (s : St) (l : Hdr) (cs : List Cell) (x : Nat) (m : Mem)
    (r : SRepr s.heap l cs) (hb : ∀ y, y ∈ idsOf cs → y < s.fresh) :
    (x ∉ dataOf cs → remove s l x m = (.errValueNotFound, none, s, l, m)) ∧
    (∀ pre a post, cs = pre ++ a :: post → a.2 = x → x ∉ dataOf pre →
      (remove s l x m).1 = .ok ∧ (remove s l x m).2.1 = some x ∧ (remove s l x m).2.2.2.2 = m.freeT l.triple ∧
      SKeeps s (remove s l x m).2.2.1 l (remove s l x m).2.2.2.1 cs (pre ++ post)) := by
  unfold remove getNode
  rw [r.size, r.head]
  refine ⟨fun hx => by rw [getNodeLoop_none x cs.length r.seg hx], fun pre a post e ea hpre => ?_⟩
  subst e
  rw [getNodeLoop_sseg x _ r.seg hpre ea (by simp)]
  have u := unlinkn_spec s l pre post a m r hb
  simp only []
  exact ⟨by first | trivial | rfl, by (first | rw [u.1, ea] | (show _ = _; rw [u.1, ea])), u.2.1, u.2.2⟩

/-- **`cc_slist_replace_at`** -/
theorem replaceAt_spec (s : St) (l : Hdr) (cs : List Cell) (x i : Nat) (m : Mem) (r : SRepr s.heap l cs) :
    (¬ i < cs.length → replaceAt s l x i m = (.errOutOfRange, none, s, l, m)) ∧
    (∀ pre a post, cs = pre ++ a :: post → pre.length = i →
      replaceAt s l x i m = (.ok, some a.2, { s with heap := setData s.heap a.1 x }, l, m) ∧
      SRepr (setData s.heap a.1 x) l (pre ++ (a.1, x) :: post) ∧
      (∀ b, b ∉ idsOf cs → (setData s.heap a.1 x) b = s.heap b)) := by
  obtain ⟨ge, gs⟩ := getNodeAt_srepr r i
  unfold replaceAt
  refine ⟨fun hi => by rw [ge hi]; simp [oor_bne], fun pre a post e hl => ?_⟩
  rw [gs pre a post e hl]
  subst e
  obtain ⟨n1, n2, na1, na2, nd12, n12⟩ := nodup_append_cons r.nodup
  obtain ⟨_, ha, _⟩ := SSeg_split r.seg
  simp only [ok_bne, Bool.false_eq_true, if_false, nd_of ha]
  refine ⟨by first | trivial | rfl, ⟨?_, SSeg_setData x r.seg na1 na2, ?_, ?_, ?_⟩, ?_⟩
  · have := r.nodup; simpa [idsOf] using this
  · rw [r.size]; simp
  · rw [r.head]; simp [nxt_append]
  · rw [r.tail]; simp [lastOr_append]
  · intro b hb; exact upd_ne _ _ _ _ (fun e => hb (by simp [e]))

/-! ### insertion -/

/-- **`cc_slist_add_first`** -/
theorem addFirst_spec (s : St) (l : Hdr) (cs : List Cell) (x : Nat) (m : Mem)
    (r : SRepr s.heap l cs) (hb : ∀ y, y ∈ idsOf cs → y < s.fresh) :
    ((m.allocT l.triple).1 = false → addFirst s l x m = (.errAlloc, s, l, (m.allocT l.triple).2)) ∧
    ((m.allocT l.triple).1 = true →
      (addFirst s l x m).1 = .ok ∧ (addFirst s l x m).2.2.2 = (m.allocT l.triple).2 ∧
      SKeeps s (addFirst s l x m).2.1 l (addFirst s l x m).2.2.1 cs ((s.fresh, x) :: cs)) := by
  unfold addFirst
  refine ⟨fun ha => by simp [ha], fun ha => ?_⟩
  have hf := fresh_notin hb
  simp only [ha, Bool.not_true, Bool.false_eq_true, if_false, show s.alloc.1 = s.fresh from rfl]
  cases cs with
  | nil =>
    have hs : l.size = 0 := r.size
    simp only [hs, if_true]
    refine ⟨by first | trivial | rfl, by first | trivial | rfl, ⟨by simp [idsOf], ?_, by simp, rfl, rfl⟩, rfl, Nat.le_succ _, by simp [St.alloc], ?_, (by intro _ h; simp [idsOf] at h)⟩
    · rw [SSeg_cons]; exact ⟨setData_alloc s x, trivial⟩
    · intro b _ hlt; exact setData_alloc_ne s x b (Nat.ne_of_lt hlt)
  | cons c rest =>
    have hs : l.size ≠ 0 := by rw [r.size]; simp
    have hh : l.head = some c.1 := r.head
    simp only [hs, if_false, hh]
    refine ⟨by first | trivial | rfl, by first | trivial | rfl, ⟨?_, ?_, by simp [r.size], rfl, ?_⟩, rfl, Nat.le_succ _, ?_, ?_, (by intro a' ha' hna'; exact absurd (by simp only [idsOf_append, idsOf_cons, idsOf_nil, List.mem_append, List.mem_cons, List.not_mem_nil, or_false, false_or] at ha' ⊢; first | exact Or.inl ha' | exact Or.inr ha' | (rcases ha' with h | h | h <;> simp [h]) | (rcases ha' with h | h <;> simp [h]) | simp [ha']) hna')⟩
    · have := r.nodup
      simp only [idsOf_cons, List.nodup_cons] at this ⊢
      exact ⟨by simpa [idsOf] using hf, this⟩
    · rw [SSeg_cons]
      constructor
      · rw [setNext, upd_eq, setData_alloc]; rfl
      · refine SSeg_frame (fun b hbm => ?_) r.seg
        rw [setNext, upd_ne _ _ _ _ (fun e => hf (by rw [← e]; exact hbm))]
        exact setData_alloc_ne s x b (fun e => hf (by rw [← e]; exact hbm))
    · have := r.tail; simp only [lastOr_cons] at this ⊢; exact this
    · intro a ha'
      simp only [idsOf_cons, List.mem_cons] at ha'
      rcases ha' with e | e | e
      · subst e; exact Nat.lt_succ_self _
      · subst e; exact Nat.lt_succ_of_lt (hb _ (by simp))
      · exact Nat.lt_succ_of_lt (hb _ (by simp [e]))
    · intro b _ hlt
      rw [setNext, upd_ne _ _ _ _ (Nat.ne_of_lt hlt)]
      exact setData_alloc_ne s x b (Nat.ne_of_lt hlt)

/-- **`cc_slist_add_last`** -/
theorem addLast_spec (s : St) (l : Hdr) (cs : List Cell) (x : Nat) (m : Mem)
    (r : SRepr s.heap l cs) (hb : ∀ y, y ∈ idsOf cs → y < s.fresh) :
    ((m.allocT l.triple).1 = false → addLast s l x m = (.errAlloc, s, l, (m.allocT l.triple).2)) ∧
    ((m.allocT l.triple).1 = true →
      (addLast s l x m).1 = .ok ∧ (addLast s l x m).2.2.2 = (m.allocT l.triple).2 ∧
      SKeeps s (addLast s l x m).2.1 l (addLast s l x m).2.2.1 cs (cs ++ [(s.fresh, x)])) := by
  unfold addLast
  refine ⟨fun ha => by simp [ha], fun ha => ?_⟩
  have hf := fresh_notin hb
  simp only [ha, Bool.not_true, Bool.false_eq_true, if_false, show s.alloc.1 = s.fresh from rfl]
  rcases eq_nil_or_snoc cs with e | ⟨pre, c, e⟩
  · subst e
    have hs : l.size = 0 := r.size
    simp only [hs, if_true]
    refine ⟨by first | trivial | rfl, by first | trivial | rfl, ⟨by simp [idsOf], ?_, by simp, rfl, rfl⟩, rfl, Nat.le_succ _, by simp [St.alloc], ?_, (by intro _ h; simp [idsOf] at h)⟩
    · rw [List.nil_append, SSeg_cons]; exact ⟨setData_alloc s x, trivial⟩
    · intro b _ hlt; exact setData_alloc_ne s x b (Nat.ne_of_lt hlt)
  · subst e
    have hs : l.size ≠ 0 := by rw [r.size]; simp
    have hh : l.tail = some c.1 := by rw [r.tail]; simp
    have hc : c.1 ≠ s.fresh := fun e => hf (by simp [e])
    have hnd := r.nodup
    simp only [idsOf_append, idsOf_cons, idsOf_nil] at hnd
    rw [List.nodup_append] at hnd
    have hcp : c.1 ∉ idsOf pre := fun hm => hnd.2.2 _ hm _ List.mem_cons_self rfl
    have hlive : (s.heap c.1).isSome = true := SSeg_live r.seg c.1 (by simp)
    simp only [hs, if_false, hh, optSetNext, live_some, hlive, Mem.check_true]
    refine ⟨by first | trivial | rfl, by first | trivial | rfl, ⟨?_, ?_, by simp [r.size], ?_, by rw [lastOr_append, lastOr_append]; rfl⟩, rfl, Nat.le_succ _, ?_, ?_, (by intro a' ha' hna'; exact absurd (by simp only [idsOf_append, idsOf_cons, idsOf_nil, List.mem_append, List.mem_cons, List.not_mem_nil, or_false, false_or] at ha' ⊢; first | exact Or.inl ha' | exact Or.inr ha' | (rcases ha' with h | h | h <;> simp [h]) | (rcases ha' with h | h <;> simp [h]) | simp [ha']) hna')⟩
    · have := r.nodup
      simp only [idsOf_append, idsOf_cons, idsOf_nil] at this ⊢
      rw [List.nodup_append]
      refine ⟨this, by simp, ?_⟩
      intro a ha' b hb' e
      simp only [List.mem_singleton] at hb'
      subst hb'; subst e
      exact hf (by simpa [idsOf] using ha')
    · rw [SSeg_append]
      constructor
      · simp only [nxt_cons]
        refine SSeg_setNext_last (some s.fresh) (n := none) ?_ hcp
        exact SSeg_frame (fun b hbm => setData_alloc_ne s x b (fun e => hf (by rw [← e]; exact hbm))) r.seg
      · simp only [SSeg_cons, nxt_nil, SSeg_nil, and_true]
        rw [setNext, upd_ne _ _ _ _ (Ne.symm hc), setData_alloc]
    · have := r.head; rw [nxt_append] at this ⊢; rw [nxt_append]; exact this
    · intro a ha'
      simp only [idsOf_append, idsOf_cons, idsOf_nil, List.mem_append, List.mem_singleton] at ha'
      rcases ha' with (e | e) | e
      · exact Nat.lt_succ_of_lt (hb _ (by simp [e]))
      · subst e; exact Nat.lt_succ_of_lt (hb _ (by simp))
      · subst e; exact Nat.lt_succ_self _
    · intro b hnb hlt
      have hbc : b ≠ c.1 := fun e => hnb (by simp [e])
      rw [setNext, upd_ne _ _ _ _ hbc]
      exact setData_alloc_ne s x b (Nat.ne_of_lt hlt)

/-- **`cc_slist_add_at`**: in front of the node at `index` (`prev->next = new; new->next = tmp`) -/
theorem addAt_spec (s : St) (l : Hdr) (cs : List Cell) (x i : Nat) (m : Mem)
    (r : SRepr s.heap l cs) (hb : ∀ y, y ∈ idsOf cs → y < s.fresh) :
    (¬ i < cs.length → addAt s l x i m = (.errOutOfRange, s, l, m)) ∧
    (i < cs.length → (m.allocT l.triple).1 = false → addAt s l x i m = (.errAlloc, s, l, (m.allocT l.triple).2)) ∧
    (∀ pre a post, cs = pre ++ a :: post → pre.length = i → (m.allocT l.triple).1 = true →
      (addAt s l x i m).1 = .ok ∧ (addAt s l x i m).2.2.2 = (m.allocT l.triple).2 ∧
      SKeeps s (addAt s l x i m).2.1 l (addAt s l x i m).2.2.1 cs (pre ++ (s.fresh, x) :: a :: post)) := by
  obtain ⟨ge, gs⟩ := getNodeAt_srepr r i
  unfold addAt
  refine ⟨fun hi => by rw [ge hi]; simp [oor_bne], fun hi ha => ?_, fun pre a post e hl ha => ?_⟩
  · obtain ⟨pre, a, post, e, hl, _, _⟩ := split_at cs i hi
    rw [gs pre a post e hl]; simp [ok_bne, ha]
  rw [gs pre a post e hl]
  subst e
  have hf := fresh_notin hb
  obtain ⟨n1, n2, na1, na2, nd12, _⟩ := nodup_append_cons r.nodup
  obtain ⟨s1, hnode, s2⟩ := SSeg_split r.seg
  have hfa : s.fresh ≠ a.1 := fun e => hf (by simp [e])
  have hfp : s.fresh ∉ idsOf pre := fun hm => hf (by simp [hm])
  have hfq : s.fresh ∉ idsOf post := fun hm => hf (by simp [hm])
  simp only [ok_bne, Bool.false_eq_true, if_false, ha, Bool.not_true, show s.alloc.1 = s.fresh from rfl]
  have hnd' : (idsOf (pre ++ (s.fresh, x) :: a :: post)).Nodup := by
    have := r.nodup
    simp only [idsOf_append, idsOf_cons] at this hf ⊢
    rw [List.nodup_append] at this ⊢
    refine ⟨this.1, ?_, ?_⟩
    · rw [List.nodup_cons]; exact ⟨fun hm => hf (List.mem_append_right _ hm), this.2.1⟩
    · intro u hu v hv
      rcases List.mem_cons.1 hv with e | e
      · rw [e]; intro e2; exact hf (List.mem_append_left _ (e2 ▸ hu))
      · exact this.2.2 u hu v e
  have hbound : ∀ u, u ∈ idsOf (pre ++ (s.fresh, x) :: a :: post) → u < s.fresh + 1 := by
    intro u hu
    simp only [idsOf_append, idsOf_cons, List.mem_append, List.mem_cons] at hu
    rcases hu with hu | hu | hu | hu
    · exact Nat.lt_succ_of_lt (hb _ (by simp [hu]))
    · subst hu; exact Nat.lt_succ_self _
    · subst hu; exact Nat.lt_succ_of_lt (hb _ (by simp))
    · exact Nat.lt_succ_of_lt (hb _ (by simp [hu]))
  have hseg0 : SSeg (setData s.alloc.2.heap s.fresh x) (pre ++ a :: post) none :=
    SSeg_frame (fun b hbm => setData_alloc_ne s x b (fun e => hf (by rw [← e]; exact hbm))) r.seg
  obtain ⟨t1, tnode, t2⟩ := SSeg_split hseg0
  rcases eq_nil_or_snoc pre with ep | ⟨ys, b, ep⟩
  · subst ep
    have hh : l.head = some a.1 := r.head
    simp only [lastOr_nil, if_true, hh]
    refine ⟨by first | trivial | rfl, by first | trivial | rfl, ⟨hnd', ?_, by simp [r.size], rfl, ?_⟩, rfl, Nat.le_succ _, hbound, ?_, (by intro a' ha' hna'; exact absurd (by simp only [idsOf_append, idsOf_cons, idsOf_nil, List.mem_append, List.mem_cons, List.not_mem_nil, or_false, false_or] at ha' ⊢; first | exact Or.inl ha' | exact Or.inr ha' | (rcases ha' with h | h | h <;> simp [h]) | (rcases ha' with h | h <;> simp [h]) | simp [ha']) hna')⟩
    · rw [List.nil_append, SSeg_cons]
      refine ⟨by rw [setNext, upd_eq, setData_alloc]; rfl, ?_⟩
      exact SSeg_upd_notin _ _ (by simpa [idsOf] using hf) hseg0
    · have := r.tail; simpa [lastOr_append] using this
    · intro u _ hlt
      rw [setNext, upd_ne _ _ _ _ (Nat.ne_of_lt hlt)]
      exact setData_alloc_ne s x u (Nat.ne_of_lt hlt)
  · subst ep
    have hq : lastOr (ys ++ [b]) none = some b.1 := by simp
    have hbn : b.1 ≠ s.fresh := fun e => hfp (by simp [← e])
    have hnb : b.1 ∉ idsOf ys := by
      simp only [idsOf_append, idsOf_cons, idsOf_nil] at n1
      rw [List.nodup_append] at n1
      exact fun hm => n1.2.2 _ hm _ List.mem_cons_self rfl
    have hbnode : (setData s.alloc.2.heap s.fresh x) b.1 = some ⟨b.2, some a.1, none⟩ := by
      have := (SSeg_append.1 t1).2
      rw [SSeg_cons] at this; exact this.1
    simp only [hq, reduceCtorEq, if_false, nextOf, Option.bind_some, nd_of hbnode, optSetNext]
    refine ⟨by first | trivial | rfl, by first | trivial | rfl, ⟨hnd', ?_, by simp [r.size]; omega, ?_, ?_⟩, rfl, Nat.le_succ _, hbound, ?_, (by intro a' ha' hna'; exact absurd (by simp only [idsOf_append, idsOf_cons, idsOf_nil, List.mem_append, List.mem_cons, List.not_mem_nil, or_false, false_or] at ha' ⊢; first | exact Or.inl ha' | exact Or.inr ha' | (rcases ha' with h | h | h <;> simp [h]) | (rcases ha' with h | h <;> simp [h]) | simp [ha']) hna')⟩
    · rw [SSeg_append, SSeg_cons]
      refine ⟨?_, ?_, ?_⟩
      · simp only [nxt_cons]
        exact SSeg_upd_notin _ _ hfp (SSeg_setNext_last (some s.fresh) t1 hnb)
      · rw [setNext, upd_eq, setNext, upd_ne _ _ _ _ (Ne.symm hbn), setData_alloc]; rfl
      · have hbq : b.1 ∉ idsOf (a :: post) := by
          intro hm; simp only [idsOf_cons, List.mem_cons] at hm
          rcases hm with e | e
          · exact na1 (by rw [← e]; simp)
          · exact nd12 b.1 (by simp) e
        have hfq' : s.fresh ∉ idsOf (a :: post) := by simp only [idsOf_cons, List.mem_cons, not_or]; exact ⟨hfa, hfq⟩
        have : SSeg (setData s.alloc.2.heap s.fresh x) (a :: post) none := by rw [SSeg_cons]; exact ⟨tnode, t2⟩
        exact SSeg_upd_notin _ _ hfq' (SSeg_upd_notin _ _ hbq this)
    · have := r.head; rw [nxt_append, nxt_of_ne (by simp)] at this ⊢; exact this
    · have := r.tail; rw [lastOr_append] at this ⊢; simpa using this
    · intro u hu hlt
      have hub : u ≠ b.1 := fun e => hu (by simp [e])
      rw [setNext, upd_ne _ _ _ _ (Nat.ne_of_lt hlt), setNext, upd_ne _ _ _ _ hub]
      exact setData_alloc_ne s x u (Nat.ne_of_lt hlt)


/-! ### `unlinkn_all`, `remove_all`, `destroy` -/
theorem unlinkAllLoop_spec : ∀ (cs : List Cell) (k : Nat) (s : St) (l : Hdr) (log : List Nat) (m : Mem),
    SSeg s.heap cs none → (idsOf cs).Nodup → cs.length ≤ k →
    (unlinkAllLoop k s l (nxt cs none) log m).2.1 = { l with size := l.size - cs.length } ∧
    (unlinkAllLoop k s l (nxt cs none) log m).2.2.1 = log ++ dataOf cs ∧
    (unlinkAllLoop k s l (nxt cs none) log m).2.2.2 = Mem.freeN l.triple cs.length m ∧
    (unlinkAllLoop k s l (nxt cs none) log m).1.fresh = s.fresh ∧
    (∀ b, b ∉ idsOf cs → (unlinkAllLoop k s l (nxt cs none) log m).1.heap b = s.heap b) ∧
    (∀ a, a ∈ idsOf cs → (unlinkAllLoop k s l (nxt cs none) log m).1.heap a = none)
  | [], k, s, l, log, m, _, _, _ => by
    have : unlinkAllLoop k s l (nxt [] none) log m = (s, l, log, m) := by cases k <;> rfl
    rw [this]; exact ⟨by simp, by simp, rfl, rfl, fun _ _ => rfl, fun _ h => by simp [idsOf] at h⟩
  | a :: rest, 0, _, _, _, _, _, _, hk => by simp at hk
  | a :: rest, k + 1, s, l, log, m, hs, hn, hk => by
    rw [SSeg_cons] at hs
    simp only [idsOf_cons, List.nodup_cons] at hn
    simp only [nxt_cons, unlinkAllLoop, nd_of hs.1]
    have ih := unlinkAllLoop_spec rest k (s.free a.1) { l with size := l.size - 1 } (log ++ [a.2]) (m.freeT l.triple)
      (SSeg_frame (fun b hb => free_ne s a.1 b (fun e => hn.1 (by rw [← e]; exact hb))) hs.2) hn.2 (by simpa using hk)
    obtain ⟨i1, i2, i3, i4, i5, i6⟩ := ih
    refine ⟨?_, ?_, ?_, i4, ?_, ?_⟩
    · rw [i1]; simp only [List.length_cons]; congr 1; omega
    · rw [i2]; simp
    · rw [i3]; rfl
    · intro b hb
      simp only [idsOf_cons, List.mem_cons, not_or] at hb
      rw [i5 b hb.2]; exact free_ne s a.1 b hb.1
    · intro a' ha'
      simp only [idsOf_cons, List.mem_cons] at ha'
      by_cases hr : a' ∈ idsOf rest
      · exact i6 a' hr
      · have e : a' = a.1 := by rcases ha' with h | h; exact h; exact absurd h hr
        subst e
        rw [i5 a.1 hn.1]; exact free_eq s a.1

/-- **`cc_slist_remove_all`** / **`cc_slist_remove_all_cb`** -/
theorem removeAll_spec (s : St) (l : Hdr) (cs : List Cell) (m : Mem)
    (r : SRepr s.heap l cs) (hb : ∀ x, x ∈ idsOf cs → x < s.fresh) :
    (cs = [] → removeAll s l m = (.errValueNotFound, [], s, l, m)) ∧
    (cs ≠ [] →
      (removeAll s l m).1 = .ok ∧ (removeAll s l m).2.1 = dataOf cs ∧ (removeAll s l m).2.2.2.2 = Mem.freeN l.triple cs.length m ∧
      SKeeps s (removeAll s l m).2.2.1 l (removeAll s l m).2.2.2.1 cs []) := by
  unfold removeAll unlinknAll
  refine ⟨fun e => by subst e; simp [r.size], fun hne => ?_⟩
  have hs : l.size ≠ 0 := by rw [r.size]; exact fun e => hne (List.eq_nil_of_length_eq_zero e)
  simp only [hs, if_false, if_true]
  rw [r.head, r.size]
  obtain ⟨i1, i2, i3, i4, i5, i6⟩ := unlinkAllLoop_spec cs cs.length s l [] m r.seg r.nodup (Nat.le_refl _)
  refine ⟨by first | trivial | rfl, by rw [i2]; simp, i3, ⟨⟨by simp [idsOf], trivial, ?_, rfl, rfl⟩, ?_, ?_, by simp [idsOf], fun b hb _ => i5 b hb, fun a ha _ => i6 a ha⟩⟩
  · simp only []; rw [i1, r.size]; simp
  · simp only []; rw [i1]
  · rw [i4]; exact Nat.le_refl _

/-- **`cc_slist_destroy`** / **`cc_slist_destroy_cb`** -/
theorem destroy_spec (s : St) (l : Hdr) (cs : List Cell) (m : Mem)
    (r : SRepr s.heap l cs) (hb : ∀ x, x ∈ idsOf cs → x < s.fresh) :
    (destroy s l m).1 = dataOf cs ∧ (destroy s l m).2.2 = (Mem.freeN l.triple cs.length m).freeT l.triple ∧
    (destroy s l m).2.1.fresh = s.fresh ∧ (∀ b, b ∉ idsOf cs → b < s.fresh → (destroy s l m).2.1.heap b = s.heap b) ∧
    (∀ a, a ∈ idsOf cs → (destroy s l m).2.1.heap a = none) := by
  obtain ⟨re, rs⟩ := removeAll_spec s l cs m r hb
  unfold destroy
  by_cases hc : cs = []
  · rw [re hc]; subst hc; simp [Mem.freeN, idsOf]
  · obtain ⟨_, h2, h3, k⟩ := rs hc
    refine ⟨h2, by show ((removeAll s l m).2.2.2.2).freeT l.triple = _; rw [h3], ?_, k.frame, fun a ha => k.dead a ha (by simp [idsOf])⟩
    have := unlinkAllLoop_spec cs cs.length s l [] m r.seg r.nodup (Nat.le_refl _)
    unfold removeAll unlinknAll
    have hs : l.size ≠ 0 := by rw [r.size]; exact fun e => hc (List.eq_nil_of_length_eq_zero e)
    simp only [hs, if_false, if_true]
    rw [r.head, r.size]; exact this.2.2.2.1

/-! ### `cc_slist_reverse` -/
theorem reverseLoop_spec : ∀ (R P : List Cell) (k : Nat) (h : Heap), SSeg h R none → SSeg h P.reverse none →
    (idsOf (P ++ R)).Nodup → R.length ≤ k →
    SSeg (reverseLoop k h (nxt P.reverse none) (nxt R none)).1 (P ++ R).reverse none ∧
    (reverseLoop k h (nxt P.reverse none) (nxt R none)).2 = nxt (P ++ R).reverse none ∧
    (∀ b, b ∉ idsOf (P ++ R) → (reverseLoop k h (nxt P.reverse none) (nxt R none)).1 b = h b)
  | [], P, k, h, _, hp, _, _ => by
    have : reverseLoop k h (nxt P.reverse none) (nxt [] none) = (h, nxt P.reverse none) := by cases k <;> rfl
    rw [this]; simp only [List.append_nil]; exact ⟨hp, by first | trivial | rfl, fun _ _ => by first | trivial | rfl⟩
  | c :: R', P, 0, _, _, _, _, hk => by simp at hk
  | c :: R', P, k + 1, h, hr, hp, hn, hk => by
    rw [SSeg_cons] at hr
    have hnd : (idsOf (P ++ c :: R')).Nodup := hn
    obtain ⟨nP, nR, cP, cR, dPR, _⟩ := nodup_append_cons hnd
    simp only [nxt_cons, reverseLoop, nd_of hr.1]
    have hp' : SSeg (setNext h c.1 (nxt P.reverse none)) (P ++ [c]).reverse none := by
      rw [List.reverse_append, List.reverse_cons, List.reverse_nil, List.nil_append, List.singleton_append, SSeg_cons]
      refine ⟨by rw [setNext, upd_eq, hr.1]; rfl, SSeg_upd_notin _ _ (by simpa [idsOf] using cP) hp⟩
    have hr' : SSeg (setNext h c.1 (nxt P.reverse none)) R' none := SSeg_upd_notin _ _ cR hr.2
    have hn' : (idsOf ((P ++ [c]) ++ R')).Nodup := by simpa using hnd
    have ih := reverseLoop_spec R' (P ++ [c]) k (setNext h c.1 (nxt P.reverse none)) hr' hp' hn' (by simpa using hk)
    have e1 : nxt (P ++ [c]).reverse none = some c.1 := by simp
    rw [e1] at ih
    have e2 : (P ++ [c]) ++ R' = P ++ c :: R' := by simp
    rw [e2] at ih
    refine ⟨ih.1, ih.2.1, fun b hb => ?_⟩
    rw [ih.2.2 b hb]
    exact upd_ne _ _ _ _ (fun e => hb (by simp [e]))

/-- **`cc_slist_reverse`** -/
theorem reverse_spec (s : St) (l : Hdr) (cs : List Cell) (r : SRepr s.heap l cs) :
    SRepr (reverse s l).1.heap (reverse s l).2 cs.reverse ∧ (reverse s l).2.triple = l.triple ∧ (reverse s l).1.fresh = s.fresh ∧
    (∀ b, b ∉ idsOf cs → (reverse s l).1.heap b = s.heap b) := by
  unfold reverse
  by_cases hsm : l.size = 0 ∨ l.size = 1
  · rw [if_pos hsm]
    have : cs.reverse = cs := by
      rw [r.size] at hsm
      match cs, hsm with
      | [], _ => rfl
      | [a], _ => rfl
      | a :: b :: t, hsm => simp at hsm
    rw [this]; exact ⟨r, rfl, rfl, fun _ _ => rfl⟩
  · rw [if_neg hsm]
    have := reverseLoop_spec cs [] cs.length s.heap r.seg trivial (by simpa using r.nodup) (Nat.le_refl _)
    simp only [List.reverse_nil, nxt_nil, List.nil_append] at this
    rw [r.head, r.size]
    refine ⟨⟨?_, this.1, by simp [r.size], this.2.1, ?_⟩, rfl, rfl, this.2.2⟩
    · have := r.nodup; simp only [idsOf, List.map_reverse] at this ⊢; exact (List.reverse_perm _).nodup_iff.2 this
    · simp only []; rw [lastOr_reverse]

/-! ### `cc_slist_filter_mut` -/

theorem filterMutLoop_none (pr : Nat → Bool) (k : Nat) (s : St) (l : Hdr) (p : Option Nat) (m : Mem) :
    filterMutLoop pr k s l none p m = (s, l, m) := by cases k <;> rfl

/-- the loop, standing at the first node of `rest` with `kept` already decided and `prev` the last kept node: exactly the
nodes of `rest` that fail the predicate leave the chain (one `mem_free` each, each unlinked behind its true predecessor),
every other node keeps its identity and its place -/
theorem filterMutLoop_spec (pr : Nat → Bool) : ∀ (rest kept : List Cell) (k : Nat) (s : St) (l : Hdr) (m : Mem),
    SRepr s.heap l (kept ++ rest) → (∀ x, x ∈ idsOf (kept ++ rest) → x < s.fresh) → rest.length ≤ k →
    (filterMutLoop pr k s l (nxt rest none) (lastOr kept none) m).2.2 =
      Mem.freeN l.triple (rest.length - (rest.filter (fun c => pr c.2)).length) m ∧
    SKeeps s (filterMutLoop pr k s l (nxt rest none) (lastOr kept none) m).1 l
      (filterMutLoop pr k s l (nxt rest none) (lastOr kept none) m).2.1
      (kept ++ rest) (kept ++ rest.filter (fun c => pr c.2))
  | [], kept, k, s, l, m, r, hb, _ => by
    simp only [show nxt ([] : List Cell) none = none from rfl, filterMutLoop_none, List.filter_nil, List.length_nil,
      Nat.sub_self, Mem.freeN]
    exact ⟨by first | trivial | rfl, r, rfl, Nat.le_refl _, hb, fun _ _ _ => rfl, fun a ha hna => absurd (by simpa using ha) hna⟩
  | a :: rest, kept, 0, s, l, m, _, _, hk => by simp at hk
  | a :: rest, kept, k + 1, s, l, m, r, hb, hk => by
    obtain ⟨_, ha, _⟩ := SSeg_split r.seg
    have hk' : rest.length ≤ k := by simpa using hk
    have hfl : (rest.filter (fun c => pr c.2)).length ≤ rest.length := List.length_filter_le _ _
    simp only [nxt_cons, filterMutLoop, nd_of ha]
    by_cases hp : pr a.2 = true
    · have r' : SRepr s.heap l ((kept ++ [a]) ++ rest) := by simpa using r
      have hb' : ∀ x, x ∈ idsOf ((kept ++ [a]) ++ rest) → x < s.fresh := by simpa using hb
      obtain ⟨i1, i2⟩ := filterMutLoop_spec pr rest (kept ++ [a]) k s l m r' hb' hk'
      have hl : lastOr (kept ++ [a]) none = some a.1 := by rw [lastOr_append]; rfl
      rw [hl] at i1 i2
      simp only [hp, Bool.not_true, Bool.false_eq_true, if_false, List.filter_cons, if_true, List.length_cons]
      refine ⟨by rw [i1]; congr 1; omega, ?_⟩
      have e1 : kept ++ a :: rest = (kept ++ [a]) ++ rest := by simp
      have e2 : kept ++ a :: rest.filter (fun c => pr c.2) = (kept ++ [a]) ++ rest.filter (fun c => pr c.2) := by simp
      rw [e1, e2]; exact i2
    · have hp' : pr a.2 = false := by simpa using hp
      obtain ⟨_, u2, uk⟩ := unlinkn_spec s l kept rest a m r hb
      obtain ⟨i1, i2⟩ := filterMutLoop_spec pr rest kept k (unlinkn s l a.1 (lastOr kept none) m).2.1
        (unlinkn s l a.1 (lastOr kept none) m).2.2.1 (unlinkn s l a.1 (lastOr kept none) m).2.2.2 uk.repr uk.bound hk'
      simp only [hp', Bool.not_false, if_true, List.filter_cons, Bool.false_eq_true, if_false, List.length_cons]
      refine ⟨?_, i2.repr, i2.triple.trans uk.triple, Nat.le_trans uk.mono i2.mono, i2.bound, fun b hb1 hb2 => ?_, fun a' ha' hna' => ?_⟩
      rotate_right
      · by_cases hm : a' ∈ idsOf (kept ++ rest)
        · exact i2.dead a' hm hna'
        · rw [i2.frame a' hm (Nat.lt_of_lt_of_le (hb a' ha') uk.mono)]
          exact uk.dead a' ha' hm
      · rw [i1, u2, uk.triple]
        have : rest.length + 1 - (rest.filter (fun c => pr c.2)).length =
            (rest.length - (rest.filter (fun c => pr c.2)).length) + 1 := by omega
        rw [this]; rfl
      · have hb3 : b ∉ idsOf (kept ++ rest) := by
          intro hm; apply hb1
          simp only [idsOf_append, idsOf_cons, List.mem_append, List.mem_cons] at hm ⊢
          rcases hm with hm | hm
          · exact Or.inl hm
          · exact Or.inr (Or.inr hm)
        rw [i2.frame b hb3 (Nat.lt_of_lt_of_le hb2 uk.mono)]
        exact uk.frame b hb1 hb2

/-- **`cc_slist_filter_mut`** -/
theorem filterMut_spec (pr : Nat → Bool) (s : St) (l : Hdr) (cs : List Cell) (m : Mem) (r : SRepr s.heap l cs)
    (hb : ∀ x, x ∈ idsOf cs → x < s.fresh) :
    (cs = [] → filterMut pr s l m = (.errOutOfRange, s, l, m)) ∧
    (cs ≠ [] → (filterMut pr s l m).1 = .ok ∧
      (filterMut pr s l m).2.2.2 = Mem.freeN l.triple (cs.length - (cs.filter (fun c => pr c.2)).length) m ∧
      SKeeps s (filterMut pr s l m).2.1 l (filterMut pr s l m).2.2.1 cs (cs.filter (fun c => pr c.2))) := by
  unfold filterMut
  refine ⟨fun e => by subst e; simp [r.size], fun hne => ?_⟩
  have hsz : l.size ≠ 0 := by rw [r.size]; exact fun e => hne (List.eq_nil_of_length_eq_zero e)
  rw [if_neg hsz, r.size, r.head]
  obtain ⟨i1, i2⟩ := filterMutLoop_spec pr cs [] cs.length s l m (by simpa using r) (by simpa using hb) (Nat.le_refl _)
  exact ⟨rfl, i1, by simpa using i2⟩

end CC.PSList
