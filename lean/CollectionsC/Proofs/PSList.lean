import CollectionsC.Model.PSList
import CollectionsC.Proofs.PListBulk
/-! Pointer-level model of `cc_slist.c` (`Model/PSList.lean`), part 1: singly linked segments, the representation
predicate, walks with a predecessor, `unlinkn` and the single-list operations. -/
namespace CC.PSList
open CC
open CC.PList (Heap St Hdr PNode Cell nd setNext setData optSetNext upd idsOf dataOf nxt lastOr live live_some live_none free_eq)
open CC.PList

/-- **singly linked segment**: the nodes `cs` are live and linked by `next` in this order; `n` is the `next` of the last
one; the unused `prev` field is NULL everywhere -/
def SSeg (h : Heap) : List Cell → Option Nat → Prop
  | [], _ => True
  | a :: rest, n => h a.1 = some ⟨a.2, nxt rest n, none⟩ ∧ SSeg h rest n

@[simp] theorem SSeg_nil (h : Heap) (n : Option Nat) : SSeg h [] n = True := rfl
theorem SSeg_cons (h : Heap) (n : Option Nat) (a : Cell) (rest : List Cell) :
    SSeg h (a :: rest) n = (h a.1 = some ⟨a.2, nxt rest n, none⟩ ∧ SSeg h rest n) := rfl

theorem SSeg_frame {h h' : Heap} : ∀ {cs : List Cell} {n : Option Nat}, (∀ a, a ∈ idsOf cs → h' a = h a) → SSeg h cs n → SSeg h' cs n
  | [], _, _, _ => trivial
  | a :: rest, n, hf, hs => by
    rw [SSeg_cons] at hs ⊢
    exact ⟨by rw [hf a.1 (by simp)]; exact hs.1, SSeg_frame (fun b hb => hf b (by simp [hb])) hs.2⟩

theorem SSeg_append {h : Heap} : ∀ {xs ys : List Cell} {n : Option Nat}, SSeg h (xs ++ ys) n ↔ (SSeg h xs (nxt ys n) ∧ SSeg h ys n)
  | [], ys, n => by simp
  | a :: rest, ys, n => by
    simp only [List.cons_append, SSeg_cons, nxt_append]
    rw [SSeg_append (xs := rest)]
    constructor
    · rintro ⟨h1, h2, h3⟩; exact ⟨⟨h1, h2⟩, h3⟩
    · rintro ⟨⟨h1, h2⟩, h3⟩; exact ⟨h1, h2, h3⟩

/-- every node of a segment is live -/
theorem SSeg_live {h : Heap} : ∀ {cs : List Cell} {n : Option Nat}, SSeg h cs n → ∀ a, a ∈ idsOf cs → (h a).isSome = true
  | [], _, _, _, ha => by cases ha
  | b :: rest, n, hs, a, ha => by
    rw [SSeg_cons] at hs
    simp only [idsOf_cons, List.mem_cons] at ha
    rcases ha with e | hm
    · subst e; rw [hs.1]; rfl
    · exact SSeg_live hs.2 a hm

theorem SSeg_split {h : Heap} {pre post : List Cell} {a : Cell} {n : Option Nat} (hs : SSeg h (pre ++ a :: post) n) :
    SSeg h pre (some a.1) ∧ h a.1 = some ⟨a.2, nxt post n, none⟩ ∧ SSeg h post n := by
  rw [SSeg_append, SSeg_cons] at hs
  exact ⟨hs.1, hs.2.1, hs.2.2⟩

theorem SSeg_upd_notin {h : Heap} {cs : List Cell} {n : Option Nat} (id : Nat) (f : PNode → PNode) (hn : id ∉ idsOf cs)
    (hs : SSeg h cs n) : SSeg (upd h id f) cs n :=
  SSeg_frame (fun a ha => upd_ne h id f a (fun e => hn (e ▸ ha))) hs

theorem SSeg_setNext_last {h : Heap} : ∀ {xs : List Cell} {b : Cell} {n : Option Nat} (n' : Option Nat),
    SSeg h (xs ++ [b]) n → b.1 ∉ idsOf xs → SSeg (setNext h b.1 n') (xs ++ [b]) n'
  | [], b, n, n', hs, _ => by
    simp only [List.nil_append, SSeg_cons, nxt_nil, SSeg_nil, and_true] at hs ⊢
    rw [setNext, upd_eq, hs]; rfl
  | a :: rest, b, n, n', hs, hb => by
    simp only [List.cons_append, SSeg_cons] at hs ⊢
    have hne : a.1 ≠ b.1 := fun e => hb (by simp [e])
    refine ⟨?_, SSeg_setNext_last n' hs.2 (fun hm => hb (by simp [hm]))⟩
    rw [setNext, upd_ne _ _ _ _ hne, hs.1]
    cases rest <;> rfl

/-- re-point the `next` of the last node of a prefix (`if (prev) prev->next = v`) -/
theorem SSeg_optSetNext {h : Heap} {pre : List Cell} {n : Option Nat} (v : Option Nat) (hs : SSeg h pre n)
    (hn : (idsOf pre).Nodup) : SSeg (optSetNext h (lastOr pre none) v) pre (if pre = [] then n else v) := by
  rcases eq_nil_or_snoc pre with e | ⟨ys, b, e⟩
  · subst e; trivial
  · subst e
    have : ys ++ [b] ≠ [] := by simp
    simp only [this, if_false, lastOr_concat, optSetNext]
    simp only [idsOf_append, idsOf_cons, idsOf_nil] at hn
    rw [List.nodup_append] at hn
    exact SSeg_setNext_last v hs (fun hm => hn.2.2 _ hm _ List.mem_cons_self rfl)

theorem SSeg_setData {h : Heap} {pre post : List Cell} {a : Cell} {n : Option Nat} (x : Nat)
    (hs : SSeg h (pre ++ a :: post) n) (h1 : a.1 ∉ idsOf pre) (h2 : a.1 ∉ idsOf post) :
    SSeg (setData h a.1 x) (pre ++ (a.1, x) :: post) n := by
  obtain ⟨s1, ha, s2⟩ := SSeg_split hs
  rw [SSeg_append, SSeg_cons]
  refine ⟨SSeg_upd_notin _ _ h1 s1, ?_, SSeg_upd_notin _ _ h2 s2⟩
  rw [setData, upd_eq, ha]; rfl

theorem SSeg_ends {h : Heap} {cs : List Cell} {n n' : Option Nat} (hs : SSeg h cs n) (hn : cs = [] ∨ n = n') : SSeg h cs n' := by
  cases cs with
  | nil => trivial
  | cons c r =>
    rcases hn with e | e
    · cases e
    · subst e; exact hs

/-! ### reading -/
theorem dataNext_sseg {h : Heap} : ∀ {cs : List Cell}, SSeg h cs none → dataNext h cs.length (nxt cs none) = dataOf cs
  | [], _ => rfl
  | a :: rest, hs => by
    rw [SSeg_cons] at hs
    simp only [List.length_cons, nxt_cons, dataNext, dataOf_cons, nd_of hs.1]
    exact congrArg _ (dataNext_sseg hs.2)

theorem idsNext_sseg {h : Heap} : ∀ {cs : List Cell} (k : Nat), SSeg h cs none → cs.length ≤ k → idsNext h k (nxt cs none) = idsOf cs
  | [], k, _, _ => by cases k <;> rfl
  | a :: rest, k, hs, hk => by
    rw [SSeg_cons] at hs
    cases k with
    | zero => simp at hk
    | succ k =>
      simp only [nxt_cons, idsNext, nd_of hs.1, idsOf_cons]
      exact congrArg _ (idsNext_sseg k hs.2 (by simpa using hk))

/-- `get_node_at`'s loop: after `pre.length` steps the cursor stands on the node behind `pre`, `prev` on the last node of `pre` -/
theorem walkAt_sseg {h : Heap} : ∀ {pre post : List Cell} {a : Cell} {n p0 : Option Nat}, SSeg h (pre ++ a :: post) n →
    walkAt h pre.length (nxt (pre ++ a :: post) n) p0 = (some a.1, lastOr pre p0)
  | [], _, _, _, _, _ => rfl
  | c :: rest, post, a, n, p0, hs => by
    rw [List.cons_append, SSeg_cons] at hs
    simp only [List.cons_append, nxt_cons, List.length_cons, walkAt, nextOf, Option.bind_some, nd_of hs.1, lastOr_cons]
    exact walkAt_sseg hs.2

/-! ### representation -/
structure SRepr (h : Heap) (l : Hdr) (cs : List Cell) : Prop where
  nodup : (idsOf cs).Nodup
  seg : SSeg h cs none
  size : l.size = cs.length
  head : l.head = nxt cs none
  tail : l.tail = lastOr cs none

/-- **well-formedness** of a singly linked list: following `next` from `head` visits `size` distinct live nodes, the last of
which is `tail` and has `next = NULL` -/
def WF (h : Heap) (l : Hdr) : Prop := ∃ cs, SRepr h l cs

theorem SRepr.fwd {h : Heap} {l : Hdr} {cs : List Cell} (r : SRepr h l cs) : fwd h l = dataOf cs := by
  unfold PSList.fwd; rw [r.size, r.head]; exact dataNext_sseg r.seg

theorem getNodeAt_srepr {h : Heap} {l : Hdr} {cs : List Cell} (r : SRepr h l cs) (i : Nat) :
    (¬ i < cs.length → getNodeAt h l i = (.errOutOfRange, none, none)) ∧
    (∀ pre a post, cs = pre ++ a :: post → pre.length = i → getNodeAt h l i = (.ok, some a.1, lastOr pre none)) := by
  unfold getNodeAt
  rw [r.size]
  refine ⟨fun hi => by rw [if_pos (by omega)], fun pre a post e hl => ?_⟩
  have hi : i < cs.length := by rw [e]; simp; omega
  rw [if_neg (by omega), r.head]
  subst e; subst hl
  rw [walkAt_sseg r.seg]

/-- single-list operations: what is kept besides the representation of the result -/
structure SKeeps (s s' : St) (l l' : Hdr) (cs cs' : List Cell) : Prop where
  repr : SRepr s'.heap l' cs'
  triple : l'.triple = l.triple
  mono : s.fresh ≤ s'.fresh
  bound : ∀ a, a ∈ idsOf cs' → a < s'.fresh
  frame : ∀ b, b ∉ idsOf cs → b < s.fresh → s'.heap b = s.heap b
  dead : ∀ a, a ∈ idsOf cs → a ∉ idsOf cs' → s'.heap a = none

theorem optSetNext_ne' (h : Heap) (o v : Option Nat) (b : Nat) (hne : ∀ x, o = some x → b ≠ x) : (optSetNext h o v) b = h b := by
  cases o with
  | none => rfl
  | some x => exact upd_ne _ _ _ _ (hne x rfl)

/-- the predecessor handed to `unlinkn` is NULL or a live node -/
theorem prev_live {h : Heap} {pre : List Cell} {n : Option Nat} (hs : SSeg h pre n) :
    (lastOr pre none == none || live h (lastOr pre none)) = true := by
  cases hq : lastOr pre none with
  | none => rfl
  | some q => simp only [live_some, SSeg_live hs q (lastOr_mem hq), Bool.or_true]

/-- `list->tail` of a non-empty represented list is a live node -/
theorem tail_live {h : Heap} {cs : List Cell} {n : Option Nat} (hs : SSeg h cs n) (hne : cs ≠ []) : live h (lastOr cs none) = true := by
  cases hq : lastOr cs none with
  | none =>
    rcases eq_nil_or_snoc cs with e | ⟨ys, b, e⟩
    · exact absurd e hne
    · subst e; simp at hq
  | some q => simp only [live_some, SSeg_live hs q (lastOr_mem hq)]

/-- **`unlinkn(list, node, prev)`** with `prev` the predecessor of `node` -/
theorem unlinkn_spec (s : St) (l : Hdr) (pre post : List Cell) (a : Cell) (m : Mem)
    (r : SRepr s.heap l (pre ++ a :: post)) (hb : ∀ x, x ∈ idsOf (pre ++ a :: post) → x < s.fresh) :
    (unlinkn s l a.1 (lastOr pre none) m).1 = a.2 ∧ (unlinkn s l a.1 (lastOr pre none) m).2.2.2 = m.freeT l.triple ∧
    SKeeps s (unlinkn s l a.1 (lastOr pre none) m).2.1 l (unlinkn s l a.1 (lastOr pre none) m).2.2.1 (pre ++ a :: post) (pre ++ post) := by
  obtain ⟨n1, n2, na1, na2, nd12, n12⟩ := nodup_append_cons r.nodup
  obtain ⟨s1, ha, s2⟩ := SSeg_split r.seg
  unfold unlinkn
  simp only [nd_of ha, live_some, ha, Option.isSome_some, prev_live s1, Bool.and_self, Mem.check_true]
  have hsz := r.size
  have hhd := r.head
  have htl := r.tail
  refine ⟨by first | trivial | rfl, ?_, ⟨⟨n12, ?_, ?_, ?_, ?_⟩, ?_, Nat.le_refl _, ?_, ?_, ?_⟩⟩
  · split <;> split <;> rfl
  · rw [SSeg_append]
    constructor
    · have e1 := SSeg_optSetNext (nxt post none) s1 n1
      have e1' := SSeg_ends (n' := nxt post none) e1 (by by_cases e : pre = [] <;> simp [e])
      exact SSeg_frame (fun b hb' => free_ne _ _ _ (fun e => na1 (by rw [← e]; exact hb'))) e1'
    · refine SSeg_frame (fun b hb' => ?_) s2
      rw [free_ne _ _ _ (fun e => na2 (by rw [← e]; exact hb'))]
      exact optSetNext_ne' _ _ _ _ (fun x hx e => nd12 x (lastOr_mem hx) (by rw [← e]; exact hb'))
  · rcases eq_nil_or_snoc pre with e | ⟨ys, b, e⟩ <;> subst e <;> cases post <;>
      simp [nxt_append, lastOr_append] at hsz hhd htl ⊢ <;> omega
  · rcases eq_nil_or_snoc pre with e | ⟨ys, b, e⟩ <;> subst e <;> cases post <;>
      simp [nxt_append, lastOr_append] at hsz hhd htl ⊢ <;> first | exact hhd | skip
  · rcases eq_nil_or_snoc pre with e | ⟨ys, b, e⟩ <;> subst e <;> cases post <;>
      simp [nxt_append, lastOr_append] at hsz hhd htl ⊢ <;> first | exact htl | skip
  · split <;> split <;> rfl
  · intro x hx
    refine hb x ?_
    simp only [idsOf_append, idsOf_cons, List.mem_append, List.mem_cons] at hx ⊢
    rcases hx with hx | hx
    · exact Or.inl hx
    · exact Or.inr (Or.inr hx)
  · intro b hnb _
    have hba : b ≠ a.1 := fun e => hnb (by simp [e])
    rw [free_ne _ _ _ hba]
    exact optSetNext_ne' _ _ _ _ (fun x hx e => hnb (by have := lastOr_mem hx; simp [e, this]))
  · intro a' ha' hna'
    have e : a' = a.1 := by
      simp only [idsOf_append, idsOf_cons, List.mem_append, List.mem_cons, not_or] at ha' hna'
      rcases ha' with h | h | h
      · exact absurd h hna'.1
      · exact h
      · exact absurd h hna'.2
    subst e
    exact free_eq _ _

end CC.PSList
