import CollectionsC.Proofs.ArraySized7
/-! Sized array, part 8: when is a call *not* refused (history level), containers on the C library
allocator are never refused, rejected zip / iterator calls are inert. -/
namespace CC.ArraySized
open CC CC.Gen

/-- the allocator grants every request: empty refusal schedule, or a container on the C library
allocator (which the schedule does not govern) -/
def Grants (t : Triple) (m : Mem) : Prop := t = .libc ∨ m.sched = []

theorem grants_alloc (t : Triple) (m : Mem) (h : Grants t m) :
    (m.allocT t).1 = true ∧ Grants t (m.allocT t).2 := by
  rcases h with h | h
  · subst h; exact ⟨rfl, Or.inl rfl⟩
  · cases t
    · have := Mem.alloc_nil m h
      exact ⟨this.1, Or.inr this.2⟩
    · exact ⟨rfl, Or.inl rfl⟩

theorem grants_of_sched (t : Triple) (m m' : Mem) (h : Grants t m) (hs : m'.sched = m.sched) : Grants t m' := by
  rcases h with h | h
  · exact Or.inl h
  · exact Or.inr (hs.trans h)

theorem expandCapacity_grants (a : ArraySized) (m : Mem) (h : Grants a.triple m) :
    Grants a.triple (a.expandCapacity m).2.2 := by
  unfold expandCapacity
  split
  · exact h
  · dsimp only
    split
    · exact grants_of_sched _ _ _ h (by simp)
    · have hq := grants_alloc a.triple (m.check (a.dataLen != 0)) (grants_of_sched _ _ _ h (by simp))
      rw [hq.1]
      simp only [Bool.not_true, Bool.false_eq_true, if_false]
      exact grants_of_sched _ _ _ hq.2 (by rw [free_sched, Mem.check_sched])

theorem trimCapacity_grants (a : ArraySized) (m : Mem) (h : Grants a.triple m) :
    Grants a.triple (a.trimCapacity m).2.2 := by
  unfold trimCapacity
  by_cases h1 : a.size = a.capacity
  · rw [if_pos h1]; exact h
  · rw [if_neg h1]
    dsimp only
    by_cases h2 : (if a.size < 1 then 1 else a.size) = a.capacity
    · rw [if_pos h2]; exact h
    · rw [if_neg h2]
      have hq := grants_alloc a.triple m h
      rw [hq.1]
      simp only [Bool.not_true, Bool.false_eq_true, if_false]
      exact grants_of_sched _ _ _ hq.2 (by rw [free_sched, Mem.check_sched])

/-- a granting allocator still grants after any call -/
theorem step_grants (a : ArraySized) (op : Spec.SSeq.Op Elem) (m : Mem) (h : a.Inv) (hw : OpWF a.dataLen op)
    (hg : Grants a.triple m) : Grants a.triple (a.step op m).2.2 := by
  have key : ∀ m', (a.step op m).2.2 = m' → m'.sched = m.sched → Grants a.triple (a.step op m).2.2 := by
    intro m' e hs; rw [e]; exact grants_of_sched _ _ _ hg hs
  cases op with
  | add x =>
    simp only [step]
    rw [add_eq]
    have er : Grants a.triple (a.ensureRoom m).2.2 := by
      unfold ensureRoom; split
      · exact expandCapacity_grants a m hg
      · exact hg
    split
    · exact er
    · exact grants_of_sched _ _ _ er (by simp)
  | addAt x i =>
    simp only [step]
    by_cases hend : i = a.size
    · have e1 : a.addAt x i m = a.add x m := by unfold addAt; rw [if_pos hend]
      rw [e1, add_eq]
      have er : Grants a.triple (a.ensureRoom m).2.2 := by
        unfold ensureRoom; split
        · exact expandCapacity_grants a m hg
        · exact hg
      split
      · exact er
      · exact grants_of_sched _ _ _ er (by simp)
    · by_cases hlt : i < a.size
      · rw [addAt_eq_mid a x i m hlt]
        have er : Grants a.triple (a.ensureRoom m).2.2 := by
          unfold ensureRoom; split
          · exact expandCapacity_grants a m hg
          · exact hg
        split
        · exact er
        · exact grants_of_sched _ _ _ er (by simp)
      · rw [addAt_inert a x i m (by omega)]; exact hg
  | trim => exact trimCapacity_grants a m hg
  | replaceAt x i => exact grants_of_sched _ _ _ hg (by
      obtain ⟨q, _⟩ := step_indep a (.replaceAt x i) m m h hw rfl
      by_cases hi : i < a.size
      · simp only [step, (replaceAt_spec a x i m h hw hi).1]
      · simp only [step, replaceAt_inert a x i m (by omega)])
  | swapAt i j => exact grants_of_sched _ _ _ hg (by
      by_cases hi : i < a.size ∧ j < a.size
      · simp only [step]; rw [(swapAt_spec a i j m h hi.1 hi.2).2.1]
      · simp only [step, swapAt_inert a i j m (by omega)])
  | remove x => exact grants_of_sched _ _ _ hg (by simp only [step]; rw [(remove_spec a x m h hw).2.1])
  | removeAt i => exact grants_of_sched _ _ _ hg (by
      by_cases hi : i < a.size
      · simp only [step]; rw [(removeAt_spec a i m h hi).2.2.1]
      · simp only [step, removeAt_inert a i m (by omega)])
  | removeLast => exact grants_of_sched _ _ _ hg (by
      by_cases h0 : 0 < a.size
      · simp only [step]; rw [(removeLast_spec a m h h0).2.2.1]
      · simp only [step, removeLast_inert a m h (by omega)])
  | removeAll => exact hg
  | reverse => exact grants_of_sched _ _ _ hg (by simp only [step]; rw [(reverse_spec a m h).1])
  | filterMut p => exact grants_of_sched _ _ _ hg (by
      by_cases h0 : 0 < a.size
      · simp only [step]; rw [(filterMut_spec a p m h h0).2.2.1]
      · simp only [step, filterMut_inert a p m (by omega)])
  | getAt i => exact grants_of_sched _ _ _ hg (by simp only [step, getAt_spec a i m h]; split <;> rfl)
  | getLast => exact grants_of_sched _ _ _ hg (by simp only [step, getLast_spec a m h]; split <;> rfl)
  | peek i => exact grants_of_sched _ _ _ hg (by simp only [step, peek_spec, getAt_spec a i m h]; split <;> rfl)
  | indexOf x => exact grants_of_sched _ _ _ hg (by simp only [step, indexOf_spec a x m h hw])
  | contains x => exact grants_of_sched _ _ _ hg (by simp only [step, contains_spec a x m h hw])
  | map f => exact grants_of_sched _ _ _ hg (by simp only [step]; rw [(map_spec a f m h hw).2.1])
  | reduce fn r0 => exact grants_of_sched _ _ _ hg (by simp only [step, reduce_spec a fn r0 m h])
  | sort sortFn => exact grants_of_sched _ _ _ hg (by simp only [step, sort, Mem.check_sched])

/-- **a call is refused only when the allocator refuses or the size limit is reached** (one call) -/
theorem step_unrefused (a : ArraySized) (op : Spec.SSeq.Op Elem) (m : Mem) (h : a.Inv) (hw : OpWF a.dataLen op)
    (hg : Grants a.triple m) (hl : ¬ a.AtLimit) : a.refusal op m = none := by
  obtain ⟨_, _, _, _, _, _, _, h8, h9⟩ := step_refines a op m h hw
  cases hr : a.refusal op m with
  | none => rfl
  | some s =>
    have hs : s = .errAlloc ∨ s = .errMaxCapacity := by
      unfold refusal at hr
      split at hr <;> simp at hr <;> simp [← hr]
    rcases hs with hs | hs
    · subst hs
      have := h8 hr
      rw [(grants_alloc a.triple m hg).1] at this; cases this
    · subst hs; exact absurd (h9 hr).1 hl

/-- … and at history level: with a granting allocator, a history during which the array never stands
at its size limit is not refused anywhere — the ideal sequence is then run without any refusal input -/
theorem run_unrefused (ops : List (Spec.SSeq.Op Elem)) :
    ∀ (a : ArraySized) (m : Mem), a.Inv → (∀ op ∈ ops, OpWF a.dataLen op) → Grants a.triple m →
      (∀ k, k ≤ ops.length → ¬ (a.run (ops.take k) m).2.1.AtLimit) →
      a.refusals ops m = List.replicate ops.length none := by
  induction ops with
  | nil => intro a m _ _ _ _; rfl
  | cons op ops ih =>
    intro a m h hw hg hl
    have hw0 := hw op (List.mem_cons_self ..)
    obtain ⟨_, _, s3, s4, s5, _⟩ := step_refines a op m h hw0
    have h0 : a.refusal op m = none := step_unrefused a op m h hw0 hg (by simpa [run] using hl 0 (Nat.zero_le _))
    have ht : (a.step op m).2.1.triple = a.triple := congrArg Prod.snd s4
    have ih' := ih (a.step op m).2.1 (a.step op m).2.2 s3
      (by intro o ho; rw [s5]; exact hw o (List.mem_cons_of_mem _ ho))
      (by rw [ht]; exact step_grants a op m h hw0 hg)
      (by intro k hk
          have := hl (k + 1) (by simp; omega)
          simpa [run] using this)
    simp only [refusals, List.length_cons, List.replicate_succ]
    rw [h0, ih']

/-- a container on the C library allocator is never refused an allocation -/
theorem libc_never_refused (a : ArraySized) (op : Spec.SSeq.Op Elem) (m : Mem) (h : a.Inv) (hw : OpWF a.dataLen op)
    (ht : a.triple = .libc) : (a.step op m).1.st ≠ some .errAlloc := by
  intro hst
  have hr : a.refusal op m = some .errAlloc := by unfold refusal; rw [hst]
  have := (step_refines a op m h hw).2.2.2.2.2.2.2.1 hr
  rw [ht] at this; cases this

/-! ### rejected iterator calls are inert -/
theorem iterReplace_inert (it : Iter) (a : ArraySized) (e : Buf Nat) (m : Mem) (hst : (a.iterReplace it e m).1 ≠ .ok) :
    a.iterReplace it e m = (.errOutOfRange, none, a, m) := by
  unfold iterReplace replaceAt at *
  split
  · rfl
  · rename_i hh; rw [if_neg hh] at hst; exact absurd rfl hst

theorem zipRemove_inert (it : Iter) (a1 a2 : ArraySized) (m : Mem) (hst : (zipRemove it a1 a2 m).1 ≠ .ok) :
    (zipRemove it a1 a2 m).2.2.1 = it ∧ (zipRemove it a1 a2 m).2.2.2.1 = a1 ∧
    (zipRemove it a1 a2 m).2.2.2.2.1 = a2 ∧ (zipRemove it a1 a2 m).2.2.2.2.2 = m := by
  unfold zipRemove at *
  split
  · exact ⟨rfl, rfl, rfl, rfl⟩
  · rename_i hh
    rw [if_neg hh] at hst
    split
    · rename_i h2; rw [if_pos h2] at hst; exact absurd rfl hst
    · exact ⟨rfl, rfl, rfl, rfl⟩

theorem zipReplace_inert (it : Iter) (a1 a2 : ArraySized) (e1 e2 : Buf Nat) (m : Mem)
    (hst : (zipReplace it a1 a2 e1 e2 m).1 ≠ .ok) :
    zipReplace it a1 a2 e1 e2 m = (.errOutOfRange, none, a1, a2, m) := by
  unfold zipReplace at *
  split
  · rfl
  · rename_i hh; rw [if_neg hh] at hst; exact absurd rfl hst

/-! ### zip_iter_add with the same array on both sides (after repair A11) -/
/-- `zip_iter_add(a, a, e1, e2)`: both elements are inserted at the cursor (the second in front of the
first) and the cursor advances; or an allocation was refused / the size limit reached — in the growth
pre-check or in the growth the *second* `add_at` needs — and then the content is exactly what it was
(the first element has been taken out again), the cursor has not moved and the ledger is balanced;
the buffer may have been re-allocated on the way, so the capacity may be larger than before -/
theorem zipAddSame_spec (it : Iter) (a : ArraySized) (e1 e2 : Buf Nat) (m : Mem) (h : a.Inv)
    (he1 : e1.length = a.dataLen) (he2 : e2.length = a.dataLen) (hi : it.index ≤ a.size) :
    ((zipAddSame it a e1 e2 m).1 = .ok ∧
      (zipAddSame it a e1 e2 m).2.2.1.abs = (a.abs.insertIdx it.index e1).insertIdx it.index e2 ∧
      (zipAddSame it a e1 e2 m).2.1 = { it with index := it.index + 1 } ∧
      (zipAddSame it a e1 e2 m).2.2.1.Inv ∧ MemSame a.triple m (zipAddSame it a e1 e2 m).2.2.2) ∨
    (((zipAddSame it a e1 e2 m).1 = .errAlloc ∨ (zipAddSame it a e1 e2 m).1 = .errMaxCapacity) ∧
      (zipAddSame it a e1 e2 m).2.2.1.abs = a.abs ∧ (zipAddSame it a e1 e2 m).2.1 = it ∧
      (zipAddSame it a e1 e2 m).2.2.1.Inv ∧ MemSame a.triple m (zipAddSame it a e1 e2 m).2.2.2 ∧
      a.capacity ≤ (zipAddSame it a e1 e2 m).2.2.1.capacity) := by
  unfold zipAddSame
  dsimp only
  rw [zipRoom_eq a m h]
  rcases ensureRoom_spec a m h with ⟨p1, p2, p3, p4, p5, p6, p7, p8, p9, _⟩ | ⟨p1, p2, p3, _⟩
  · generalize a.ensureRoom m = r1 at *
    obtain ⟨st1, b1, m1⟩ := r1
    dsimp only at *
    subst p1
    simp only [ne_eq, not_true_eq_false, if_false]
    have ht1 : b1.triple = a.triple := congrArg Prod.snd p6
    rw [if_neg (show ¬ b1.size = b1.capacity by omega)]
    simp only [not_true_eq_false, if_false]
    have hi1 : it.index ≤ b1.size := by omega
    rcases addAt_spec b1 e1 it.index m1 p2 (by rw [p5]; exact he1) hi1 with ⟨u1, u2, u3, u4, u5, u6, u7, _⟩ | ⟨_, _, _, u4, _⟩
    · rw [if_neg (by rw [u1]; simp)]
      have hsz1 : (b1.addAt e1 it.index m1).2.1.size = b1.size + 1 := by
        have := abs_length (b1.addAt e1 it.index m1).2.1
        rw [u3, List.length_insertIdx, if_pos (by rw [abs_length]; exact hi1), abs_length] at this
        omega
      have ht2 : (b1.addAt e1 it.index m1).2.1.triple = a.triple := (congrArg Prod.snd u5).trans ht1
      rw [ht1] at u7
      generalize b1.addAt e1 it.index m1 = r2 at *
      obtain ⟨st2, c1, m2⟩ := r2
      dsimp only at *
      rcases addAt_spec c1 e2 it.index m2 u2 (by rw [u4, p5]; exact he2) (by omega) with
        ⟨v1, v2, v3, _, _, _, v7, _⟩ | ⟨v1, v2, v3, _⟩
      · left
        rw [if_neg (by rw [v1]; simp)]
        rw [ht2] at v7
        exact ⟨rfl, by rw [v3, u3, p3], rfl, v2, MemSame.trans p9 (MemSame.trans u7 v7)⟩
      · right
        have hne : (c1.addAt e2 it.index m2).1 ≠ .ok := by rcases v1 with v1 | v1 <;> rw [v1] <;> simp
        rw [if_pos hne, v2]
        rw [ht2] at v3
        obtain ⟨w1, w2, w3, w4, w5, _, _, w8, _⟩ := removeAt_spec c1 it.index (c1.addAt e2 it.index m2).2.2 u2 (by omega)
        refine ⟨v1, ?_, rfl, w4, ?_, ?_⟩
        · rw [w5, u3, List.eraseIdx_insertIdx_self, p3]
        · rw [w3]; exact MemSame.trans p9 (MemSame.trans u7 v3)
        · rw [w8]; omega
    · omega
  · right
    have hne : (a.ensureRoom m).1 ≠ .ok := by rcases p1 with p1 | p1 <;> rw [p1] <;> simp
    rw [if_pos hne]
    exact ⟨Or.inl rfl, by rw [p2], rfl, by rw [p2]; exact h, p3, by rw [p2]; exact Nat.le_refl _⟩

end CC.ArraySized
