import CollectionsC.Model.PTST
import CollectionsC.Proofs.TSTCross
/-! Pointer-level TST: heap lemmas, the id-annotated trie `INode`, the representation predicate `Rep`,
read-back (`toNodeF`), single-field updates, and the descent of `get_last_node` as a structural
function on `INode`. -/
set_option linter.unusedSimpArgs false
set_option linter.unusedVariables false
namespace CC.PTST
open CC CC.TST

/-! ### the heap -/
namespace Heap

theorem get_set (h : Heap) (i j : Nat) (n : PNode) : (h.set i n).get j = if j = i then n else h.get j := by
  unfold get set
  rw [Std.HashMap.getD_insert]
  by_cases e : j = i
  · subst e; simp
  · have : (i == j) = false := by simpa using Ne.symm e
    simp [this, e]

theorem get_del (h : Heap) (i j : Nat) : (h.del i).get j = if j = i then {} else h.get j := by
  unfold get del
  rw [Std.HashMap.getD_erase]
  by_cases e : j = i
  · subst e; simp
  · have : (i == j) = false := by simpa using Ne.symm e
    simp [this, e]

theorem has_set (h : Heap) (i j : Nat) (n : PNode) : (h.set i n).has j = (j == i || h.has j) := by
  unfold has set
  rw [Std.HashMap.contains_insert]
  by_cases e : j = i
  · subst e; simp
  · have : (i == j) = false := by simpa using Ne.symm e
    have : (j == i) = false := by simpa using e
    simp [*]

theorem has_del (h : Heap) (i j : Nat) : (h.del i).has j = (!(j == i) && h.has j) := by
  unfold has del
  rw [Std.HashMap.contains_erase]
  by_cases e : j = i
  · subst e; simp
  · have : (i == j) = false := by simpa using Ne.symm e
    have : (j == i) = false := by simpa using e
    simp [*]

theorem has_empty (j : Nat) : ({} : Heap).has j = false := by
  unfold has; exact Std.HashMap.contains_empty

end Heap

theorem get_setLeft (h : Heap) (i v j : Nat) :
    (setLeft h i v).get j = if j = i then { h.get i with left := v } else h.get j := Heap.get_set _ _ _ _
theorem get_setMid (h : Heap) (i v j : Nat) :
    (setMid h i v).get j = if j = i then { h.get i with mid := v } else h.get j := Heap.get_set _ _ _ _
theorem get_setRight (h : Heap) (i v j : Nat) :
    (setRight h i v).get j = if j = i then { h.get i with right := v } else h.get j := Heap.get_set _ _ _ _
theorem get_setParent (h : Heap) (i v j : Nat) :
    (setParent h i v).get j = if j = i then { h.get i with parent := v } else h.get j := Heap.get_set _ _ _ _
theorem get_setData (h : Heap) (i : Nat) (d : Option Entry) (j : Nat) :
    (setData h i d).get j = if j = i then { h.get i with data := d } else h.get j := Heap.get_set _ _ _ _

/-! ### the id-annotated trie -/

inductive INode where
  | nil
  | node (id c : Nat) (d : Option Entry) (l m r : INode)
  deriving Repr, DecidableEq, Inhabited

namespace INode
/-- the pointer that refers to this subtree (`0` = NULL for the empty one) -/
def rid : INode → Nat
  | nil => 0
  | node id _ _ _ _ _ => id
/-- forget the ids: the inductive trie of `Model/TST.lean` -/
def erase : INode → Node
  | nil => .nil
  | node _ c d l m r => .node c d l.erase m.erase r.erase
/-- node ids in pre-order -/
def ids : INode → List Nat
  | nil => []
  | node id _ _ l m r => id :: (l.ids ++ m.ids ++ r.ids)
def height : INode → Nat
  | nil => 0
  | node _ _ _ l m r => 1 + max l.height (max m.height r.height)
def child : INode → Dir → INode
  | nil, _ => nil
  | node _ _ _ l _ _, .L => l
  | node _ _ _ _ m _, .M => m
  | node _ _ _ _ _ r, .R => r
/-- the subtree at a path -/
def sub : INode → Path → INode
  | t, [] => t
  | nil, _ :: _ => nil
  | node _ _ _ l m r, d :: p => (match d with | .L => l | .M => m | .R => r).sub p
def data? : INode → Option Entry
  | nil => none
  | node _ _ d _ _ _ => d

@[simp] theorem rid_nil : rid nil = 0 := rfl
@[simp] theorem rid_node (id c d l m r) : rid (node id c d l m r) = id := rfl
@[simp] theorem ids_nil : ids nil = [] := rfl
@[simp] theorem ids_node (id c d l m r) : ids (node id c d l m r) = id :: (l.ids ++ m.ids ++ r.ids) := rfl
@[simp] theorem erase_nil : erase nil = .nil := rfl
@[simp] theorem erase_node (id c d l m r) : erase (node id c d l m r) = .node c d l.erase m.erase r.erase := rfl

theorem erase_sub (t : INode) (p : Path) : (t.sub p).erase = t.erase.sub p := by
  induction p generalizing t with
  | nil => cases t <;> rfl
  | cons d p ih =>
    cases t with
    | nil => simp [sub, Node.sub]
    | node id c dd l m r => cases d <;> simp [sub, Node.sub, ih]

theorem erase_data (t : INode) : t.erase.data? = t.data? := by cases t <;> rfl

theorem height_le_ids (t : INode) : t.height ≤ t.ids.length := by
  induction t with
  | nil => simp [height]
  | node id c d l m r ihl ihm ihr =>
    simp only [height, ids_node, List.length_cons, List.length_append]; omega

theorem erase_nodes (t : INode) : t.erase.nodes = t.ids.length := by
  induction t with
  | nil => rfl
  | node id c d l m r ihl ihm ihr =>
    simp only [erase_node, Node.nodes, ids_node, List.length_cons, List.length_append, ihl, ihm, ihr]; omega

end INode

/-- the heap holds the id-annotated trie `t` below a node (or table field) `p`: every node carries its
character, entry, the three child pointers and the `parent` pointer -/
def Rep (h : Heap) : INode → Nat → Prop
  | .nil, _ => True
  | .node id c d l m r, p =>
    id ≠ 0 ∧ h.get id = { c := c, data := d, parent := p, left := l.rid, mid := m.rid, right := r.rid } ∧
    Rep h l id ∧ Rep h m id ∧ Rep h r id

/-- nodes outside the trie do not matter -/
theorem Rep.frame {h h' : Heap} {t : INode} {p : Nat} (hr : Rep h t p) (hf : ∀ i ∈ t.ids, h'.get i = h.get i) :
    Rep h' t p := by
  induction t generalizing p with
  | nil => trivial
  | node id c d l m r ihl ihm ihr =>
    obtain ⟨h1, h2, h3, h4, h5⟩ := hr
    refine ⟨h1, by rw [hf id (by simp), h2], ihl h3 (fun i hi => hf i (by simp [hi])),
      ihm h4 (fun i hi => hf i (by simp [hi])), ihr h5 (fun i hi => hf i (by simp [hi]))⟩

theorem Rep.ids_ne {h : Heap} {t : INode} {p : Nat} (hr : Rep h t p) : ∀ i ∈ t.ids, i ≠ 0 := by
  induction t generalizing p with
  | nil => intro i hi; simp at hi
  | node id c d l m r ihl ihm ihr =>
    obtain ⟨h1, _, h3, h4, h5⟩ := hr
    intro i hi
    simp only [INode.ids_node, List.mem_cons, List.mem_append] at hi
    rcases hi with rfl | (hi | hi) | hi
    · exact h1
    · exact ihl h3 i hi
    · exact ihm h4 i hi
    · exact ihr h5 i hi

/-- the root of a subtree is `NULL` or one of its ids -/
theorem INode.rid_mem (t : INode) : t.rid = 0 ∨ t.rid ∈ t.ids := by
  cases t <;> simp

/-- a represented subtree with another parent pointer at its root -/
theorem Rep.reparent {h : Heap} {t : INode} {p p' : Nat} (hr : Rep h t p)
    (hroot : t = .nil ∨ (h.get t.rid).parent = p') : Rep h t p' := by
  cases t with
  | nil => trivial
  | node id c d l m r =>
    obtain ⟨h1, h2, h3, h4, h5⟩ := hr
    rcases hroot with hn | hp
    · cases hn
    · simp only [INode.rid_node, h2] at hp
      exact ⟨h1, by rw [h2, hp], h3, h4, h5⟩

/-- `toNodeF` reads the represented trie back -/
theorem toNodeF_rep {h : Heap} {t : INode} {p : Nat} (hr : Rep h t p) (f : Nat) (hf : t.height < f) :
    toNodeF h f t.rid = t.erase := by
  induction t generalizing p f with
  | nil => cases f <;> simp [toNodeF]
  | node id c d l m r ihl ihm ihr =>
    obtain ⟨h1, h2, h3, h4, h5⟩ := hr
    cases f with
    | zero => simp at hf
    | succ f =>
      simp only [INode.height] at hf
      have e1 := ihl h3 f (by omega)
      have e2 := ihm h4 f (by omega)
      have e3 := ihr h5 f (by omega)
      simp only [toNodeF, INode.rid_node, h1, if_false, h2, INode.erase_node, e1, e2, e3]

/-- **parent of every child is the node** -/
theorem Rep.child_parent {h : Heap} {t : INode} {p : Nat} (hr : Rep h t p) :
    ∀ i ∈ t.ids, (∀ c, c = (h.get i).left ∨ c = (h.get i).mid ∨ c = (h.get i).right → c ≠ 0 →
      (h.get c).parent = i) := by
  induction t generalizing p with
  | nil => intro i hi; simp at hi
  | node id c d l m r ihl ihm ihr =>
    obtain ⟨h1, h2, h3, h4, h5⟩ := hr
    intro i hi
    simp only [INode.ids_node, List.mem_cons, List.mem_append] at hi
    rcases hi with rfl | (hi | hi) | hi
    · intro ch hch hne
      rw [h2] at hch
      simp only at hch
      rcases hch with rfl | rfl | rfl
      · cases l with
        | nil => exact absurd rfl hne
        | node _ _ _ _ _ _ => simp only [INode.rid_node]; rw [h3.2.1]
      · cases m with
        | nil => exact absurd rfl hne
        | node _ _ _ _ _ _ => simp only [INode.rid_node]; rw [h4.2.1]
      · cases r with
        | nil => exact absurd rfl hne
        | node _ _ _ _ _ _ => simp only [INode.rid_node]; rw [h5.2.1]
    · exact ihl h3 i hi
    · exact ihm h4 i hi
    · exact ihr h5 i hi

/-! ### updating the entry of one node -/

/-- the trie with the entry of node `i` replaced -/
def INode.setDataI : INode → Nat → Option Entry → INode
  | .nil, _, _ => .nil
  | .node id c d l m r, i, e =>
    if id = i then .node id c e l m r else .node id c d (l.setDataI i e) (m.setDataI i e) (r.setDataI i e)

theorem INode.setDataI_not_mem (t : INode) (i : Nat) (e : Option Entry) (h : i ∉ t.ids) : t.setDataI i e = t := by
  induction t with
  | nil => rfl
  | node id c d l m r ihl ihm ihr =>
    simp only [INode.ids_node, List.mem_cons, List.mem_append, not_or] at h
    have : id ≠ i := fun e => h.1 e.symm
    simp only [INode.setDataI, this, if_false, ihl h.2.1.1, ihm h.2.1.2, ihr h.2.2]

theorem INode.setDataI_rid (t : INode) (i : Nat) (e : Option Entry) : (t.setDataI i e).rid = t.rid := by
  cases t with
  | nil => rfl
  | node id c d l m r => simp only [INode.setDataI]; split <;> rfl

theorem INode.setDataI_ids (t : INode) (i : Nat) (e : Option Entry) : (t.setDataI i e).ids = t.ids := by
  induction t with
  | nil => rfl
  | node id c d l m r ihl ihm ihr =>
    simp only [INode.setDataI]; split
    · rfl
    · simp only [INode.ids_node, ihl, ihm, ihr]

theorem Rep.setData {h : Heap} {t : INode} {p : Nat} (hr : Rep h t p) (hnd : t.ids.Nodup) (i : Nat)
    (e : Option Entry) : Rep (PTST.setData h i e) (t.setDataI i e) p := by
  induction t generalizing p with
  | nil => trivial
  | node id c d l m r ihl ihm ihr =>
    obtain ⟨h1, h2, h3, h4, h5⟩ := hr
    simp only [INode.ids_node, List.nodup_cons, List.mem_append, not_or, List.nodup_append] at hnd
    obtain ⟨⟨⟨hil, him⟩, hir⟩, ⟨⟨ndl, ndm, dlm⟩, ndr, dlr⟩⟩ := hnd
    simp only [INode.setDataI]
    by_cases hid : id = i
    · subst hid
      simp only [if_true]
      have fr : ∀ s : INode, id ∉ s.ids → ∀ j ∈ s.ids, (PTST.setData h id e).get j = h.get j := by
        intro s hs j hj
        rw [get_setData]; have : j ≠ id := fun e => hs (e ▸ hj); simp [this]
      refine ⟨h1, by rw [get_setData]; simp [h2], h3.frame (fr l hil), h4.frame (fr m him), h5.frame (fr r hir)⟩
    · simp only [hid, if_false]
      refine ⟨h1, ?_, ihl h3 ndl, ihm h4 ndm, ihr h5 ndr⟩
      rw [get_setData]; simp only [hid, if_false, h2, INode.setDataI_rid]

/-! ### the descent of `get_last_node` on the annotated trie -/

/-- `getLastLoop` as a structural function: the final `Last` and the subtree its slot points to -/
def descI (cmp : Cmp) (key : Key) : INode → Last → Last × INode
  | .nil, r => (r, .nil)
  | .node id c d l m r', r =>
    if ¬ r.matched < key.length then (r, .node id c d l m r')
    else
      match cmp (key.getD r.matched 0) c with
      | .lt => descI cmp key l { r with parent := id, slot := .left id }
      | .gt => descI cmp key r' { r with parent := id, slot := .right id }
      | .eq =>
        if r.matched + 1 = key.length then ({ r with matched := r.matched + 1 }, .node id c d l m r')
        else descI cmp key m { parent := id, slot := .mid id, matched := r.matched + 1 }

/-- the pointer loop computes `descI`, and the final slot points to the returned subtree -/
theorem getLastLoop_rep (cmp : Cmp) (h : Heap) (root : Nat) (key : Key) :
    ∀ (s : INode) (p : Nat) (r : Last) (f : Nat), Rep h s p → deref h root r.slot = s.rid → s.height < f →
      getLastLoop cmp h root key f r = (descI cmp key s r).1 ∧
      deref h root (descI cmp key s r).1.slot = (descI cmp key s r).2.rid := by
  intro s
  induction s with
  | nil =>
    intro p r f _ hd hf
    cases f with
    | zero => simp [INode.height] at hf
    | succ f => simp only [getLastLoop, descI, hd, INode.rid_nil, true_or, if_true]; simp [hd]
  | node id c d l m r' ihl ihm ihr =>
    intro p r f hr hd hf
    obtain ⟨h1, h2, h3, h4, h5⟩ := hr
    cases f with
    | zero => simp at hf
    | succ f =>
      simp only [INode.height] at hf
      simp only [getLastLoop, descI, hd, INode.rid_node, h1, false_or]
      by_cases hm : r.matched < key.length
      · simp only [hm, not_true_eq_false, if_false, h2]
        cases hc : cmp (key.getD r.matched 0) c <;> simp only []
        · exact ihl id _ f h3 (by simp [deref, h2]) (by omega)
        · by_cases he : r.matched + 1 = key.length
          · simp only [he, if_true]; exact ⟨trivial, hd⟩
          · simp only [he, if_false]
            exact ihm id _ f h4 (by simp [deref, h2]) (by omega)
        · exact ihr id _ f h5 (by simp [deref, h2]) (by omega)
      · simp only [hm, not_false_eq_true, if_true]; exact ⟨trivial, hd⟩

/-- the descent and the inductive `lookup`: started with `i` characters matched, the key is found iff
the final slot holds a node and all characters were matched -/
theorem descI_lookup (cmp : Cmp) (key : Key) : ∀ (s : INode) (r : Last), r.matched ≤ key.length →
    s.erase.lookup cmp (key.drop r.matched) =
      (if (descI cmp key s r).1.matched = key.length then (descI cmp key s r).2.data? else none) := by
  intro s
  induction s with
  | nil =>
    intro r _
    have e : descI cmp key .nil r = (r, .nil) := rfl
    rw [e]; simp [Node.lookup, INode.data?]
  | node id c d l m r' ihl ihm ihr =>
    intro r hle
    simp only [descI]
    by_cases hm : r.matched < key.length
    · simp only [hm, not_true_eq_false, if_false]
      have hdrop : key.drop r.matched = key.getD r.matched 0 :: key.drop (r.matched + 1) := by
        rw [List.drop_eq_getElem_cons hm]; simp [List.getD_eq_getElem?_getD, List.getElem?_eq_getElem hm]
      rw [hdrop]
      simp only [INode.erase_node, Node.lookup]
      cases hc : cmp (key.getD r.matched 0) c <;> simp only []
      · rw [← hdrop]; exact ihl { r with parent := id, slot := .left id } hle
      · by_cases he : r.matched + 1 = key.length
        · have : key.drop (r.matched + 1) = [] := by rw [he]; simp
          simp [he, this, INode.data?]
        · simp only [he, if_false]
          have hne : key.drop (r.matched + 1) ≠ [] := by
            intro h; have := List.drop_eq_nil_iff.mp h; omega
          cases hk : key.drop (r.matched + 1) with
          | nil => exact absurd hk hne
          | cons y ys =>
            simp only []
            rw [← hk]
            exact ihm { parent := id, slot := .mid id, matched := r.matched + 1 } (by simp; omega)
      · rw [← hdrop]; exact ihr { r with parent := id, slot := .right id } hle
    · have he : r.matched = key.length := by omega
      simp only [hm, not_false_eq_true, if_true, INode.data?]
      rw [he]
      simp [Node.lookup]

/-! ### the representation invariant -/

/-- the heap of `st` holds exactly the id-annotated trie `t`: `root` points to it, every node carries its
character, entry, three child pointers and the parent pointer; no node occurs twice; every id was handed
out by the allocator; nothing else is allocated -/
structure Represents (st : PT) (t : INode) : Prop where
  root  : st.root = t.rid
  rep   : Rep st.heap t 0
  nodup : t.ids.Nodup
  fresh : ∀ i ∈ t.ids, i < st.fresh
  count : t.ids.length < st.fresh
  dom   : ∀ i, st.heap.has i = true ↔ i ∈ t.ids

theorem Represents.toNode {st : PT} {t : INode} (h : Represents st t) : toNode st = t.erase := by
  unfold PTST.toNode
  rw [h.root]
  exact toNodeF_rep h.rep _ (by have := INode.height_le_ids t; have := h.count; omega)

theorem new_represents : Represents {} .nil :=
  ⟨rfl, trivial, List.nodup_nil, fun i hi => by simp at hi, by simp, fun i => by simp [Heap.has_empty]⟩

/-- `get_last_node` on a represented trie -/
theorem getLast_rep (cmp : Cmp) {st : PT} {t : INode} (h : Represents st t) (key : Key) :
    getLast cmp st key = (descI cmp key t {}).1 ∧
    deref st.heap st.root (descI cmp key t {}).1.slot = (descI cmp key t {}).2.rid := by
  unfold getLast
  exact getLastLoop_rep cmp st.heap st.root key t 0 {} _ h.rep (by simp [deref, h.root])
    (by have := INode.height_le_ids t; have := h.count; omega)

/-- the subtree the descent ends at is represented too -/
theorem descI_rep (cmp : Cmp) (key : Key) {h : Heap} : ∀ (s : INode) (p : Nat) (r : Last), Rep h s p →
    ∃ p', Rep h (descI cmp key s r).2 p' := by
  intro s
  induction s with
  | nil => intro p r _; exact ⟨0, trivial⟩
  | node id c d l m r' ihl ihm ihr =>
    intro p r hr
    have hr' := hr
    obtain ⟨g1, g2, g3, g4, g5⟩ := hr
    simp only [descI]
    by_cases hm : r.matched < key.length
    · simp only [hm, not_true_eq_false, if_false]
      cases hc : cmp (key.getD r.matched 0) c <;> simp only []
      · exact ihl id _ g3
      · by_cases he : r.matched + 1 = key.length
        · simp only [he, if_true]; exact ⟨p, hr'⟩
        · simp only [he, if_false]; exact ihm id _ g4
      · exact ihr id _ g5
    · simp only [hm, not_false_eq_true, if_true]; exact ⟨p, hr'⟩

/-- **`get` commutes with the inductive lookup** — for every key, the empty one included (the aliasing X5 is
the same on both levels) -/
theorem get_represents (cmp : Cmp) {st : PT} {t : INode} (h : Represents st t) (key : Key) :
    get cmp st key = t.erase.lookup cmp key := by
  obtain ⟨h1, h2⟩ := getLast_rep cmp h key
  have hl := descI_lookup cmp key t {} (by simp)
  simp only [List.drop_zero] at hl
  rw [hl]
  unfold get findNode
  simp only [h1, h2]
  obtain ⟨p', hrep⟩ := descI_rep cmp key t 0 {} h.rep
  cases hh : (descI cmp key t {}).2 with
  | nil => simp [INode.data?]
  | node id c d l m r =>
    rw [hh] at hrep
    obtain ⟨g1, g2, _⟩ := hrep
    simp only [INode.rid_node, INode.data?, ne_eq, g1, not_false_eq_true, true_and, g2]
    by_cases hm : (descI cmp key t {}).1.matched = key.length
    · cases d <;> simp [hm, g1, g2]
    · simp [hm]

end CC.PTST
