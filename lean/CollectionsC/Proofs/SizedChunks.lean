import CollectionsC.Model.ArraySized
/-! Chunk lifting for the sized array: byte-level `memcpy`/`memmove`/`put` at the offsets the
macros of `cc_array_sized.c` produce (`dl * i`, `dl * i + j`) restated as facts about whole
elements (`chunkAt dl b k`).  All the non-linear arithmetic of the development lives here; the
per-operation proofs work with element indices only (linear, `omega`). -/
namespace CC.ArraySized
open CC

/-! ### arithmetic on `dl * i + j` -/
theorem mul_add_lt {dl t n j : Nat} (hj : j < dl) (h : t < n) : dl * t + j < dl * n := by
  have h1 : dl * (t + 1) ≤ dl * n := Nat.mul_le_mul_left dl h
  rw [Nat.mul_succ] at h1; omega

theorem lt_of_mul_add_lt {dl t n j : Nat} (h : dl * t + j < dl * n) : t < n := by
  apply Nat.lt_of_not_le; intro hn
  have := Nat.mul_le_mul_left dl hn; omega

theorem mul_le_mul_add {dl d k j : Nat} (h : d ≤ k) : dl * d ≤ dl * k + j := by
  have := Nat.mul_le_mul_left dl h; omega

theorem le_of_mul_le_mul_add {dl d k j : Nat} (hj : j < dl) (h : dl * d ≤ dl * k + j) : d ≤ k := by
  apply Nat.le_of_not_lt; intro hn
  have := mul_add_lt (dl := dl) hj hn; omega

/-- an element slot inside `n` slots lies inside `n * dl` bytes -/
theorem slot_le {dl k n : Nat} (h : k < n) : dl * k + dl ≤ n * dl := by
  have h1 : dl * (k + 1) ≤ dl * n := Nat.mul_le_mul_left dl h
  rw [Nat.mul_succ] at h1; rw [Nat.mul_comm n dl]; exact h1

theorem slots_le {dl a b : Nat} (h : a ≤ b) : a * dl ≤ b * dl := Nat.mul_le_mul_right dl h

/-! ### chunks -/
@[simp] theorem chunkAt_length (dl : Nat) (b : Buf Nat) (i : Nat) : (chunkAt dl b i).length = dl := by
  simp [chunkAt]

theorem chunkAt_getElem (dl : Nat) (b : Buf Nat) (i j : Nat) (h : j < (chunkAt dl b i).length) :
    (chunkAt dl b i)[j] = b.get (dl * i + j) := by
  simp [chunkAt]

theorem chunkAt_congr (dl : Nat) (b b' : Buf Nat) (i i' : Nat)
    (h : ∀ j, j < dl → b.get (dl * i + j) = b'.get (dl * i' + j)) : chunkAt dl b i = chunkAt dl b' i' := by
  unfold chunkAt
  apply List.map_congr_left
  intro j hj
  exact h j (List.mem_range.1 hj)

/-- a caller buffer of exactly `dl` bytes, read from offset 0, is itself -/
theorem chunkAt_self (dl : Nat) (e : Buf Nat) (he : e.length = dl) : chunkAt dl e 0 = e := by
  apply List.ext_getElem
  · simp [he]
  · intro j h1 h2
    rw [chunkAt_getElem]
    simp [Buf.get, List.getD_eq_getElem?_getD, h2]

theorem chunkAt_memmove (b : Buf Nat) (dl dst src len d s n k : Nat)
    (hdst : dst = dl * d) (hsrc : src = dl * s) (hlen : len = n * dl) (hk : dl * k + dl ≤ b.length) :
    chunkAt dl (b.memmove dst src len) k =
      if d ≤ k ∧ k < d + n then chunkAt dl b (k - d + s) else chunkAt dl b k := by
  subst hdst hsrc hlen
  split
  · rename_i h
    apply chunkAt_congr
    intro j hj
    rw [Buf.get_memmove _ _ _ _ _ (by omega)]
    obtain ⟨t, rfl⟩ := Nat.exists_eq_add_of_le h.1
    have c2 : dl * t + j < dl * n := mul_add_lt hj (by omega)
    have e1 : dl * (d + t) = dl * d + dl * t := Nat.mul_add ..
    have e2 : dl * (d + t - d + s) = dl * t + dl * s := by
      rw [Nat.add_sub_cancel_left, Nat.mul_add]
    have e3 : n * dl = dl * n := Nat.mul_comm ..
    rw [if_pos (by omega)]
    congr 1; omega
  · rename_i h
    apply chunkAt_congr
    intro j hj
    rw [Buf.get_memmove _ _ _ _ _ (by omega)]
    rw [if_neg]
    intro hc
    apply h
    have e3 : n * dl = dl * n := Nat.mul_comm ..
    have hd : d ≤ k := le_of_mul_le_mul_add hj hc.1
    refine ⟨hd, ?_⟩
    obtain ⟨t, rfl⟩ := Nat.exists_eq_add_of_le hd
    have e1 : dl * (d + t) = dl * d + dl * t := Nat.mul_add ..
    have : t < n := lt_of_mul_add_lt (dl := dl) (j := j) (by omega)
    omega

theorem chunkAt_memcpy (d s : Buf Nat) (dl dst src len x y n k : Nat)
    (hdst : dst = dl * x) (hsrc : src = dl * y) (hlen : len = n * dl) (hk : dl * k + dl ≤ d.length) :
    chunkAt dl (d.memcpy dst s src len) k =
      if x ≤ k ∧ k < x + n then chunkAt dl s (k - x + y) else chunkAt dl d k := by
  subst hdst hsrc hlen
  split
  · rename_i h
    apply chunkAt_congr
    intro j hj
    rw [Buf.get_memcpy _ _ _ _ _ _ (by omega)]
    obtain ⟨t, rfl⟩ := Nat.exists_eq_add_of_le h.1
    have c2 : dl * t + j < dl * n := mul_add_lt hj (by omega)
    have e1 : dl * (x + t) = dl * x + dl * t := Nat.mul_add ..
    have e2 : dl * (x + t - x + y) = dl * t + dl * y := by
      rw [Nat.add_sub_cancel_left, Nat.mul_add]
    have e3 : n * dl = dl * n := Nat.mul_comm ..
    rw [if_pos (by omega)]
    congr 1; omega
  · rename_i h
    apply chunkAt_congr
    intro j hj
    rw [Buf.get_memcpy _ _ _ _ _ _ (by omega)]
    rw [if_neg]
    intro hc
    apply h
    have e3 : n * dl = dl * n := Nat.mul_comm ..
    have hd : x ≤ k := le_of_mul_le_mul_add hj hc.1
    refine ⟨hd, ?_⟩
    obtain ⟨t, rfl⟩ := Nat.exists_eq_add_of_le hd
    have e1 : dl * (x + t) = dl * x + dl * t := Nat.mul_add ..
    have : t < n := lt_of_mul_add_lt (dl := dl) (j := j) (by omega)
    omega

/-- `memcpy(BUF_ADDR(a, i), e, dl)` with a caller buffer of `dl` bytes stores `e` as element `i` -/
theorem chunkAt_memcpy_elem (b e : Buf Nat) (dl i k : Nat) (he : e.length = dl) (hk : dl * k + dl ≤ b.length) :
    chunkAt dl (b.memcpy (dl * i) e 0 dl) k = if k = i then e else chunkAt dl b k := by
  rw [chunkAt_memcpy b e dl (dl * i) 0 dl i 0 1 k rfl (by simp) (by simp) hk]
  by_cases h : k = i
  · subst h; simp [chunkAt_self dl e he]
  · rw [if_neg (by omega), if_neg h]

/-- `memcpy(BUF_ADDR(a, i), BUF_ADDR(s, y), dl)` -/
theorem chunkAt_memcpy_one (d s : Buf Nat) (dl i y k : Nat) (hk : dl * k + dl ≤ d.length) :
    chunkAt dl (d.memcpy (dl * i) s (dl * y) dl) k = if k = i then chunkAt dl s y else chunkAt dl d k := by
  rw [chunkAt_memcpy d s dl (dl * i) (dl * y) dl i y 1 k rfl rfl (by simp) hk]
  by_cases h : k = i
  · subst h; simp
  · rw [if_neg (by omega), if_neg h]

/-- a single byte store inside element `i` -/
theorem chunkAt_put (b : Buf Nat) (dl i j v k : Nat) (hj : j < dl) (hk : dl * k + dl ≤ b.length) :
    chunkAt dl (b.put (dl * i + j) v) k =
      if k = i then (chunkAt dl b i).set j v else chunkAt dl b k := by
  split
  · rename_i h; subst h
    apply List.ext_getElem
    · simp
    · intro t h1 h2
      have ht : t < dl := by simpa using h1
      rw [chunkAt_getElem, List.getElem_set, chunkAt_getElem, Buf.get_put]
      by_cases hjt : j = t
      · subst hjt; simp; omega
      · rw [if_neg hjt, if_neg (by omega)]
  · rename_i h
    apply chunkAt_congr
    intro t ht
    rw [Buf.get_put, if_neg]
    intro hc
    apply h
    have h1 : i ≤ k := le_of_mul_le_mul_add (dl := dl) (j := t) ht (by omega)
    have h2 : k ≤ i := le_of_mul_le_mul_add (dl := dl) (j := j) hj (by omega)
    omega

/-! ### the view of a buffer as a list of elements -/
/-- the first `n` elements of a buffer -/
def elems (dl : Nat) (b : Buf Nat) (n : Nat) : List (List Nat) := (List.range n).map (chunkAt dl b)

@[simp] theorem elems_length (dl : Nat) (b : Buf Nat) (n : Nat) : (elems dl b n).length = n := by simp [elems]

theorem elems_getElem? (dl : Nat) (b : Buf Nat) (n k : Nat) :
    (elems dl b n)[k]? = if k < n then some (chunkAt dl b k) else none := by
  unfold elems
  rw [List.getElem?_map]
  split
  · rename_i h; simp [List.getElem?_range h]
  · rename_i h; rw [List.getElem?_eq_none (by simpa using Nat.le_of_not_lt h)]; rfl

theorem elems_getElem (dl : Nat) (b : Buf Nat) (n k : Nat) (h : k < (elems dl b n).length) :
    (elems dl b n)[k] = chunkAt dl b k := by
  simp [elems]

theorem abs_eq_elems (a : ArraySized) : a.abs = elems a.dataLen a.buf a.size := rfl

theorem elems_congr (dl : Nat) (b b' : Buf Nat) (n : Nat)
    (h : ∀ k, k < n → chunkAt dl b k = chunkAt dl b' k) : elems dl b n = elems dl b' n := by
  unfold elems
  apply List.map_congr_left
  intro k hk
  exact h k (List.mem_range.1 hk)

theorem elems_succ (dl : Nat) (b : Buf Nat) (n : Nat) :
    elems dl b (n + 1) = elems dl b n ++ [chunkAt dl b n] := by
  simp [elems, List.range_succ]

theorem elems_all_length (dl : Nat) (b : Buf Nat) (n : Nat) : ∀ c ∈ elems dl b n, c.length = dl := by
  intro c hc
  simp only [elems, List.mem_map] at hc
  obtain ⟨k, _, rfl⟩ := hc
  simp

end CC.ArraySized
