import CollectionsC.Driver.Rbuf
open CC.Driver

inductive AnySess where
  | none
  | rbuf (s : RbufD.Sess)

def stepAny (kind : String) (s : AnySess) (c : Cmd) : AnySess × String × String :=
  match kind, s with
  | "rbuf", .rbuf s => let (s', a, b) := RbufD.step s c; (.rbuf s', a, b)
  | "rbuf", .none   => let (s', a, b) := RbufD.step {} c; (.rbuf s', a, b)
  | _, s => (s, "S unknown-container", "M unknown-container")

partial def loop (kind : String) (h : IO.FS.Stream) (out : IO.FS.Stream) (s : AnySess) : IO Unit := do
  let line ← h.getLine
  if line.isEmpty then return ()
  if line.startsWith "#" || line.trimAscii.toString.isEmpty then
    out.putStrLn "S #"; out.putStrLn "M #"
    loop kind h out s
  else if line.startsWith "reset" then
    out.putStrLn "S reset"; out.putStrLn "M reset"
    loop kind h out .none
  else
    let (s', a, b) := stepAny kind s (Cmd.parse line)
    out.putStrLn a; out.putStrLn b
    loop kind h out s'

def main (args : List String) : IO Unit := do
  let kind := args.headD ""
  let out ← IO.getStdout
  loop kind (← IO.getStdin) out .none
  out.flush
