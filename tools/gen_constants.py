"""The small translator: regenerates lean/CollectionsC/Generated/Constants.lean from /repo's
current sources on every run, so that every theorem mentioning a default, a limit, a status code
or the heap index macros is re-checked against what the code says now.

 * numeric macros are evaluated by the C compiler itself (a probe TU that #includes the source
   file and prints the value), with the same preprocessor configuration the harness uses;
 * the function-like macros CC_PARENT / CC_LEFT / CC_RIGHT are translated by a small expression
   translator (integer literals, + - * /, comparisons, ?:) into Nat functions.
"""
import re, subprocess, sys, tempfile, os
from pathlib import Path

NUMERIC = [
    # (lean name, file to include, C expression, kind)
    ("CC_OK", "src/include/cc_common.h", "CC_OK", "u"),
    ("CC_ERR_ALLOC", "src/include/cc_common.h", "CC_ERR_ALLOC", "u"),
    ("CC_ERR_INVALID_CAPACITY", "src/include/cc_common.h", "CC_ERR_INVALID_CAPACITY", "u"),
    ("CC_ERR_INVALID_RANGE", "src/include/cc_common.h", "CC_ERR_INVALID_RANGE", "u"),
    ("CC_ERR_MAX_CAPACITY", "src/include/cc_common.h", "CC_ERR_MAX_CAPACITY", "u"),
    ("CC_ERR_KEY_NOT_FOUND", "src/include/cc_common.h", "CC_ERR_KEY_NOT_FOUND", "u"),
    ("CC_ERR_VALUE_NOT_FOUND", "src/include/cc_common.h", "CC_ERR_VALUE_NOT_FOUND", "u"),
    ("CC_ERR_OUT_OF_RANGE", "src/include/cc_common.h", "CC_ERR_OUT_OF_RANGE", "u"),
    ("CC_ITER_END", "src/include/cc_common.h", "CC_ITER_END", "u"),
    ("CC_MAX_ELEMENTS", "src/include/cc_common.h", "CC_MAX_ELEMENTS", "u"),
    ("MAX_POW_TWO", "src/include/cc_common.h", "MAX_POW_TWO", "u"),
    ("DEFAULT_CC_RBUF_CAPACITY", "src/include/cc_ring_buffer.h", "DEFAULT_CC_RBUF_CAPACITY", "u"),
    ("ARRAY_DEFAULT_CAPACITY", "src/cc_array.c", "DEFAULT_CAPACITY", "u"),
    ("ARRAY_DEFAULT_EXPANSION_FACTOR_MILLI", "src/cc_array.c", "DEFAULT_EXPANSION_FACTOR", "f"),
    ("SIZED_DEFAULT_CAPACITY", "src/sized/cc_array_sized.c", "DEFAULT_CAPACITY", "u"),
    ("SIZED_DEFAULT_EXPANSION_FACTOR_MILLI", "src/sized/cc_array_sized.c", "DEFAULT_EXPANSION_FACTOR", "f"),
    ("PQUEUE_DEFAULT_CAPACITY", "src/cc_pqueue.c", "DEFAULT_CAPACITY", "u"),
    ("PQUEUE_DEFAULT_EXPANSION_FACTOR_MILLI", "src/cc_pqueue.c", "DEFAULT_EXPANSION_FACTOR", "f"),
    ("DEQUE_DEFAULT_CAPACITY", "src/cc_deque.c", "DEFAULT_CAPACITY", "u"),
    ("HASHTABLE_DEFAULT_CAPACITY", "src/cc_hashtable.c", "DEFAULT_CAPACITY", "u"),
    ("HASHTABLE_DEFAULT_LOAD_FACTOR_MILLI", "src/cc_hashtable.c", "DEFAULT_LOAD_FACTOR", "f"),
    ("RB_BLACK", "src/cc_treetable.c", "RB_BLACK", "u"),
    ("RB_RED", "src/cc_treetable.c", "RB_RED", "u"),
]
FUNC_MACROS = [("ccParent", "src/cc_pqueue.c", "CC_PARENT"), ("ccLeft", "src/cc_pqueue.c", "CC_LEFT"),
               ("ccRight", "src/cc_pqueue.c", "CC_RIGHT")]


def macro_text(repo, f, name):
    """the replacement text of an object-like macro as the preprocessor sees it after reading f"""
    r = subprocess.run(["gcc", "-E", "-dM", "-w", f"-I{repo}/src/include", f"-I{repo}/src/include/sized",
                        f"-I{repo}/src/include/memory", f"{repo}/{f}"], capture_output=True, text=True)
    m = re.search(r"^#define " + name + r" (.*)$", r.stdout, re.M)
    return m.group(1).strip() if m else None


def probe(repo, items):
    """evaluate C constant expressions with the compiler (enum constants and header macros directly,
    macros private to a .c file through their preprocessor replacement text)"""
    vals = {}
    src = f'#include <stdio.h>\n#include <stddef.h>\n#include "{repo}/src/include/cc_common.h"\nint main(void){{\n'
    for name, f, expr, kind in items:
        if f.endswith(".c") or "ring_buffer" in f:
            body = macro_text(repo, f, expr)
            if body is None:
                vals[name] = None
                continue
            expr = "(" + body + ")"
        if kind == "u":
            src += f'printf("{name} %llu\\n", (unsigned long long)({expr}));\n'
        else:
            src += f'printf("{name} %llu\\n", (unsigned long long)((double)({expr}) * 1000.0 + 0.5));\n'
    src += "return 0;}\n"
    with tempfile.TemporaryDirectory() as d:
        c = os.path.join(d, "p.c")
        open(c, "w").write(src)
        r = subprocess.run(["gcc", "-w", c, "-o", os.path.join(d, "probe")], capture_output=True, text=True)
        if r.returncode != 0:
            return {name: None for name, _, _, _ in items}
        out = subprocess.run([os.path.join(d, "probe")], capture_output=True, text=True).stdout
    for line in out.split("\n"):
        if line.strip():
            k, v = line.split()
            vals[k] = int(v)
    return vals


# ---- expression translator -------------------------------------------------
TOK = re.compile(r"\s*(\d+|[A-Za-z_]\w*|>=|<=|==|!=|[-+*/()?:<>])")


def tokenize(s):
    out, pos = [], 0
    s = s.strip()
    while pos < len(s):
        m = TOK.match(s, pos)
        if not m:
            raise ValueError("cannot tokenize: " + s[pos:])
        out.append(m.group(1))
        pos = m.end()
    return out


class P:
    def __init__(self, toks, param):
        self.t, self.i, self.param = toks, 0, param

    def peek(self):
        return self.t[self.i] if self.i < len(self.t) else None

    def eat(self, x=None):
        t = self.peek()
        if x is not None and t != x:
            raise ValueError(f"expected {x} got {t}")
        self.i += 1
        return t

    def ternary(self):
        c = self.cmp()
        if self.peek() == "?":
            self.eat()
            a = self.ternary()
            self.eat(":")
            b = self.ternary()
            return f"(if {c} then {a} else {b})"
        return c

    def cmp(self):
        a = self.add()
        if self.peek() in (">", "<", ">=", "<=", "==", "!="):
            op = self.eat()
            b = self.add()
            op = {"==": "=", "!=": "≠", ">=": "≥", "<=": "≤"}.get(op, op)
            return f"({a} {op} {b})"
        return a

    def add(self):
        a = self.mul()
        while self.peek() in ("+", "-"):
            op = self.eat()
            b = self.mul()
            a = f"({a} {op} {b})"
        return a

    def mul(self):
        a = self.prim()
        while self.peek() in ("*", "/"):
            op = self.eat()
            b = self.prim()
            a = f"({a} {op} {b})"
        return a

    def prim(self):
        t = self.eat()
        if t == "(":
            e = self.ternary()
            self.eat(")")
            return e
        if t is None:
            raise ValueError("unexpected end")
        if t.isdigit():
            return t
        if t == self.param:
            return "x"
        raise ValueError("unknown identifier " + t)


def translate_macro(repo, f, macro):
    txt = Path(repo, f).read_text()
    m = re.search(r"^#define\s+" + macro + r"\((\w+)\)\s+(.*)$", txt, re.M)
    if not m:
        return None, "macro not found"
    param, body = m.group(1), m.group(2).strip()
    try:
        p = P(tokenize(body), param)
        e = p.ternary()
        if p.peek() is not None:
            raise ValueError("trailing tokens")
        return e, body
    except ValueError as ex:
        return None, f"{body!r}: {ex}"


def generate(repo):
    vals = probe(repo, NUMERIC)
    lines = ["-- GENERATED by tools/gen_constants.py from the current /repo sources. Do not edit.",
             "namespace CC.Gen"]
    problems = []
    for name, f, expr, kind in NUMERIC:
        v = vals.get(name)
        if v is None:
            problems.append(f"could not evaluate {expr} in {f}")
            v = 0
        lines.append(f"/-- `{expr}` in `{f}`" + (" (value × 1000)" if kind == "f" else "") + " -/")
        lines.append(f"def {name} : Nat := {v}")
    for lname, f, macro in FUNC_MACROS:
        e, info = translate_macro(repo, f, macro)
        if e is None:
            problems.append(f"could not translate {macro}: {info}")
            e = "0"
        lines.append(f"/-- `{macro}(x)` in `{f}`: `{info}` -/")
        lines.append(f"def {lname} (x : Nat) : Nat := {e}")
    lines.append("end CC.Gen")
    return "\n".join(lines) + "\n", problems


def write(repo, path):
    txt, problems = generate(str(repo))
    path = Path(path)
    if not path.exists() or path.read_text() != txt:
        path.write_text(txt)
    return problems


if __name__ == "__main__":
    txt, problems = generate(sys.argv[1] if len(sys.argv) > 1 else "/repo")
    print(txt)
    for p in problems:
        print("PROBLEM:", p, file=sys.stderr)
