"""Core of the verification machinery: builds the Lean development and the C harness from the
current trees, runs operation histories on the real library (C), on the abstract spec (S) and on
the concrete model (M), diffs them in three layers, shrinks, and writes evidence.

Layers (DESIGN.md section 5):
  L1  C vs S  : statuses, out-values, observable content      -> violation with failing input
  L2  C alone : sanitizer aborts, ledger errors, walkers, leaks, swallowed refusals
  L3  C vs M  : physical state and allocator events            -> model fidelity
"""
import fcntl, hashlib, json, os, random, re, shutil, subprocess, sys, tempfile, time
from pathlib import Path

ROOT = Path(__file__).resolve().parent.parent
REPO = Path(os.environ.get("VERIF_REPO", "/repo"))
LEAN = ROOT / "lean"
CACHE = ROOT / ".cache"
OUT = Path(os.environ.get("VERIF_OUT", ROOT / "out"))
EVID = Path(os.environ.get("VERIF_EVID", ROOT / "evidence"))
def driver_path(container):
    return LEAN / ".lake" / "build" / "bin" / f"driver_{container}"

NPROC = os.cpu_count() or 4

CFLAGS = ["-O1", "-g", "-fsanitize=address,undefined", "-fno-sanitize-recover=all",
          "-fno-omit-frame-pointer", "-w",
          "-Wl,--wrap=malloc,--wrap=calloc,--wrap=free"]

ALLOWED_AXIOMS = {"propext", "Classical.choice", "Quot.sound"}
FORBIDDEN = [r"\bsorry\b", r"\badmit\b", r"^\s*axiom\s", r"\bnative_decide\b", r"\bbv_decide\b",
             r"\bimplemented_by\b", r"\bunsafe\s", r"maxHeartbeats\s+0\b", r"@\[\s*extern\b", r"debug\.skipKernelTC",
             r"\bopaque\s+\w+.*:=\s*sorry", r"set_option\s+(?:debug\.|trace\.).*skip"]


def log(*a):
    print(*a, file=sys.stderr, flush=True)


def sh(cmd, **kw):
    return subprocess.run(cmd, stdout=subprocess.PIPE, stderr=subprocess.PIPE, text=True, **kw)


class Lock:
    def __init__(self, name):
        CACHE.mkdir(exist_ok=True)
        self.path = CACHE / (name + ".lock")

    def __enter__(self):
        self.f = open(self.path, "w")
        fcntl.flock(self.f, fcntl.LOCK_EX)

    def __exit__(self, *a):
        fcntl.flock(self.f, fcntl.LOCK_UN)
        self.f.close()


# --------------------------------------------------------------------------- Lean side

def repo_src_hash():
    h = hashlib.sha256()
    for p in sorted((REPO / "src").rglob("*")):
        if p.is_file() and p.suffix in (".c", ".h"):
            h.update(str(p.relative_to(REPO)).encode())
            h.update(p.read_bytes())
    return h.hexdigest()[:16]


def build_lean():
    """regenerate the constants from /repo, then `lake build` (library + driver).
    Returns (ok, log, failed_modules, errors); guards of the C text that could not be translated
    (tools/gen_guards.py) and functions that could not be translated (tools/gen_funcs.py) are appended
    to the errors as `gen_guards: ...` / `gen_funcs: ...` lines."""
    import gen_constants, gen_guards, gen_funcs
    with Lock("lake"):
        gen_constants.write(REPO, LEAN / "CollectionsC" / "Generated" / "Constants.lean")
        guard_problems = gen_guards.write(REPO, LEAN / "CollectionsC" / "Generated" / "Guards.lean")
        guard_problems += gen_funcs.write(REPO, LEAN / "CollectionsC" / "Generated" / "Funcs.lean")
        sh([sys.executable, str(ROOT / "tools" / "regen.py")])
        r = sh(["lake", "build"], cwd=LEAN)
    out = r.stdout + r.stderr
    failed = re.findall(r"^- (CollectionsC\.[\w.]+|Mains\.\w+|driver_\w+)", out, re.M)
    errs = re.findall(r"^error: (.*)$", out, re.M)
    for p in guard_problems:
        log(p)
    return r.returncode == 0, out, failed, errs + guard_problems


def lean_theorems(module_path):
    """names of the theorems declared in a Properties file (with namespace prefix)"""
    txt = Path(module_path).read_text()
    txt_nc = strip_lean_comments(txt)
    ns = []
    names = []
    for line in txt_nc.split("\n"):
        m = re.match(r"^namespace\s+(\S+)", line)
        if m:
            ns.append(m.group(1))
        m = re.match(r"^end\s+(\S+)", line)
        if m and ns and ns[-1] == m.group(1):
            ns.pop()
        m = re.match(r"^(?:@\[[^\]]*\]\s*)?(?:protected\s+|private\s+)?theorem\s+(\S+)", line)
        if m:
            names.append(".".join(ns + [m.group(1)]))
    return names


def statement_digests(module_path):
    """sha256 of each theorem statement (text between `theorem` and `:= by`/`:=`)"""
    txt = strip_lean_comments(Path(module_path).read_text())
    out = {}
    for m in re.finditer(r"^theorem\s+(\S+)(.*?):=", txt, re.M | re.S):
        out[m.group(1)] = hashlib.sha256(re.sub(r"\s+", " ", m.group(2)).encode()).hexdigest()[:16]
    return out


def strip_lean_comments(txt):
    txt = re.sub(r"/-.*?-/", lambda m: "\n" * m.group(0).count("\n"), txt, flags=re.S)
    txt = re.sub(r"--.*$", "", txt, flags=re.M)
    return txt


def forbidden_tokens():
    hits = []
    for p in sorted(LEAN.rglob("*.lean")):
        if ".lake" in p.parts:
            continue
        try:
            txt = strip_lean_comments(p.read_text())
        except FileNotFoundError:
            continue
        for i, line in enumerate(txt.split("\n"), 1):
            for pat in FORBIDDEN:
                if re.search(pat, line):
                    hits.append(f"{p.relative_to(ROOT)}:{i}: {line.strip()}")
    return hits


def audit_axioms(theorems, imports=("CollectionsC",)):
    """#print axioms for every theorem; returns {name: [axioms]} (None when the name is unknown)"""
    if not theorems:
        return {}
    src = "".join(f"import {m}\n" for m in imports) + "\n".join(f"#print axioms {t}" for t in theorems) + "\n"
    (CACHE / "audit").mkdir(parents=True, exist_ok=True)
    with tempfile.NamedTemporaryFile("w", suffix=".lean", dir=CACHE / "audit", delete=False) as f:
        f.write(src)
        name = f.name
    try:
        with Lock("lake"):
            r = sh(["lake", "env", "lean", name], cwd=LEAN)
    finally:
        os.unlink(name)
    out = r.stdout + r.stderr
    res = {t: None for t in theorems}
    for m in re.finditer(r"'([^']+)' depends on axioms: \[([^\]]*)\]", out):
        res[m.group(1)] = [a.strip() for a in m.group(2).replace("\n", " ").split(",") if a.strip()]
    for m in re.finditer(r"'([^']+)' does not depend on any axioms", out):
        res[m.group(1)] = []
    return res


# --------------------------------------------------------------------------- C side

def build_harness(container, san=True):
    """compile harness/shim_<container>.c against the CURRENT /repo working tree (cached by the
    hash of every source that goes into it)"""
    shim = ROOT / "harness" / f"shim_{container}.c"
    h = hashlib.sha256()
    h.update(repo_src_hash().encode())
    h.update(shim.read_bytes())
    for hf in sorted((ROOT / "harness").glob("*.h")):
        h.update(hf.read_bytes())
    flags = CFLAGS if san else [f for f in CFLAGS if "sanitize" not in f]
    h.update(" ".join(flags).encode())
    key = ("" if san else "plain_") + h.hexdigest()[:16]
    bindir = CACHE / "bin"
    bindir.mkdir(parents=True, exist_ok=True)
    exe = bindir / f"h_{container}__{key}"
    if exe.exists():
        return exe, ""
    with Lock("cc_" + container):
        if exe.exists():
            return exe, ""
        def _mt(q):
            try:
                return q.stat().st_mtime
            except OSError:
                return 0
        olds = sorted(bindir.glob(f"h_{container}__*"), key=_mt)
        for old in olds[:-40]:
            try:
                old.unlink()
            except OSError:
                pass
        tmp = bindir / f".tmp_{container}_{os.getpid()}"
        cmd = ["gcc"] + flags + ([] if container in ("spool", "dpool") else ["-DVERIF_WITH_POOL"]) + [f"-I{REPO}/src/include", f"-I{REPO}/src/include/sized",
                                  f"-I{REPO}/src/include/memory", f"-I{REPO}/src", f"-I{REPO}/src/sized",
                                  f"-I{REPO}/src/memory", f"-I{ROOT}/harness", str(shim), "-o", str(tmp), "-lm"]
        r = sh(cmd)
        if r.returncode != 0:
            return None, r.stderr
        tmp.rename(exe)
    return exe, ""


ASAN_ENV = dict(os.environ, ASAN_OPTIONS="detect_leaks=0:abort_on_error=0:exitcode=66:allocator_may_return_null=1",
                UBSAN_OPTIONS="print_stacktrace=1:halt_on_error=1:exitcode=66")


OUTPUT_LIMIT = 1 << 30      # bytes of stdout one harness process may write


def run_c(exe, lines, timeout=40, valgrind=False):
    try:
        argv = [str(exe)]
        if valgrind:
            argv = ["valgrind", "-q", "--error-exitcode=66", "--exit-on-first-error=yes", "--track-origins=no"] + argv
            timeout = timeout * 20
        # stdout goes to a scratch file under an RLIMIT_FSIZE: a C side that prints in an endless loop is stopped by
        # the kernel (SIGXFSZ) instead of filling this process's memory (a thorough run was once OOM-killed at 63 GB)
        import resource
        CACHE.mkdir(parents=True, exist_ok=True)
        with tempfile.TemporaryFile(dir=CACHE, prefix="cout_") as fo:
            def lim():
                resource.setrlimit(resource.RLIMIT_FSIZE, (OUTPUT_LIMIT, OUTPUT_LIMIT))
            try:
                r = subprocess.run(argv, input=("\n".join(lines) + "\n").encode(), stdout=fo,
                                   stderr=subprocess.PIPE, env=ASAN_ENV, timeout=timeout, preexec_fn=lim)
                rc, err = r.returncode, r.stderr.decode(errors="replace")[-20000:]
            except subprocess.TimeoutExpired:
                rc, err = -9, "SUMMARY: timeout after %ss (hang / infinite loop?)" % timeout
            fo.seek(0)
            so = fo.read().decode(errors="replace")
        if rc == -25:    # SIGXFSZ
            err = "SUMMARY: output limit of %d bytes exceeded (endless printing loop?)\n" % OUTPUT_LIMIT + err
        if rc == -9:
            return so.split("\n")[:-1], -9, err
        return (so.split("\n")[:-1] if so.endswith("\n") else so.split("\n")), rc, err
    except OSError as e:
        return [], -1, "SUMMARY: cannot run the harness: %s" % e


def run_lean(container, lines, timeout=300):
    r = None
    for attempt in range(6):
        try:
            r = subprocess.run([str(driver_path(container))], input="\n".join(lines) + "\n", stdout=subprocess.PIPE,
                               stderr=subprocess.PIPE, text=True, timeout=max(timeout, int(60 + 0.05 * len(lines))))
            break
        except subprocess.TimeoutExpired:
            raise RuntimeError(f"lean driver for {container} timed out on {len(lines)} lines")
        except OSError as e:
            # a concurrent `lake build` of another check relinks the driver: wait for it under the lock and retry
            if attempt == 5:
                raise RuntimeError(f"lean driver for {container} cannot be started: {e}")
            with Lock("lake"):
                time.sleep(0.5)
    out = r.stdout.split("\n")
    if out and out[-1] == "":
        out.pop()
    return out, r.returncode, r.stderr


# --------------------------------------------------------------------------- diffing

EXACT_ST = {"0", "1", "4", "9", "-"}
REJ_ST = {"2", "3", "6", "7", "8"}   # INVALID_CAPACITY, INVALID_RANGE, KEY_NOT_FOUND, VALUE_NOT_FOUND, OUT_OF_RANGE


def norm_obs(obs):
    """L1 normal form: the five documented rejection codes are one class "rejected" (the properties say
    "rejected", not which code; the library's own documentation and code disagree on KEY/VALUE_NOT_FOUND in places);
    OK/ALLOC/MAX_CAPACITY/ITER_END and every token that is not a documented status code are compared exactly"""
    def f(m):
        return "st=rej" if m.group(1) in REJ_ST else m.group(0)
    return re.sub(r"\bst=(\S+)", f, obs.strip())


class Diff:
    def __init__(self, kind, hist, line, op, detail, layer):
        self.kind, self.hist, self.line, self.op, self.detail, self.layer = kind, hist, line, op, detail, layer

    def __repr__(self):
        return f"<{self.layer} {self.kind} hist={self.hist} line={self.line} op={self.op!r}: {self.detail}>"


def sections(line):
    parts = [p.strip() for p in line[2:].split(" | ")] if len(line) > 2 else [""]
    while len(parts) < 4:
        parts.append("")
    return parts


def mem_fields(mem):
    m = re.match(r"mem=a(\d+) f(\d+) r(\d+) live=(\d+) libc=a(\d+) f(\d+)(.*)", mem)
    if not m:
        return None
    d = dict(a=int(m.group(1)), f=int(m.group(2)), r=int(m.group(3)), live=int(m.group(4)),
             la=int(m.group(5)), lf=int(m.group(6)), rest=m.group(7).strip())
    return d


def compare_history(hidx, ops, c_lines, s_lines, m_lines, crash, opts):
    """returns list of Diff for one history"""
    diffs = []
    libc_ok = opts.get("libc_ok", False) or any(o.split()[0].endswith("_default") for o in ops if o.split())
    for i, op in enumerate(ops):
        opname = op.split()[0] if op.split() else ""
        if i >= len(c_lines):
            diffs.append(Diff("crash", hidx, i, op, crash or "no output", "L2"))
            break
        cl = c_lines[i]
        if cl == "C #":
            continue
        cs = sections(cl)
        if re.search(r"\bbadop\b", cs[0]):
            diffs.append(Diff("unknown-op", hidx, i, op, "the harness does not know this operation: " + cl[:120], "L0"))
        ss = sections(s_lines[i]) if i < len(s_lines) else None
        ms = sections(m_lines[i]) if i < len(m_lines) else None
        mf = mem_fields(cs[2])
        # ---- L2: C alone
        if mf is None:
            diffs.append(Diff("protocol", hidx, i, op, "bad mem section: " + cl, "L2"))
            continue
        if "err=" in mf["rest"]:
            diffs.append(Diff("ledger", hidx, i, op, mf["rest"], "L2"))
        if "absurd=" in mf["rest"]:
            diffs.append(Diff("absurd-request", hidx, i, op, mf["rest"], "L2"))
        if (mf["la"] or mf["lf"]) and not libc_ok:
            diffs.append(Diff("libc-alloc", hidx, i, op, cs[2], "L2"))
        if "WALK=" in cs[1] or "WALK=" in cs[0]:
            diffs.append(Diff("walker", hidx, i, op, re.findall(r"WALK=\S+", cl)[0], "L2"))
        st = re.search(r"\bst=(\S+)", cs[0])
        st = st.group(1) if st else "?"
        if mf["r"] > 0 and st not in ("1",):
            diffs.append(Diff("refusal-swallowed", hidx, i, op, f"refused={mf['r']} but {cs[0][:60]}", "L2"))
        if st == "1" and mf["r"] == 0 and "absurd=" not in mf["rest"]:
            diffs.append(Diff("spurious-alloc-error", hidx, i, op, cs[0][:80], "L2"))
        ll = re.search(r"llive=(\d+)", mf["rest"])
        # sessions with several objects: `destroy` releases every slot in all shims, so the test applies to the FINAL
        # destroy of the history (a `drop o=k` in between leaves the other objects alive and is exempt)
        if opname in ("destroy", "destroy_cb") and (mf["live"] != 0 or (ll and int(ll.group(1)) != 0)) \
                and (not opts.get("multi", False) or i == len(ops) - 1):
            diffs.append(Diff("leak", hidx, i, op, f"live={mf['live']} {ll.group(0) if ll else ''} after destroy", "L2"))
        # ---- L1: C vs spec
        if ss is not None and not s_lines[i].startswith("S ?"):
            if norm_obs(cs[0]) != norm_obs(ss[0]):
                diffs.append(Diff("obs", hidx, i, op, f"C: {cs[0]}  !=  S: {ss[0]}", "L1"))
        # ---- L3: C vs model
        if ms is not None and not m_lines[i].startswith("M ?"):
            for name, a, b in (("obs", cs[0], ms[0]), ("phys", cs[1], ms[1]), ("mem", cs[2], ms[2])):
                if name == "mem":
                    a = re.sub(r" (absurd|err)=\S+", "", a)
                if name == "phys":
                    a = re.sub(r" WALK=\S+", "", a)
                if a != b:
                    diffs.append(Diff("model-" + name, hidx, i, op, f"C: {a}  !=  M: {b}", "L3"))
            if ms[3] and ms[3] != "inv=1 fault=0":
                diffs.append(Diff("model-flags", hidx, i, op, ms[3], "L3"))
    if crash and not any(d.kind == "crash" for d in diffs):
        at = min(len(c_lines), len(ops) - 1) if ops else 0
        diffs.append(Diff("crash", hidx, at, ops[at] if ops else "", crash, "L2"))
    return diffs


def summarize_crash(stderr):
    m = re.search(r"(ERROR: AddressSanitizer: [^\n]*|runtime error: [^\n]*|SUMMARY: [^\n]*|==\d+== (?:Invalid|Conditional|Use of|Mismatched|Source and dest)[^\n]*)", stderr)
    if m:
        return m.group(1)[:200]
    return (stderr.strip().split("\n") or ["crash"])[-1][:200]


class Runner:
    """runs batches of histories for one container and accumulates statistics"""

    def __init__(self, container, opts=None, valgrind=False, plain=False):
        self.container = container
        self.opts = opts or {}
        self.valgrind = valgrind
        self.exe, err = build_harness(container, san=not (valgrind or plain))
        if self.exe is None:
            raise RuntimeError("harness build failed for %s:\n%s" % (container, err))
        self.n_hist = 0
        self.n_ops = 0
        self.distinct = set()
        self.op_hist = {}
        self.st_hist = {}
        self.refusals_fired = 0
        self.samples = []
        self.model_lines = 0
        self.hooks = []       # functions (hist_index, ops, c_lines) -> [Diff]
        self.n_limited = 0    # histories dropped because they exceed a limit of the harness itself (exit code 3)
        self.limit_msgs = set()
        self.spec_lines = 0
        self.timeout = 40

    def run(self, histories):
        """histories: list of list[str] (each starts with its constructor, the runner adds `reset`).
        returns list of (hist_index, [Diff])"""
        pending = list(range(len(histories)))
        self.skipped = set()
        self.limited = {}
        c_out = {}
        crash = {}
        while pending:
            lines = []
            bounds = []
            for h in pending:
                bounds.append(len(lines))
                lines.append("reset")
                lines.extend(histories[h])
            bounds.append(len(lines))
            # the time limit scales with the amount of work; a time-out is only believed after the
            # history in progress has been re-run alone with a generous limit (a loaded machine or a
            # long soak history is not a hang)
            tmo = max(self.timeout, int(self.timeout + 0.03 * len(lines)))
            out, rc, err = run_c(self.exe, lines, timeout=tmo, valgrind=self.valgrind)
            nxt = []
            for k, h in enumerate(pending):
                lo, hi = bounds[k], bounds[k + 1]
                if len(out) >= hi:
                    c_out[h] = out[lo + 1:hi]
                else:
                    if rc == -9:
                        solo = ["reset"] + histories[h]
                        o2, rc2, err2 = run_c(self.exe, solo, timeout=max(10 * self.timeout, 120) if self.timeout >= 20 else 4 * self.timeout,
                                              valgrind=self.valgrind)
                        if rc2 == 0 and len(o2) >= len(solo):
                            c_out[h] = o2[1:len(solo)]
                            nxt = pending[k + 1:]
                            break
                        out, rc, err = o2, rc2, err2
                        lo = 0
                    c_out[h] = out[lo + 1:] if len(out) > lo else []
                    if rc == 3:
                        # exit(3) is the harness's own "this history exceeds a table/buffer of the harness" exit
                        # (ledger full, output line too long, backing allocator exhausted): says nothing about the library
                        self.limited[h] = (err.strip().split("\n") or ["?"])[-1][:120]
                    else:
                        crash[h] = summarize_crash(err) if rc != 0 else "truncated output"
                    nxt = pending[k + 1:]
                    break
            else:
                if rc != 0 and pending:
                    crash[pending[-1]] = summarize_crash(err)
            pending = nxt
            if len(crash) >= 3 and pending:
                # enough evidence; do not spend minutes on further aborts/hangs
                self.skipped = set(pending)
                break
        # annotate and run lean once
        lines = []
        bounds = {}
        for h, ops in enumerate(histories):
            bounds[h] = len(lines)
            lines.append("reset")
            for i, op in enumerate(ops):
                fired = 0
                if i < len(c_out.get(h, [])):
                    mf = mem_fields(sections(c_out[h][i])[2])
                    if mf:
                        fired = mf["r"]
                        if "absurd=" in mf["rest"]:
                            fired += 1
                lines.append(op + (f" @fired={fired}" if fired else ""))
        lout, lrc, lerr = run_lean(self.container, lines)
        if lrc != 0 or len(lout) != 2 * len(lines):
            raise RuntimeError(f"lean driver failed rc={lrc} lines={len(lout)} expected={2*len(lines)}: {lerr[:500]}")
        results = []
        for h, ops in enumerate(histories):
            if h in self.skipped:
                continue
            if h in self.limited:
                self.n_limited += 1
                self.limit_msgs.add(self.limited[h])
                continue
            lo = bounds[h] + 1
            s_lines = [lout[2 * (lo + i)] for i in range(len(ops))]
            m_lines = [lout[2 * (lo + i) + 1] for i in range(len(ops))]
            diffs = compare_history(h, ops, c_out.get(h, []), s_lines, m_lines, crash.get(h), self.opts)
            for hook in self.hooks:
                diffs.extend(hook(h, ops, c_out.get(h, [])))
            self._stats(ops, c_out.get(h, []), m_lines)
            if diffs:
                results.append((h, diffs))
        return results

    def _stats(self, ops, c_lines, m_lines):
        self.n_hist += 1
        for i, op in enumerate(ops):
            if i >= len(c_lines):
                break
            self.n_ops += 1
            name = op.split()[0]
            cs = sections(c_lines[i])
            st = re.search(r"\bst=(\S+)", cs[0])
            st = st.group(1) if st else "?"
            self.op_hist[name] = self.op_hist.get(name, 0) + 1
            self.st_hist[st] = self.st_hist.get(st, 0) + 1
            mf = mem_fields(cs[2])
            if mf:
                self.refusals_fired += mf["r"]
            if "nosession" in cs[0]:
                continue
            physsig = re.sub(r"\[[^\]]*\]", "[]", cs[1])
            if len(self.distinct) < 3000000:     # 64-bit digests, not the strings (a thorough run once held > 60 GB of them)
                self.distinct.add(hash((name, st, physsig)))
            if i < len(m_lines) and not m_lines[i].startswith("M ?"):
                self.model_lines += 1
        if len(self.samples) < 3 and len(ops) > 3:
            self.samples.append({"container": self.container, "ops": ops[:12],
                                 "c_output_tail": c_lines[min(len(c_lines), 12) - 1] if c_lines else ""})

    def stats(self):
        return dict(container=self.container, histories=self.n_hist, operations=self.n_ops,
                    distinct_op_status_layout=len(self.distinct), op_histogram=self.op_hist,
                    status_histogram=self.st_hist, refusals_fired=self.refusals_fired,
                    model_lines_compared=self.model_lines, histories_beyond_harness_limits=self.n_limited,
                    harness_limit_messages=sorted(self.limit_msgs))


# --------------------------------------------------------------------------- shrinking

def shrink(container, ops, pred, opts=None, budget=400, hooks=None):
    """delta-debugging over the operation list; `pred(diffs)` says whether the failure persists.
    The first line (constructor) is kept."""
    r = Runner(container, opts)
    r.hooks = hooks or []
    r.timeout = 8
    t_end = time.time() + 90
    cur = list(ops)
    n = 2
    tries = 0
    while len(cur) > 2 and tries < budget and time.time() < t_end:
        chunk = max(1, (len(cur) - 1) // n)
        removed = False
        i = 1
        while i < len(cur) and tries < budget and time.time() < t_end:
            cand = cur[:i] + cur[i + chunk:]
            tries += 1
            res = r.run([cand])
            if res and pred(res[0][1]):
                cur = cand
                removed = True
            else:
                i += chunk
        if not removed:
            if chunk == 1:
                break
            n = min(n * 2, len(cur))
    return cur


def write_replay(pid, n, container, ops, diffs, header_extra=None):
    OUT.mkdir(parents=True, exist_ok=True)
    path = OUT / f"{pid}-{n:04d}.ops"
    with open(path, "w") as f:
        f.write(f"# property={pid} container={container}\n")
        for d in diffs[:6]:
            f.write(f"# {d.layer} {d.kind} at op {d.line} ({d.op}): {d.detail}\n")
        for k, v in (header_extra or {}).items():
            f.write(f"# {k}: {v}\n")
        f.write(f"# replay: ./check {pid} --replay {path}\n")
        f.write(f"#container {container}\n")
        for op in ops:
            f.write(op + "\n")
    return path


def read_replay(path):
    container = None
    ops = []
    for line in Path(path).read_text().split("\n"):
        if line.startswith("#container "):
            container = line.split()[1]
        elif line.startswith("#") or not line.strip():
            continue
        else:
            ops.append(line)
    return container, ops


# --------------------------------------------------------------------------- C-side coverage (gcov)

def coverage_run(container, histories, max_hist=3000):
    """Runs the histories on a `--coverage` build of the harness (no sanitizers) and reports, for the
    library sources under /repo/src, line and branch coverage and every allocator call site
    (`mem_alloc(`, `mem_calloc(`, `mem_free(`) with whether it fired.  Evidence only; never a verdict."""
    import gzip
    shim = ROOT / "harness" / f"shim_{container}.c"
    work = Path(tempfile.mkdtemp(prefix=f"cov_{container}_", dir=CACHE))
    try:
        exe = work / "h"
        cmd = ["gcc", "-O0", "-g", "--coverage", "-w", "-Wl,--wrap=malloc,--wrap=calloc,--wrap=free"] + \
              ([] if container in ("spool", "dpool") else ["-DVERIF_WITH_POOL"]) + \
              [f"-I{REPO}/src/include", f"-I{REPO}/src/include/sized", f"-I{REPO}/src/include/memory", f"-I{REPO}/src",
               f"-I{REPO}/src/sized", f"-I{REPO}/src/memory", f"-I{ROOT}/harness", str(shim), "-o", str(exe), "-lm"]
        r = sh(cmd, cwd=work)
        if r.returncode != 0:
            return {"error": r.stderr[-300:]}
        hs = histories[:max_hist]
        for lo in range(0, len(hs), 300):
            lines = []
            for h in hs[lo:lo + 300]:
                lines.append("reset")
                lines.extend(h)
            try:
                subprocess.run([str(exe)], input="\n".join(lines) + "\n", stdout=subprocess.DEVNULL,
                               stderr=subprocess.DEVNULL, text=True, timeout=60, cwd=work)
            except subprocess.TimeoutExpired:
                pass
        gcda = list(work.glob("*.gcda"))
        if not gcda:
            return {"error": "no .gcda written"}
        sh(["gcov", "-b", "-c", "-j", gcda[0].name], cwd=work)
        out = {}
        for jf in work.glob("*.gcov.json.gz"):
            d = json.load(gzip.open(jf))
            for fi in d["files"]:
                fn = fi["file"]
                if "/src/" not in fn or not fn.endswith(".c") or str(REPO) not in fn:
                    continue
                rel = fn[len(str(REPO)) + 1:]
                if rel.startswith("src/memory/") and container not in ("spool", "dpool"):
                    continue      # only #included for the pool-backed allocator mode
                ls = fi["lines"]
                if not any(l["count"] > 0 for l in ls):
                    continue      # a source that is only #included for the pool allocator
                src = Path(fn).read_text(errors="replace").split("\n")
                br = [b for l in ls for b in l.get("branches", [])]
                sites, dead = 0, []
                for l in ls:
                    t = src[l["line_number"] - 1] if l["line_number"] - 1 < len(src) else ""
                    if re.search(r"mem_(alloc|calloc|free)\s*\(", t):
                        sites += 1
                        if l["count"] == 0:
                            dead.append(l["line_number"])
                fns = fi.get("functions", [])
                out[rel] = dict(lines=len(ls), lines_hit=sum(1 for l in ls if l["count"] > 0),
                                branches=len(br), branches_hit=sum(1 for b in br if b["count"] > 0),
                                functions=len(fns), functions_hit=sum(1 for f in fns if f.get("execution_count", 0) > 0),
                                functions_never_called=[f["name"] for f in fns if f.get("execution_count", 0) == 0][:40],
                                allocator_call_sites=sites, allocator_call_sites_never_fired=dead)
        return out
    finally:
        shutil.rmtree(work, ignore_errors=True)
