"""History generator for the sized array (`cc_array_sized.c`, container `array_sized`).

Protocol vocabulary (see harness/shim_array_sized.c):
  new esize=<bytes> cap=<n> exp=<factor> [o=<slot>]      new_default esize=<bytes>
  add v | add_at v i | replace_at v i [noout=1] | swap_at i j | remove v | remove_at i [noout=1]
  remove_last | remove_all | reverse | filter_mut p=even|mod3|all|none | trim_capacity
  get_at i | get_last | peek i | index_of v | contains v | size | capacity | get_buffer | struct_size
  map fn=rec|inc | reduce | foreach | sort cmp=asc|desc|m10
  it_new | it_next | it_remove | it_add v | it_replace v | it_index
  zit_new o=<a> o2=<b> | zit_next | zit_add v1 v2 | zit_remove | zit_replace v1 v2 | zit_index | foreach_zip o= o2=
  mk_sub b e to=<slot> | mk_copy to=<slot> | mk_filter p=.. to=<slot> | drop o=<slot> | destroy
Every op takes o=<slot> (default 0).  An element is a decimal number, encoded little-endian into
`esize` bytes (mod 256^esize).

focus=None uses only the operations named in C01 (no iterators, no mk_*, no sort, no fail=).
"""
import itertools, random

SIZE_MAX = 2**64 - 1
ESIZES = [1, 2, 3, 8, 17]
FACTORS = ["0.5", "1", "1.1", "1.25", "1.5", "2", "3"]
PREDS = ["even", "mod3", "all", "none"]


def tobytes(v, dl):
    v %= 256 ** dl
    return [(v >> (8 * j)) & 255 for j in range(dl)]


def frombytes(bs):
    return sum(b << (8 * j) for j, b in enumerate(bs))


def pred(name, v, dl):
    if name == "even":
        return v % 2 == 0
    if name == "mod3":
        return sum(tobytes(v, dl)) % 3 == 0
    return name == "all"


def sort_key(name):
    if name == "desc":
        return lambda v: -v
    if name == "m10":
        return lambda v: (v % 10, v)
    if name == "k10":
        return lambda v: v % 10         # a preorder with ties; list.sort is stable like this glibc's qsort
    return lambda v: v


class Shadow:
    """ideal list of one array object (used to pick mostly valid arguments)"""

    def __init__(self, dl, items=None):
        self.dl, self.xs = dl, list(items or [])

    def norm(self, v):
        return v % 256 ** self.dl


class Hist:
    """one history under construction: op lines plus shadows per slot"""

    def __init__(self, rng, dl, cap, exp, pool, default=False):
        # default=True: cc_array_sized_new (capacity 8, factor 2, C library allocator)
        first = f"new_default esize={dl}" if default else f"new esize={dl} cap={cap} exp={exp}"
        self.rng, self.ops, self.sh = rng, [first], {0: Shadow(dl)}
        self.pool = pool

    def val(self, dl=None, present_from=None):
        rng = self.rng
        if present_from and rng.random() < 0.6:
            return rng.choice(present_from)
        return rng.choice(self.pool)

    def suffix(self, o):
        return f" o={o}" if o else ""


def make_pool(rng, dl):
    """value alphabet (CONVENTIONS addendum 3): small values with duplicates; records that differ only in
    their LAST byte(s) or only in their FIRST byte(s) for this element size — for sizes above 8 also records
    with an equal leading 8-byte word and a different tail; pairs exactly 2^31, 2^32, 2^63 apart; values near
    2^64 - 1 and near 256^dl - 1; a value >= 256^dl (truncated by the encoding)"""
    M = 256 ** dl
    top = 256 ** (dl - 1)
    body = rng.randrange(M)                       # a record with arbitrary bytes everywhere
    v = rng.randrange(1, 1000)
    base = [0, 1, 2, 3, 4, 5, 6, 255, M + 1, 2 * top + 1, 3 * top + 1, top, 2 * top, M - 1, M - 2]
    base += [body, body ^ 1, body ^ 0x80, body ^ top, body ^ (0x80 * top)]          # first byte / last byte only
    if dl >= 2:
        base += [body ^ (top // 256 if dl >= 3 else 256), body ^ 256]                 # last-but-one / second byte
    if dl > 8:
        base += [body ^ 2 ** 64, body ^ 2 ** (8 * (dl - 1)), (body % 2 ** 64) + 2 ** 64, (body % 2 ** 64) + 2 ** 65]
    base += [v, v + 2 ** 31, v + 2 ** 32, v + 2 ** 63, 2 ** 64 - 1, 2 ** 64 - 2, 2 ** 64 - 1000, 2 ** 63, 2 ** 32, 2 ** 31]
    # records whose sort keys (v % 10) TIE while their bytes differ — in the first byte, in the last
    # byte and in between (matters for odd element sizes too: 1, 3, 17)
    t = rng.randrange(0, 6)
    ties = [t, t + 10, t + 250]
    if dl >= 2:
        ties += [t + 10 * top, t + 10 * (M // 10 - 1), t + 10 * 256 ** (dl // 2)]
    base += [x for x in ties if x < M]
    base += [rng.randrange(M) for _ in range(3)]
    base += [rng.randrange(1, 100) for _ in range(4)]
    return [x % (4 * M) if x >= 4 * M else x for x in base]


def wrap_indices(dl, n):
    """indices whose *byte offset* `index * data_length` wraps around size_t back into the buffer
    (a range check on the byte offset instead of the index would accept them), plus 2^32 + k"""
    q = -(-2**64 // dl)          # ceil(2^64 / dl)
    out = []
    for j in (1, 2, 3):
        for k in range(0, n + 1):
            if q * j + k <= SIZE_MAX:
                out.append(q * j + k)
    out += [2**32] + [2**32 + k for k in range(0, n + 1)]
    return out


def idx(rng, n, valid=0.85, dl=1):
    """an index, mostly inside [0,n)"""
    if n > 0 and rng.random() < valid:
        return rng.randrange(n)
    if rng.random() < 0.35:
        return rng.choice(wrap_indices(dl, min(n, 3)))
    return rng.choice([n, n + 1, n - 1 if n else 0, 2**31, 2**63, SIZE_MAX - 1, SIZE_MAX, 0])


CORE_MUT = ["add", "add_at", "replace_at", "swap_at", "remove", "remove_at", "remove_last", "remove_all",
            "reverse", "filter_mut", "trim_capacity", "map"]
CORE_OBS = ["get_at", "get_last", "peek", "index_of", "contains", "reduce", "size", "capacity"]


def core_op(h, o, rng, weights=None, reject=False):
    """appends one core operation on slot o, updates the shadow"""
    s = h.sh[o]
    n = len(s.xs)
    suf = h.suffix(o)
    w = weights or {}
    names = CORE_MUT + CORE_OBS
    op = rng.choices(names, [w.get(x, 1.0) for x in names])[0]
    valid = 0.3 if reject else 0.9
    if op == "add":
        v = h.val()
        h.ops.append(f"add {v}{suf}")
        s.xs.append(s.norm(v))
    elif op == "add_at":
        v = h.val()
        i = rng.randrange(n + 1) if rng.random() < valid else idx(rng, n, 0, s.dl)
        h.ops.append(f"add_at {v} {i}{suf}")
        if i <= n:
            s.xs.insert(i, s.norm(v))
    elif op == "replace_at":
        v = h.val()
        i = idx(rng, n, valid, s.dl)
        h.ops.append(f"replace_at {v} {i}{suf}" + (" noout=1" if rng.random() < 0.3 else ""))
        if i < n:
            s.xs[i] = s.norm(v)
    elif op == "swap_at":
        i, j = idx(rng, n, valid, s.dl), idx(rng, n, valid, s.dl)
        if rng.random() < 0.1:
            j = i                      # swap_at(i, i)
        h.ops.append(f"swap_at {i} {j}{suf}")
        if i < n and j < n:
            s.xs[i], s.xs[j] = s.xs[j], s.xs[i]
    elif op == "remove":
        v = h.val(present_from=None if reject else s.xs)
        if s.xs and rng.random() < 0.15:
            v = s.xs[-1]               # an element equal to the last one
        h.ops.append(f"remove {v}{suf}")
        if s.norm(v) in s.xs:
            s.xs.remove(s.norm(v))
    elif op == "remove_at":
        i = idx(rng, n, valid, s.dl)
        h.ops.append(f"remove_at {i}{suf}" + (" noout=1" if rng.random() < 0.3 else ""))
        if i < n:
            del s.xs[i]
    elif op == "remove_last":
        h.ops.append(f"remove_last{suf}" + (" noout=1" if rng.random() < 0.3 else ""))
        if n:
            s.xs.pop()
    elif op == "remove_all":
        h.ops.append(f"remove_all{suf}")
        s.xs.clear()
    elif op == "reverse":
        h.ops.append(f"reverse{suf}")
        s.xs.reverse()
    elif op == "filter_mut":
        p = rng.choice(PREDS)
        h.ops.append(f"filter_mut p={p}{suf}")
        if n:
            s.xs[:] = [v for v in s.xs if pred(p, v, s.dl)]
    elif op == "trim_capacity":
        h.ops.append(f"trim_capacity{suf}")
    elif op == "map":
        fn = rng.choice(["rec", "inc"])
        h.ops.append(f"map fn={fn}{suf}")
        if fn == "inc":
            s.xs[:] = [frombytes([(b + 1) % 256 for b in tobytes(v, s.dl)]) for v in s.xs]
    elif op in ("get_at", "peek"):
        h.ops.append(f"{op} {idx(rng, n, valid, s.dl)}{suf}")
    elif op in ("get_last", "reduce", "size", "capacity"):
        h.ops.append(f"{op}{suf}")
    elif op in ("index_of", "contains"):
        v = h.val(present_from=None if reject else s.xs)
        h.ops.append(f"{op} {v}{suf}")


def iter_program(h, o, rng, allow_add=True, p_fail=0.0):
    """it_new then next/mutate steps; at most one structural change per yielded element"""
    s = h.sh[o]
    suf = h.suffix(o)
    h.ops.append(f"it_new{suf}")
    pos = 0            # shadow cursor: elements before the cursor
    steps = rng.randint(0, len(s.xs) + 2)
    if rng.random() < 0.5:
        steps = len(s.xs) + 2      # run to the end and beyond
    if rng.random() < 0.15:
        h.ops.append("it_index")
    for _ in range(steps):
        h.ops.append("it_next")
        if pos >= len(s.xs):
            if rng.random() < 0.3:
                break
            continue
        pos += 1
        if rng.random() < 0.4:
            h.ops.append("it_index")
        r = rng.random()
        if r < 0.25:
            h.ops.append("it_remove" + (" noout=1" if rng.random() < 0.3 else ""))
            pos -= 1
            del s.xs[pos]
            if rng.random() < 0.15:
                h.ops.append("it_remove")          # second removal: rejected
            if rng.random() < 0.15:
                h.ops.append("it_index")
        elif r < 0.45 and allow_add:
            v = h.val()
            h.ops.append(f"it_add {v}" + (" fail=1" if rng.random() < p_fail else ""))
            s.xs.insert(pos, s.norm(v))
            pos += 1
        elif r < 0.65:
            v = h.val()
            h.ops.append(f"it_replace {v}" + (" noout=1" if rng.random() < 0.3 else ""))
            s.xs[pos - 1] = s.norm(v)
        if rng.random() < 0.1:
            h.ops.append(rng.choice([f"get_at {idx(rng, len(s.xs))}{suf}", f"size{suf}", f"get_last{suf}"]))


def zip_program(h, o1, o2, rng, allow_add=True, p_fail=0.0):
    s1, s2 = h.sh[o1], h.sh[o2]
    h.ops.append(f"zit_new o={o1} o2={o2}")
    pos = 0
    n = min(len(s1.xs), len(s2.xs))
    steps = rng.choice([n + 2, rng.randint(0, n + 2)])
    for _ in range(steps):
        h.ops.append("zit_next")
        if pos >= min(len(s1.xs), len(s2.xs)):
            continue
        pos += 1
        if rng.random() < 0.4:
            h.ops.append("zit_index")
        r = rng.random()
        if r < 0.25:
            h.ops.append("zit_remove" + (" noout=1" if rng.random() < 0.3 else ""))
            pos -= 1
            del s1.xs[pos]
            del s2.xs[pos]
            if rng.random() < 0.15:
                h.ops.append("zit_remove")
        elif r < 0.45 and allow_add:
            v1, v2 = h.val(), h.val()
            h.ops.append(f"zit_add {v1} {v2}" + (f" fail={rng.choice([1, 1, 2])}" if rng.random() < p_fail else ""))
            s1.xs.insert(pos, s1.norm(v1))
            s2.xs.insert(pos, s2.norm(v2))
            pos += 1
        elif r < 0.65:
            v1, v2 = h.val(), h.val()
            h.ops.append(f"zit_replace {v1} {v2}" + (" noout=1" if rng.random() < 0.3 else ""))
            s1.xs[pos - 1] = s1.norm(v1)
            s2.xs[pos - 1] = s2.norm(v2)


def mixed_iter_program(h, o, rng):
    """an iterator session interleaved with DIRECT calls on the iterated array (legal for an index-based
    iterator): between two iterator calls, with probability ~0.2, the array is extended or shortened behind
    the iterator's back, so the cursor may end up beyond the content; every iterator call is then issued
    regardless of whether it can succeed.  The shadow follows the positional semantics (Spec.SSeq.Pos)."""
    s = h.sh[o]
    suf = h.suffix(o)
    h.ops.append(f"it_new{suf}")
    pos, removed = 0, False
    for _ in range(rng.randint(2, len(s.xs) + 6)):
        if rng.random() < 0.2:
            d = rng.choice(["add", "add_at0", "remove_last", "remove_at0", "remove_all", "trim", "remove_at_mid"])
            if d == "add":
                v = h.val(); h.ops.append(f"add {v}{suf}"); s.xs.append(s.norm(v))
            elif d == "add_at0":
                v = h.val(); h.ops.append(f"add_at {v} 0{suf}"); s.xs.insert(0, s.norm(v))
            elif d == "remove_last":
                h.ops.append(f"remove_last{suf}" + (" noout=1" if rng.random() < 0.3 else ""))
                if s.xs: s.xs.pop()
            elif d == "remove_at0":
                h.ops.append(f"remove_at 0{suf}")
                if s.xs: del s.xs[0]
            elif d == "remove_at_mid":
                i = len(s.xs) // 2
                h.ops.append(f"remove_at {i}{suf}")
                if i < len(s.xs): del s.xs[i]
            elif d == "remove_all":
                h.ops.append(f"remove_all{suf}"); s.xs.clear()
            else:
                h.ops.append(f"trim_capacity{suf}")
        r = rng.random()
        if r < 0.45:
            h.ops.append("it_next")
            if pos < len(s.xs):
                pos += 1; removed = False
        elif r < 0.6:
            h.ops.append("it_remove" + (" noout=1" if rng.random() < 0.3 else ""))
            if not removed and pos >= 1 and pos - 1 < len(s.xs):
                del s.xs[pos - 1]; pos -= 1; removed = True
        elif r < 0.75:
            v = h.val(); h.ops.append(f"it_add {v}")
            if pos <= len(s.xs):
                s.xs.insert(pos, s.norm(v)); pos += 1
        elif r < 0.88:
            v = h.val(); h.ops.append(f"it_replace {v}" + (" noout=1" if rng.random() < 0.3 else ""))
            if pos >= 1 and pos - 1 < len(s.xs):
                s.xs[pos - 1] = s.norm(v)
        else:
            h.ops.append("it_index")


def mixed_zip_program(h, o1, o2, rng):
    """the same for a zip iterator over two arrays (or one array on both sides when o1 == o2)"""
    h.ops.append(f"zit_new o={o1} o2={o2}")
    same = o1 == o2
    s1, s2 = h.sh[o1], h.sh[o2]
    pos, removed = 0, False
    for _ in range(rng.randint(2, min(len(s1.xs), len(s2.xs)) + 6)):
        if rng.random() < 0.2:
            # mostly the SECOND array is shortened while the first stays long: the second add_at of a zit_add
            # is then rejected and the first insertion has to be rolled back
            t = o2 if rng.random() < 0.65 else o1
            st = h.sh[t]; suf = h.suffix(t)
            d = rng.choice(["add", "remove_last", "remove_last", "remove_at0", "remove_all", "trim"])
            if d == "add":
                v = h.val(); h.ops.append(f"add {v}{suf}"); st.xs.append(st.norm(v))
            elif d == "remove_last":
                h.ops.append(f"remove_last{suf}")
                if st.xs: st.xs.pop()
            elif d == "remove_at0":
                h.ops.append(f"remove_at 0{suf}")
                if st.xs: del st.xs[0]
            elif d == "remove_all":
                h.ops.append(f"remove_all{suf}"); st.xs.clear()
            else:
                h.ops.append(f"trim_capacity{suf}")
        r = rng.random()
        n1, n2 = len(s1.xs), len(s2.xs)
        if r < 0.45:
            h.ops.append("zit_next")
            if pos < n1 and pos < n2:
                pos += 1; removed = False
        elif r < 0.6:
            h.ops.append("zit_remove" + (" noout=1" if rng.random() < 0.3 else ""))
            if pos >= 1 and pos - 1 < n1 and pos - 1 < n2 and not removed:
                del s1.xs[pos - 1]
                if not same:
                    del s2.xs[pos - 1]
                elif pos - 1 < len(s1.xs):
                    del s1.xs[pos - 1]
                pos -= 1; removed = True
        elif r < 0.75:
            # values already stored in the first array (a duplicate at a LOWER index exposes a roll-back by value)
            v1 = rng.choice(s1.xs[:max(pos, 1)]) if s1.xs and rng.random() < 0.6 else h.val()
            v2 = h.val(); h.ops.append(f"zit_add {v1} {v2}")
            if pos <= n1 and pos <= n2:
                s1.xs.insert(pos, s1.norm(v1))
                s2.xs.insert(pos, s2.norm(v2))
                pos += 1
        elif r < 0.88:
            v1, v2 = h.val(), h.val(); h.ops.append(f"zit_replace {v1} {v2}")
            if pos >= 1 and pos - 1 < n1 and pos - 1 < n2:
                s1.xs[pos - 1] = s1.norm(v1)
                s2.xs[pos - 1] = s2.norm(v2)
        else:
            h.ops.append("zit_index")


def zip_same_program(h, o, rng, p_fail=0.0):
    """a zip iterator with the SAME array on both sides (ar1 == ar2): every call acts twice on one array
    (a refused growth inside the second add_at used to be swallowed: repaired as A11,
    corpus/array_sized/zip_add_same_array_refused.ops)."""
    s = h.sh[o]
    h.ops.append(f"zit_new o={o} o2={o}")
    pos = 0
    for _ in range(rng.randint(0, len(s.xs) + 2)):
        h.ops.append("zit_next")
        if pos >= len(s.xs):
            continue
        pos += 1
        if rng.random() < 0.4:
            h.ops.append("zit_index")
        r = rng.random()
        if r < 0.25:
            h.ops.append("zit_remove" + (" noout=1" if rng.random() < 0.3 else ""))
            pos -= 1
            del s.xs[pos]
            if pos < len(s.xs):
                del s.xs[pos]
            if rng.random() < 0.2:
                h.ops.append("zit_remove")
        elif r < 0.5:
            v1, v2 = h.val(), h.val()
            h.ops.append(f"zit_add {v1} {v2}" + (f" fail={rng.choice([1, 1, 2])}" if rng.random() < p_fail else ""))
            s.xs.insert(pos, s.norm(v1))
            s.xs.insert(pos, s.norm(v2))
            pos += 1
        elif r < 0.7:
            v1, v2 = h.val(), h.val()
            h.ops.append(f"zit_replace {v1} {v2}" + (" noout=1" if rng.random() < 0.3 else ""))
            s.xs[pos - 1] = s.norm(v2)
    if rng.random() < 0.5:
        h.ops.append(f"foreach_zip o={o} o2={o}")


def derive(h, src, to, rng):
    """one mk_* from slot src into the free slot `to`"""
    s = h.sh[src]
    n = len(s.xs)
    suf = h.suffix(src)
    kind = rng.choice(["mk_sub", "mk_copy", "mk_filter"])
    if kind == "mk_sub":
        if n and rng.random() < 0.85:
            b = rng.randrange(n)
            e = rng.randrange(b, n)
        else:
            wi = wrap_indices(s.dl, min(n, 3))
            b, e = rng.choice([(1, 0), (0, n), (n, n), (0, SIZE_MAX), (SIZE_MAX, SIZE_MAX), (2, 1), (0, 2**63),
                               (0, rng.choice(wi)), (rng.choice(wi), rng.choice(wi)), (rng.choice(wi), n - 1 if n else 0)])
        h.ops.append(f"mk_sub {b} {e} to={to}{suf}")
        if b <= e < n:
            h.sh[to] = Shadow(s.dl, s.xs[b:e + 1])
    elif kind == "mk_copy":
        h.ops.append(f"mk_copy to={to}{suf}")
        h.sh[to] = Shadow(s.dl, s.xs)
    else:
        p = rng.choice(PREDS)
        h.ops.append(f"mk_filter p={p} to={to}{suf}")
        if n:
            h.sh[to] = Shadow(s.dl, [v for v in s.xs if pred(p, v, s.dl)])


def reuse_ops(dl, cap, ex, first_default, vals, k=0):
    """an array at slot k is destroyed and immediately re-created at the same slot with the same element
    size on the OTHER allocator triple (no allocation in between, so the new header very likely reuses
    the old address); then every builder derives from it and each derived array is grown.  A library
    that cached a configuration per parent address would hand the derived arrays the stale triple."""
    o = f" o={k}" if k else ""
    ctor_a = f"new_default esize={dl}{o}" if first_default else f"new esize={dl} cap={cap} exp={ex}{o}"
    ctor_b = f"new esize={dl} cap={cap} exp={ex}{o}" if first_default else f"new_default esize={dl}{o}"
    cap_b = cap if first_default else 8
    ops = [ctor_a] + [f"add {v}{o}" for v in vals[:3]] + [f"drop o={k}", ctor_b]
    kept = vals[3:6] if len(vals) >= 6 else vals[:3]
    ops += [f"add {v}{o}" for v in kept]
    slots = [x for x in range(4) if x != k][:3]
    ops += [f"mk_copy to={slots[0]}{o}", f"mk_sub 0 1 to={slots[1]}{o}", f"mk_filter p=all to={slots[2]}{o}"]
    n = len(kept)
    grow = {slots[0]: max(cap_b, n) - n + 1, slots[1]: 1, slots[2]: max(cap_b, n) - n + 1}
    for t in slots:
        ops += [f"add {50 + j} o={t}" for j in range(min(grow[t], 12))] + [f"capacity o={t}"]
    ops += ["observe"] + [f"drop o={t}" for t in slots]
    return ops, kept


def sparsify(ops, rng):
    """sparse observation mode (CONVENTIONS addendum 2): the constructor line gets `obs=sparse`, the
    content is only looked at by an `observe` every 5-15 operations and one before `destroy`"""
    if not ops or not ops[0].startswith("new"):
        return ops
    out = [ops[0] + " obs=sparse"]
    gap = rng.randint(5, 15)
    body = ops[1:]
    last_destroy = len(body) - 1 if body and body[-1].startswith("destroy") else None
    for i, op in enumerate(body):
        if i == last_destroy:
            out.append("observe")
        out.append(op)
        gap -= 1
        # never inside a run of appends: the runner's growth hook counts uninterrupted runs
        in_run = op.startswith("add") and i + 1 < len(body) and body[i + 1].startswith("add")
        if gap <= 0 and i != last_destroy and not in_run:
            out.append("observe")
            gap = rng.randint(5, 15)
    return out


class ArraySizedGen:
    name = "array_sized"

    # ------------------------------------------------------------------ small scope
    def small_scope(self, tier, focus=None):
        hs = self._small_scope(tier, focus)
        # every third history runs in sparse observation mode (deterministically)
        return [sparsify(h, random.Random(i)) if i % 3 == 1 else h for i, h in enumerate(hs)]

    def _small_scope(self, tier, focus=None):
        out = []
        quick = tier == "quick"
        if focus in (None, "all", "growth", "reject"):
            out += self._small_core(quick, reject=(focus == "reject"))
        if focus in ("iter", "all"):
            out += self._small_iter(quick)
        if focus in ("derived", "all"):
            out += self._small_derived(quick)
        if focus in ("sort", "all"):
            out += self._small_sort(quick)
        if focus in ("growth", "all"):
            out += self._small_growth(quick)
        if focus in ("fault", "all"):
            out += self.fault_seeds(tier)
        if focus in ("reject", "all"):
            out += self._small_reject(quick, extreme=(focus == "reject"))
        return out

    def _small_core(self, quick, reject=False):
        """all histories of <= L operations over a 14-letter alphabet (3 values incl. a duplicate)"""
        out = []
        for dl, caps, L in ((1, (1, 2, 3), 3 if quick else 4), (3, (1, 2), 3), (17, (1,), 2 if quick else 3)):
            a, b = 5, 256 ** (dl - 1) * 2 + 5      # differ only in the last byte when dl > 1
            if dl == 1:
                b = 6
            alphabet = [f"add {a}", f"add {b}", f"add_at {b} 0", f"add_at {a} 1", f"remove {a}", "remove_at 0",
                        "remove_at 1 noout=1", "remove_last noout=1" if dl == 3 else "remove_last", f"replace_at {b} 0" + (" noout=1" if dl == 17 else ""), "swap_at 0 1", "reverse",
                        "filter_mut p=even", "trim_capacity", "remove_all"]
            for cap in caps:
                for n in range(0, L + 1):
                    for seq in itertools.product(alphabet, repeat=n):
                        out.append([f"new esize={dl} cap={cap} exp=1.5"] + list(seq) +
                                   [f"index_of {a}", f"contains {b}", "destroy"])
        out.append(["new_default esize=3", "add 70000", "add 5", "trim_capacity", "add 6", "get_last", "remove_last", "destroy"])
        # the C library triple is inherited by derived arrays and used by growth, trim and destroy
        out.append(["new_default esize=2"] + [f"add {i}" for i in range(10)] + ["mk_copy to=1", "mk_sub 2 5 to=2", "mk_filter p=even to=3",
                    "add 1 o=2", "add 2 o=2", "trim_capacity o=1", "drop o=1", "remove_all", "trim_capacity", "add 3 fail=1", "destroy"])
        # a zip iterator over one array on each allocator
        out.append(["new_default esize=1", "new o=1 esize=2 cap=1 exp=2", "add 1", "add 2", "add 11 o=1", "zit_new o=0 o2=1",
                    "zit_next", "zit_add 5 15", "zit_next", "zit_add 6 16 fail=1", "foreach_zip o=0 o2=1", "destroy"])
        out.append(["new esize=2 cap=0 exp=2", "add 1", "destroy"])
        out.append([f"new esize=2 cap={2**63} exp=2", "add 1", "destroy"])
        out.append(["new esize=4 cap=3", "capacity", "get_buffer", "struct_size", "add 1", "add 2", "add 3", "add 4", "capacity", "destroy"])
        for ex in FACTORS:
            out.append([f"new esize=2 cap=1 exp={ex}"] + [f"add {i}" for i in range(1, 8)] + ["capacity", "destroy"])
        return out

    def _small_iter(self, quick):
        out = []
        acts = ["", "it_remove", "it_add 9", "it_replace 8", "it_index", "it_remove noout=1", "it_replace 8 noout=1"]
        for dl in (1, 3):
            for n in range(0, 4):
                for prog in itertools.product(acts, repeat=n):
                    ops = [f"new esize={dl} cap=2 exp=1.5"] + [f"add {i + 1}" for i in range(n)] + ["it_new", "it_index"]
                    for act in prog:
                        ops.append("it_next")
                        if act:
                            ops.append(act)
                            ops.append("it_index")
                    ops += ["it_next", "it_next", "foreach", "destroy"]
                    out.append(ops)
        zacts = ["", "zit_remove", "zit_add 9 19", "zit_replace 8 18", "zit_index", "zit_remove noout=1", "zit_replace 8 18 noout=1"]
        for n1, n2 in ((0, 2), (2, 0), (1, 1), (2, 3), (3, 2), (3, 3)):
            for prog in itertools.product(zacts, repeat=min(n1, n2)):
                ops = ["new esize=2 cap=4 exp=2", "new o=1 esize=3 cap=4 exp=2"]
                ops += [f"add {i + 1}" for i in range(n1)] + [f"add {i + 11} o=1" for i in range(n2)]
                ops += ["zit_new o=0 o2=1", "zit_index"]
                for act in prog:
                    ops.append("zit_next")
                    if act:
                        ops += [act, "zit_index"]
                ops += ["zit_next", "zit_next", "foreach_zip o=0 o2=1", "destroy"]
                out.append(ops)
        out += self._small_zip_same()
        # removing twice, mutating before the first yield
        out.append(["new esize=2 cap=2", "add 1", "add 2", "it_new", "it_remove", "it_replace 5", "it_next", "it_remove", "it_remove", "it_next", "destroy"])
        return out

    def _small_zip_same(self):
        """zip iterator over one and the same array, capacities 1-3 with exactly 0 or 1 free slots"""
        out = []
        acts = ["", "zit_remove", "zit_add 8 9", "zit_replace 6 7", "zit_index"]
        for dl in (1, 3):
            for cap in (1, 2, 3):
                for free in (0, 1):
                    n = cap - free
                    if n < 1:
                        continue
                    for ex in ("2", "1.5"):
                        for a1 in acts:
                            for a2 in acts:
                                ops = [f"new esize={dl} cap={cap} exp={ex}"] + [f"add {i + 1}" for i in range(n)]
                                ops += ["zit_new o=0 o2=0", "zit_index", "zit_next"] + ([a1, "zit_index"] if a1 else [])
                                ops += ["zit_next"] + ([a2, "zit_index"] if a2 else []) + ["zit_next", "foreach_zip o=0 o2=0", "capacity", "destroy"]
                                out.append(ops)
        # self-zip x capacity {1, 2} x every fill level x fail=k (k = 1: growth pre-check, 2: the second
        # add_at's growth, 3: none left) x factor, followed by a plain add and a sweep
        for cap in (1, 2):
            for n in range(1, cap + 1):
                for ex in ("2", "1.5", "3"):
                    for k in (1, 2, 3):
                        for steps in (1, n):
                            out.append([f"new esize=2 cap={cap} exp={ex}"] + [f"add {i + 1}" for i in range(n)] +
                                       ["zit_new o=0 o2=0"] + ["zit_next"] * steps + [f"zit_add 8 9 fail={k}", "zit_index", "zit_add 6 7",
                                        "zit_next", "zit_remove", "add 5", "foreach_zip o=0 o2=0", "capacity", "destroy"])
        out += self._small_stale()
        # refusals on an aliased zit_add: in the growth pre-check and inside the second add_at (A11)
        for cap, n, ex in ((1, 1, "2"), (2, 1, "2"), (2, 2, "1.5"), (3, 2, "2"), (3, 3, "1.1")):
            for k in (1, 2):
                out.append([f"new esize=3 cap={cap} exp={ex}"] + [f"add {i + 1}" for i in range(n)] +
                           ["zit_new o=0 o2=0", "zit_next", f"zit_add 8 9 fail={k}", "zit_index", "zit_next", "zit_add 8 9", "zit_next",
                            "foreach_zip o=0 o2=0", "destroy"])
        out.append(["new esize=2 cap=1 exp=3", "add 1", "zit_new o=0 o2=0", "zit_next", "zit_add 8 9 fail=1", "zit_next", "zit_add 8 9", "zit_next", "destroy"])
        out.append(["new esize=2 cap=2 exp=2", "add 1", "add 2", "zit_new o=0 o2=0", "zit_next", "zit_add 8 9 fail=1", "zit_add 8 9", "zit_next", "destroy"])
        return out

    def _small_reuse(self):
        out = []
        for dl in (1, 3, 17):
            for cap in (1, 2, 3):
                for first_default in (False, True):
                    for k in (0, 2):
                        ops, _ = reuse_ops(dl, cap, "1.5", first_default, [1, 2, 3, 4, 5, 6], k)
                        out.append(ops + [f"drop o={k}", "destroy"])
        # twice in a row: conf -> libc -> conf at the same slot
        ops1, _ = reuse_ops(2, 2, "2", False, [1, 2, 3, 4, 5, 6])
        ops2, _ = reuse_ops(2, 2, "2", True, [7, 8, 9, 10, 11, 12])
        out.append(ops1 + ["drop o=0"] + ops2 + ["destroy"])
        return out

    def _small_stale(self):
        """rejected iterator calls: cursors left behind by direct calls, zit_add rejected on the second array"""
        out = []
        # the cursor left behind by direct calls: shortened, emptied, extended array; every iterator call
        for direct in (["remove_last"], ["remove_all"], ["remove_at 0", "remove_at 0"], ["add 9", "trim_capacity"], ["remove_all", "add 7"]):
            for call in ("it_next", "it_remove", "it_add 4", "it_replace 4", "it_index"):
                out.append(["new esize=3 cap=2 exp=1.5", "add 1", "add 2", "add 3", "it_new", "it_next", "it_next", "it_next"] + direct +
                           [call, "it_index", "it_next", "it_add 5", "it_remove", "foreach", "destroy"])
            for call in ("zit_next", "zit_remove", "zit_add 4 5", "zit_replace 4 5", "zit_index"):
                out.append(["new esize=3 cap=2 exp=1.5", "new o=1 esize=1 cap=4 exp=2", "add 1", "add 2", "add 3", "add 11 o=1", "add 12 o=1", "add 13 o=1",
                            "zit_new o=0 o2=1", "zit_next", "zit_next", "zit_next"] + direct + [call, "zit_index", "zit_next", "zit_add 6 7", "foreach_zip o=0 o2=1", "destroy"])
        # zit_add rejected on the SECOND array (shortened behind the iterator) while the first array already
        # holds an equal record at a lower index: the roll-back must take out the record just inserted (by
        # index), not the first equal one
        for dl in (1, 3):
            for steps in (2, 3, 4):
                for dup_at in range(0, steps):
                    for shorten in (["remove_last o=1", "remove_last o=1", "remove_last o=1"], ["remove_all o=1"], ["remove_at 0 o=1", "remove_last o=1", "trim_capacity o=1"]):
                        first = [10, 20, 30, 40]
                        first[dup_at] = 77
                        out.append([f"new esize={dl} cap=2 exp=2", f"new o=1 esize={dl} cap=4 exp=1.5"] + [f"add {v}" for v in first] +
                                   [f"add {v} o=1" for v in (1, 2, 3, 4)] + ["zit_new o=0 o2=1"] + ["zit_next"] * steps + shorten +
                                   ["zit_add 77 9", "zit_index", "index_of 77", "zit_next", "zit_add 77 9", "foreach", "destroy"])
        return out

    def _small_derived(self, quick):
        out = self._small_reuse()
        for dl in (1, 3):
            for n in range(0, 5):
                base = [f"new esize={dl} cap=2 exp=1.5"] + [f"add {i + 1}" for i in range(n)]
                follow = ["add 50 o=1", "add 51 o=1", "replace_at 60 0", "remove_at 0 o=1", "add 52", "drop o=1", "get_last", "destroy"]
                for b in range(0, n + 1):
                    for e in range(0, n + 1):
                        out.append(base + [f"mk_sub {b} {e} to=1"] + follow)
                out.append(base + ["mk_copy to=1"] + follow)
                for p in PREDS:
                    out.append(base + [f"mk_filter p={p} to=1"] + follow)
                out.append(base + ["mk_copy to=1", "remove_all", "trim_capacity", "add 9 o=1", "destroy"])
                out.append(base + ["mk_copy to=1", "mk_sub 0 0 to=2 o=1", "mk_filter p=all to=3 o=2", "add 7 o=3", "add 8 o=3", "drop o=0", "add 9 o=2", "destroy"])
        return out

    def _small_sort(self, quick):
        out = self._small_sort_resort()
        for dl in (1, 3):
            vals = [1, 2, 256 ** (dl - 1) * 3 + 1] if dl > 1 else [1, 2, 11]
            for n in range(0, 5 if quick else 6):
                for seq in itertools.product(vals, repeat=n):
                    for cm in ("asc", "desc", "m10", "k10"):
                        out.append([f"new esize={dl} cap=2 exp=2"] + [f"add {v}" for v in seq] + [f"sort cmp={cm}", "add 0", "sort", "destroy"])
        # ties: records with equal keys v % 10 and different bytes, odd element sizes included
        for dl in (1, 3, 17):
            top = 256 ** (dl - 1)
            tv = [3, 13, 253, 23] if dl == 1 else [3, 13, 3 + 10 * top, 253, 3 + 10 * 256 ** (dl // 2), 23, 7, 17 + 10 * top]
            for n in range(2, len(tv) + 1):
                out.append([f"new esize={dl} cap=1 exp=1.5"] + [f"add {v}" for v in tv[:n]] +
                           ["sort cmp=k10", "sort cmp=k10", "reverse", "sort cmp=k10", "map fn=inc", "sort cmp=k10", "sort cmp=asc", "destroy"])
        return out

    def _small_sort_resort(self):
        """sort -> mutation(s) of every kind -> sort with the SAME comparator (then with another one).
        The records [9, 19, 11, 255, 254, 3] are chosen so that `map fn=inc` (bytewise +1: 255 -> 0,
        9 -> 10, 19 -> 20) breaks the order under asc, desc and m10, as do the index mutations below;
        a sort that skipped its work because "nothing changed since the last sort with this comparator"
        would leave the array unsorted."""
        out = []
        vals = [9, 19, 11, 255, 254, 3]
        muts = [
            ["map fn=inc"], ["map fn=rec"], ["map fn=inc", "map fn=inc"],
            ["replace_at 200 0"], ["replace_at 0 0"], ["replace_at 7 5"], ["replace_at 128 2 noout=1"],
            ["swap_at 0 5"], ["swap_at 1 4"], ["reverse"],
            ["remove_at 0"], ["remove_last"], ["remove 11"], ["remove_at 2", "add 128"], ["remove_all", "add 7", "add 5", "add 6"],
            ["add 128"], ["add 0"], ["add_at 128 0"], ["add_at 0 6"], ["add_at 77 3"],
            ["filter_mut p=even"], ["filter_mut p=mod3", "map fn=inc"], ["trim_capacity"], ["trim_capacity", "map fn=inc"],
            ["it_new", "it_next", "it_replace 200"], ["it_new", "it_next", "it_next", "it_add 128"],
            ["it_new", "it_next", "it_remove", "it_next", "it_replace 0"],
            ["zit_new o=0 o2=0", "zit_next", "zit_replace 200 100"], ["zit_new o=0 o2=0", "zit_next", "zit_add 128 64"],
            ["zit_new o=0 o2=0", "zit_next", "zit_next", "zit_remove", "zit_next", "zit_replace 1 250"],
            ["new o=1 esize=1 cap=2 exp=2", "add 1 o=1", "add 2 o=1", "zit_new o=0 o2=1", "zit_next", "zit_replace 200 7", "zit_next", "zit_add 128 9"],
            ["mk_copy to=1", "map fn=inc", "sort cmp=asc o=1"], ["sort cmp=desc", "map fn=inc"],
        ]
        other = {"asc": "m10", "desc": "k10", "m10": "desc", "k10": "asc"}
        for cm in ("asc", "desc", "m10", "k10"):
            for mu in muts:
                out.append(["new esize=1 cap=2 exp=2"] + [f"add {v}" for v in vals] +
                           [f"sort cmp={cm}"] + mu + [f"sort cmp={cm}", "map fn=inc", f"sort cmp={cm}",
                                                       f"sort cmp={other[cm]}", "destroy"])
        # wider records: the order depends on the high bytes, inc carries nothing between bytes
        for cm in ("asc", "m10"):
            out.append(["new esize=3 cap=1 exp=1.5", "add 255", "add 256", "add 65535", "add 16777215", "add 9", f"sort cmp={cm}",
                        "map fn=inc", f"sort cmp={cm}", "swap_at 0 4", f"sort cmp={cm}", "destroy"])
        return out

    def _small_growth(self, quick):
        out = self._limit_probes() + self._small_zip_same()[::7]
        for cap in (1, 2, 3, 4):
            for ex in FACTORS:
                for dl in (1, 17):
                    out.append([f"new esize={dl} cap={cap} exp={ex}"] + [f"add {i}" for i in range(80 if dl == 1 else 64)] +
                               ["remove_all", "trim_capacity", "add 1", "add 2", "trim_capacity", "destroy"])
        return out

    def _small_reject(self, quick, extreme=True):
        out = []
        out += self._small_stale()
        B0 = [0, 1, 2, 3, 2**31, 2**63, SIZE_MAX - 1, SIZE_MAX]
        for dl in (1, 2, 3, 8, 17):
            for n in range(0, 3):
                base = [f"new esize={dl} cap=2 exp=2"] + [f"add {i + 1}" for i in range(n)]
                for i in B0 + wrap_indices(dl, n):
                    out.append(base + [f"get_at {i}", f"peek {i}", f"remove_at {i}", f"replace_at 9 {i}", f"add_at 9 {i}",
                                       f"swap_at {i} 0", f"swap_at 0 {i}", f"swap_at {i} {i}", f"mk_sub {i} {i} to=1", f"mk_sub 0 {i} to=2", "destroy"])
                pass
        out += self._limit_probes()
        # accepted extreme capacities make the harness report an absurd request: `reject` focus only
        for line in (self._extreme_news() if extreme else []):
            out.append([line, "add 1", "get_at 0", "size", "destroy"])
        out.append(["new esize=2 cap=2 exp=2", f"new o=1 esize=8 cap={2**61} exp=1.1", "new o=2 esize=0 cap=4", "add 1", "add 2 o=1", "add 3 o=2", "destroy"])   # both rejected, nothing allocated
        for dl in (1, 3):
            for n in range(0, 3):
                base = [f"new esize={dl} cap=2 exp=2"] + [f"add {i + 1}" for i in range(n)]
                out.append(base + [f"add {n}", f"remove {n}", "remove 77", "index_of 77", "contains 77", "get_last", "remove_last", "filter_mut p=all",
                                   "mk_filter p=all to=1", "it_new", "it_remove", "it_replace 4", "destroy"])
        return out

    def _limit_probes(self):
        """huge expansion factors: the first growth asks for a capacity whose byte count exceeds
        CC_MAX_ELEMENTS and must be refused with CC_ERR_MAX_CAPACITY (repair A10), nothing allocated"""
        out = []
        for dl, cap, ex in ((8, 1, 2**61), (8, 2, 2**61), (17, 1, 2**60), (3, 1, 2**63), (2, 1, 2**63), (2, 3, 2**62), (17, 2, 2**60)):
            ops = [f"new esize={dl} cap={cap} exp={ex}"] + [f"add {i + 1}" for i in range(cap)]
            ops += ["add 77", "add_at 78 0", "capacity", "get_last", "remove_at 0", "add 79", "add 80", "trim_capacity", "add 81", "destroy"]
            out.append(ops)
        return out

    def _extreme_news(self):
        """constructor lines with element size 0 and capacities around 2^64 / esize (the byte count
        capacity * esize wraps around size_t just above); accepted ones ask for an absurd buffer,
        which the harness allocator refuses (CC_ERR_ALLOC)"""
        out = []
        CCMAX = 2**64 - 2
        for dl in (1, 2, 3, 8, 17):
            q = CCMAX // dl
            caps = {q - 1, q, q + 1, 2**64 // dl, -(-2**64 // dl), -(-2**64 // dl) + 1, 2**63, 2**62, 2**61, 2**41, SIZE_MAX, SIZE_MAX - 1}
            for cap in sorted(c for c in caps if 0 < c <= SIZE_MAX):
                for ex in ("1.1", "2"):
                    out.append(f"new esize={dl} cap={cap} exp={ex}")
        for cap in (0, 1, 8, 2**63, SIZE_MAX):
            out.append(f"new esize=0 cap={cap} exp=2")
        out.append("new_default esize=0")
        return out

    def fault_seeds(self, tier):
        """histories whose operations allocate (the runner adds the refusals itself)"""
        return [
            ["new esize=3 cap=1 exp=1.5", "add 1", "add 2", "add_at 3 0", "add_at 4 1", "trim_capacity", "add 5", "destroy"],
            ["new esize=2 cap=2 exp=2", "add 1", "add 2", "mk_copy to=1", "mk_sub 0 1 to=2", "mk_filter p=even to=3",
             "add 9 o=1", "add 9 o=2", "add 9 o=3", "add 9 o=3", "destroy"],
            ["new esize=1 cap=1 exp=3", "add 1", "it_new", "it_next", "it_add 5", "it_next", "it_add 6", "it_next", "foreach", "destroy"],
            ["new esize=17 cap=2 exp=1.1", "add 1", "add 2", "remove_all", "trim_capacity", "add 3", "add 4", "add 5", "destroy"],
            ["new esize=2 cap=1 exp=2", "new o=1 esize=3 cap=2 exp=2", "add 1", "add 11 o=1", "add 12 o=1", "zit_new o=0 o2=1",
             "zit_next", "zit_add 7 17", "zit_next", "zit_index", "zit_add 8 18", "zit_next", "foreach_zip o=0 o2=1", "destroy"],
            ["new esize=3 cap=2 exp=2", "add 1", "zit_new o=0 o2=0", "zit_next", "zit_add 5 6", "zit_next", "zit_add 7 8", "zit_remove",
             "zit_next", "foreach_zip o=0 o2=0", "destroy"],
        ]

    # ------------------------------------------------------------------ scale
    def scale(self, rng, tier):
        """a few LONG histories (ROUND12 A): >= 1100 records, constructor capacities around powers of two,
        factors 1.01 .. 3, every element size; several hundred operations after the fill that hit the front,
        the middle and the back.  Sessions are `obs=sparse phys=quiet` (buffers as checksums, full dump on
        `observe` every ~50 ops).  Two histories use MiB-sized buffers (element sizes 4096 and 65536: growth
        beyond 1 MiB steps); for those the byte-level Lean model is switched off (`model=off`: the driver
        answers `S ?`/`M ?`), the C side runs with sanitizers, ledger, walkers and the growth-count hook."""
        quick = tier == "quick"
        plans = [(1, 257, "1.01", 1500, 300), (3, 1, "3", 1200, 260), (8, 1023, "2", 1100, 200), (17, 1025, "1.5", 1100, 130)]
        if not quick:
            for _ in range(14):
                plans.append((rng.choice([1, 3, 8, 17]), rng.choice([1, 7, 8, 9, 255, 256, 257, 300, 1000, 1023, 1024, 1025, 4100]),
                              rng.choice(["1.01", "1.5", "2", "3"]), rng.randint(1100, 1500), rng.randint(150, 400)))
        out = [self._scale_one(rng, *pl) for pl in plans]
        out.append(self._scale_big(4096, 1, "2", 3000))
        out.append(self._scale_big(65536, 8, "2", 300))
        if not quick:
            out.append(self._scale_big(4096, 7, "3", 6000))
            out.append(self._scale_big(65536, 1, "1.5", 400))
        return out

    def _scale_big(self, dl, cap, ex, n):
        ops = [f"new esize={dl} cap={cap} exp={ex} obs=sparse phys=quiet model=off"]
        for i in range(n):
            ops.append(f"add {i * 2654435761 % 2 ** 40}")
            if i % 97 == 96:
                ops.append(f"get_at {i // 2}")
        ops += ["capacity", "size", "observe", "remove_at 0", f"remove_at {n // 3}", "remove_last", f"get_at {n - 4}", f"add_at 7 {n // 2}",
                "reverse", "trim_capacity", "capacity", "observe", "destroy"]
        return ops

    def _scale_one(self, rng, dl, cap, ex, n, post):
        h = Hist(rng, dl, cap, ex, make_pool(rng, dl))
        h.ops[0] += " obs=sparse phys=quiet"
        sh = h.sh[0]
        for i in range(n):
            v = (i * 2654435761 + 12345) % (256 ** dl) if rng.random() < 0.8 else h.val()
            h.ops.append(f"add {v}")
            sh.xs.append(sh.norm(v))
            if i % 50 == 49 and rng.random() < 0.3:
                h.ops.append(f"get_at {rng.randrange(len(sh.xs))}")
        h.ops.append("observe")
        since = 0
        # whole-array operations cost the byte-level Lean model n memcpy's over the whole buffer: budgeted
        heavy = max(2, 30000 // (n * dl))
        for _ in range(post):
            m = len(sh.xs)
            where = rng.choice([0, 0, m // 3, m // 2, max(m - 1, 0), max(m - 1, 0)])
            r = rng.random()
            if r < 0.2 and m:
                h.ops.append(f"remove_at {where}" + (" noout=1" if rng.random() < 0.3 else "")); del sh.xs[where]
            elif r < 0.28 and m:
                h.ops.append("remove_last"); sh.xs.pop()
            elif r < 0.45:
                v = h.val(); i = rng.choice([0, m // 3, m]); h.ops.append(f"add_at {v} {i}"); sh.xs.insert(i, sh.norm(v))
            elif r < 0.52:
                v = h.val(); h.ops.append(f"add {v}"); sh.xs.append(sh.norm(v))
            elif r < 0.62 and m:
                h.ops.append(f"{rng.choice(['get_at', 'peek'])} {rng.choice([0, m // 3, m - 1, m])}")
            elif r < 0.68 and m:
                v = h.val(); h.ops.append(f"replace_at {v} {where}"); sh.xs[where] = sh.norm(v)
            elif r < 0.73 and m:
                h.ops.append(f"swap_at 0 {m - 1}"); sh.xs[0], sh.xs[m - 1] = sh.xs[m - 1], sh.xs[0]
            elif r < 0.76 and m:
                v = rng.choice(sh.xs); h.ops.append(f"remove {v}"); sh.xs.remove(v)
            elif r < 0.78 and m and dl <= 3:
                h.ops.append(f"index_of {rng.choice(sh.xs)}")
            elif r >= 0.78 and r < 0.94 and r not in () and (r < 0.84 or r >= 0.88) and heavy <= 0 and not (0.82 <= r < 0.84):
                h.ops.append(f"get_at {where}" if m else "size")
            elif r < 0.80:
                heavy -= 1; h.ops.append("reverse"); sh.xs.reverse()
            elif r < 0.82:
                heavy -= 1
                cm = rng.choice(["asc", "desc", "m10"]); h.ops.append(f"sort cmp={cm}"); sh.xs.sort(key=sort_key(cm))
            elif r < 0.84:
                h.ops.append("trim_capacity")
            elif r < 0.86 and m > 3:
                h.ops += [f"mk_sub {m // 3} {2 * m // 3} to=1", "add 5 o=1", "get_last o=1", "drop o=1"]
            elif r < 0.88:
                h.ops += ["mk_copy to=1", "add 5 o=1", "remove_at 0 o=1", "observe", "drop o=1"]
            elif r < 0.90 and m:
                heavy -= 1
                h.ops += ["mk_filter p=mod3 to=2", "size o=2", "drop o=2"]
            elif r < 0.92 and m:
                # iterator sweep over the first part with removals and additions
                heavy -= 1
                h.ops.append("it_new"); pos = 0
                for k in range(min(m, 60)):
                    h.ops.append("it_next"); pos += 1
                    if k % 7 == 3:
                        h.ops.append("it_remove"); pos -= 1; del sh.xs[pos]
                    elif k % 11 == 5:
                        v = h.val(); h.ops.append(f"it_add {v}"); sh.xs.insert(pos, sh.norm(v)); pos += 1
            elif r < 0.93 and m:
                heavy -= 1
                p = rng.choice(["even", "mod3"]); h.ops.append(f"filter_mut p={p}"); sh.xs[:] = [v for v in sh.xs if pred(p, v, dl)]
            elif r < 0.94:
                heavy -= 1
                h.ops.append("map fn=inc"); sh.xs[:] = [frombytes([(b + 1) % 256 for b in tobytes(v, dl)]) for v in sh.xs]
            else:
                h.ops.append("size")
            since += 1
            if since >= 50:
                h.ops.append("observe"); since = 0
        h.ops += ["observe", "destroy"]
        return h.ops

    # ------------------------------------------------------------------ random
    def random(self, rng, n, tier, focus=None):
        out = []
        for _ in range(n):
            h = self._one(rng, focus)
            out.append(sparsify(h, rng) if rng.random() < 0.34 else h)
        return out

    def _one(self, rng, focus):
        dl = rng.choice(ESIZES)
        cap = rng.choice([1, 1, 2, 3, 4, 5, 8, 16])
        ex = rng.choice(FACTORS)
        p_default = {None: 0.04, "reject": 0.0}.get(focus, 0.1)
        h = Hist(rng, dl, cap, ex, make_pool(rng, dl), default=(rng.random() < p_default))
        if focus == "growth" and ex in ("1.1", "1.25", "1.5") and not h.ops[0].startswith("new_default") and rng.random() < 0.85:
            sh = h.sh[0]
            for _ in range(rng.randint(64, 200 if dl <= 3 else 96)):
                v = h.val()
                if sh.xs and rng.random() < 0.15:
                    i = rng.randrange(len(sh.xs) + 1)
                    h.ops.append(f"add_at {v} {i}")
                    sh.xs.insert(i, sh.norm(v))
                else:
                    h.ops.append(f"add {v}")
                    sh.xs.append(sh.norm(v))
                if rng.random() < 0.05:
                    h.ops.append(rng.choice(["capacity", "size", f"get_at {rng.randrange(len(sh.xs))}"]))
        if focus in ("derived", "all") and rng.random() < (0.25 if focus == "derived" else 0.12):
            # early in the history: destroy + re-create at the same slot on the other allocator triple
            first_default = h.ops[0].startswith("new_default")
            vals = [h.val() for _ in range(6)]
            ops, kept = reuse_ops(dl, cap, ex, first_default, vals)
            h.ops = ops
            h.sh = {0: Shadow(dl, [v % 256 ** dl for v in kept])}
        if focus == "reject" and rng.random() < 0.05:
            # a constructor call that must be rejected (or refused): the rest of the history has no object
            return [rng.choice(self._extreme_news()), "add 1", "size", "destroy"]
        length = rng.randint(1, 60 if dl <= 3 else 40)
        w = {}
        if focus == "growth":
            w = {"add": 14, "add_at": 3}
            length = rng.randint(20, 120 if dl <= 3 else 50)
            if rng.random() < 0.6:
                # a long uninterrupted run of appends with a small factor (1.1 / 1.25 / 1.5: many growth steps,
                # the capacity + 1 fallback at small capacities), only observers in between: this is what the
                # runner's ledger-based re-allocation bound (growth hook) looks at
                ex = rng.choice(["1.1", "1.25", "1.5"])
                cap = rng.choice([1, 1, 2, 3, 4])
        elif focus == "reject":
            w = {"add": 2}
        elif focus == "fault":
            w = {"add": 5, "add_at": 4, "trim_capacity": 4, "remove_all": 0.5}
            length = rng.randint(3, 14)
        else:
            w = {"add": rng.choice([2, 4, 6]), "add_at": 2, "remove_all": 0.3, "filter_mut": 0.6, "map": 0.5}
        p_iter = {"iter": 0.25, "all": 0.06, "fault": 0.08}.get(focus, 0)
        p_zip = {"iter": 0.08, "all": 0.03, "fault": 0.08}.get(focus, 0)
        p_der = {"derived": 0.15, "all": 0.05, "fault": 0.15}.get(focus, 0)
        p_sort = {"sort": 0.2, "all": 0.04}.get(focus, 0)
        p_fail = {"all": 0.05}.get(focus, 0)
        p_mixed = {"iter": 0.08, "all": 0.03, "fault": 0.03, "reject": 0.06}.get(focus, 0)
        p_zsame = {"iter": 0.04, "growth": 0.02, "all": 0.02, "fault": 0.04}.get(focus, 0)
        allow_it_add = True
        i = 0
        while i < length:
            i += 1
            live = sorted(h.sh)
            o = rng.choice(live) if (len(live) > 1 and rng.random() < 0.5) else 0
            if o not in h.sh:
                o = live[0]
            r = rng.random()
            if rng.random() < p_zsame:
                if rng.random() < 0.35:
                    mixed_zip_program(h, o, o, rng)
                else:
                    zip_same_program(h, o, rng, p_fail=4 * p_fail)
                continue
            if rng.random() < p_mixed:
                if 1 not in h.sh and rng.random() < 0.5:
                    dl2 = rng.choice(ESIZES)
                    h.ops.append(f"new o=1 esize={dl2} cap={rng.choice([1, 2, 4])} exp={rng.choice(FACTORS)}")
                    h.sh[1] = Shadow(dl2)
                    for _ in range(rng.randint(1, 6)):
                        v = h.val(); h.ops.append(f"add {v} o=1"); h.sh[1].xs.append(h.sh[1].norm(v))
                if 1 in h.sh and rng.random() < 0.6:
                    mixed_zip_program(h, 0, 1, rng)
                else:
                    mixed_iter_program(h, o, rng)
                continue
            if r < p_iter:
                iter_program(h, o, rng, allow_it_add, p_fail=4 * p_fail)
            elif r < p_iter + p_zip:
                if 1 not in h.sh:
                    dl2 = rng.choice(ESIZES)
                    h.ops.append(f"new o=1 esize={dl2} cap={rng.choice([1, 2, 4])} exp={rng.choice(FACTORS)}")
                    h.sh[1] = Shadow(dl2)
                    for _ in range(rng.randint(0, 5)):
                        v = h.val()
                        h.ops.append(f"add {v} o=1")
                        h.sh[1].xs.append(h.sh[1].norm(v))
                # (a refused zit_add used to advance the cursor: repaired as A8,
                # corpus/array_sized/zip_iter_add_refused.ops)
                zip_program(h, 0, 1, rng, allow_add=True, p_fail=4 * p_fail)
            elif r < p_iter + p_zip + p_der:
                free = [k for k in range(1, 4) if k not in h.sh]
                if free and rng.random() < 0.75:
                    derive(h, o, rng.choice(free), rng)
                elif len(live) > 1:
                    k = rng.choice([x for x in live if x != 0])
                    h.ops.append(f"drop o={k}")
                    del h.sh[k]
            elif r < p_iter + p_zip + p_der + p_sort:
                cm = rng.choice(["asc", "desc", "m10", "k10", "k10"])
                h.ops.append(f"sort cmp={cm}{h.suffix(o)}")
                h.sh[o].xs.sort(key=sort_key(cm))
                if rng.random() < 0.75:
                    # mutate, then sort again with the SAME comparator (sometimes another one first)
                    mutw = {"map": 6, "replace_at": 4, "swap_at": 4, "reverse": 3, "add": 3, "add_at": 3, "remove": 1,
                            "remove_at": 1, "remove_last": 1, "filter_mut": 1, "trim_capacity": 1, "remove_all": 0.2,
                            "get_at": 0, "get_last": 0, "peek": 0, "index_of": 0, "contains": 0, "reduce": 0, "size": 0, "capacity": 0}
                    for _ in range(rng.randint(1, 3)):
                        q = rng.random()
                        if q < 0.12:
                            iter_program(h, o, rng, True)
                        elif q < 0.2:
                            zip_same_program(h, o, rng)
                        else:
                            core_op(h, o, rng, mutw)
                            if h.ops[-1].startswith("map") and rng.random() < 0.7:
                                h.ops[-1] = f"map fn=inc{h.suffix(o)}" if "fn=inc" in h.ops[-1] else h.ops[-1]
                    if rng.random() < 0.2:
                        cm2 = rng.choice(["asc", "desc", "m10"])
                        h.ops.append(f"sort cmp={cm2}{h.suffix(o)}")
                        h.sh[o].xs.sort(key=sort_key(cm2))
                        core_op(h, o, rng, mutw)
                    h.ops.append(f"sort cmp={cm}{h.suffix(o)}")
                    h.sh[o].xs.sort(key=sort_key(cm))
                if cm == "k10" and rng.random() < 0.6:
                    # the order among ties rests on this glibc's qsort: put the array into a total order soon
                    cm3 = rng.choice(["asc", "desc", "m10"])
                    h.ops.append(f"sort cmp={cm3}{h.suffix(o)}")
                    h.sh[o].xs.sort(key=sort_key(cm3))
            else:
                core_op(h, o, rng, w, reject=(focus == "reject"))
                if p_fail and rng.random() < p_fail and h.ops[-1].split()[0] in ("add", "add_at", "trim_capacity"):
                    h.ops[-1] += " fail=1"     # the shadow may now be ahead of the real content: still a legal history
        if rng.random() < 0.3:
            h.ops.append("foreach" if focus in ("iter", "all") else "get_last")
        h.ops.append("destroy")
        return h.ops


GEN = ArraySizedGen()
