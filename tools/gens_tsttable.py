"""History generator for the ternary-search-trie table (cc_tsttable.c), properties C11 (+ TST parts of
C06/C07/C08/C16).

Protocol vocabulary
  new [cmp=s|u|r]          cc_tsttable_new_conf with the harness allocators (s = the library's own
                           char_cmp [signed char], u = unsigned bytes, r = reversed)
  new_default              cc_tsttable_new
  add k=<hex> v=<n>        cc_tsttable_add          (k = lowercase hex of the key bytes, `-` = "")
  get k= / contains k=     cc_tsttable_get / cc_tsttable_contains_key
  remove k= / remove_noout k=   cc_tsttable_remove with / without the out pointer
  remove_all, size, foreach_key, foreach_value
  it_new, it_next, it_remove, it_remove_noout     the session iterator (any add/remove/remove_all
                           invalidates it: later it_* print `noiter`)
  destroy
  new ... phys=quiet       (scale stream) between `observe`s the trie dump is replaced by a checksum of its text

Known finding X5: the empty key aliases the root node.  `x5_excluded(key)` is the exclusion
predicate; no main stream emits the empty key (corpus/tsttable/defect_X5_empty_key.ops does).
"""
import itertools, random


def x5_excluded(key):
    """KF-tst-empty-key: add/get/remove/contains_key with key == "" (DESIGN.md 5.4)"""
    return key in ("-", "", b"")


def hx(bs):
    if isinstance(bs, str):
        bs = bs.encode("latin-1")
    # the prefix `x` keeps an all-decimal hex string (e.g. "30313233…") from being taken for a number by the
    # runner's 64-bit clamp of op-line numbers
    return "x" + "".join("%02x" % b for b in bs) if bs else "-"


# key families
NESTED = [b"a", b"ab", b"abc", b"abcd", b"abd", b"b", b"ba"]
LONGPFX = [b"commonprefix" + s for s in (b"", b"a", b"b", b"ab", b"zz", b"a" * 5)] + [b"commonprefiy", b"commonpre"]
SINGLES = [bytes([c]) for c in b"mcxaz"]
HIGH = [b"\x80", b"\xff", b"\x7f", b"\x01", b"\x80\x01", b"a\xff", b"a\x80b", b"\xff\xff", b"a", b"\x7f\x80"]
WORDS = [b"cat", b"car", b"cart", b"dog", b"do", b"done", b"c", b"ca", b"zebra", b"apple", b"app"]
# keys that differ only at byte positions >= 8 (a comparison of the first machine word cannot tell them
# apart), only in the high bit of one byte (signed/unsigned char order, 7-bit truncation), and lengths
# that are not multiples of 4
LATE = [b"01234567" + t for t in (b"a", b"b", b"ab", b"", b"\x80", b"a\x80")] + [b"0123456789abcde" + t for t in (b"x", b"y", b"\xf8")]
HIBIT = [b"a", b"\xe1", b"ab", b"a\xe2", b"\xe1b", b"\xe1\xe2", b"A", b"\xc1", b"\x7f", b"\xff", b"\x01", b"\x81"]
ODDLEN = [b"k" * n for n in (1, 2, 3, 5, 7, 13)] + [b"k" * n + b"z" for n in (2, 4, 6, 12)]
FAMILIES = [NESTED, LONGPFX, SINGLES, HIGH, WORDS, LATE, HIBIT, ODDLEN]

# value alphabet: small values, duplicates, and pairs that differ by exactly 2^31, 2^32, 2^63, near 2^64-1
BIGV = [2**31, 2**31 + 1, 2**32, 2**32 + 1, 2**32 + 7, 2**63, 2**63 + 1, 2**63 + 7, 2**64 - 1, 2**64 - 2]


def rand_val(rng):
    r = rng.random()
    if r < 0.55:
        return rng.choice([0, 1, 2, 3, 7, rng.randint(1, 99)])
    if r < 0.8:
        return rng.choice([1, 7]) + rng.choice([0, 2**31, 2**32, 2**63])
    return rng.choice(BIGV)


def rand_key(rng, fam=None):
    r = rng.random()
    if fam is not None and r < 0.85:
        return rng.choice(fam)
    if r < 0.93:
        return bytes(rng.choice([1, 0x41, 0x61, 0x62, 0x63, 0x7f, 0x80, 0xfe, 0xff]) for _ in range(rng.randint(1, 4)))
    return bytes(rng.randint(1, 255) for _ in range(rng.randint(1, 6)))


class TstGen:
    name = "tsttable"

    # focus=None : the operations C11 names (add, get, contains, remove, remove_all, size, foreach,
    #              iterator next/remove), default comparator, no fail=
    # "iter"     : the same with iterator programs up-weighted and the other comparators
    # "reject"   : absent keys (near misses: proper prefixes, extensions, sibling characters) up-weighted,
    #              iter_remove before the first / after the last iter_next
    # "fault", "growth" : add-dominated histories (the runner adds the refusals itself)
    # "all"      : everything, plus explicit fail= on add/new and the other comparators
    # "derived", "sort" : the container has no such operations; same as None

    # ------------------------------------------------------------------ small scope
    def small_scope(self, tier, focus=None):
        out = []
        sets = [
            [b"a", b"ab", b"abc"],                 # nested prefixes
            [b"b", b"a", b"c"],                    # one level, left/right
            [b"ab", b"ac", b"a"],                  # prefix added last
            [b"\x80", b"a", b"\xff"],              # signed order: 0x80 < 0xff < 'a'
            [b"m", b"ma", b"c", b"x"],
        ]
        if tier != "quick":
            sets += [[b"a", b"ab", b"abc", b"b"], [b"car", b"cat", b"ca", b"c", b"d"],
                     [b"\x7f", b"\x80", b"\x81", b"\x01\xff"], [b"aaaa", b"aaab", b"aa", b"ab", b"b"]]
        for ks in sets:
            n = len(ks)
            perms = list(itertools.permutations(ks))
            for pi, ins in enumerate(perms):
                adds = [f"add k={hx(k)} v={i + 1}" for i, k in enumerate(ins)]
                # all insertion orders x all removal orders (a rotating sample of removal orders for
                # the bigger sets)
                rem_orders = perms
                if n == 4 and tier == "quick":
                    rem_orders = [perms[(7 * pi) % len(perms)], perms[(11 * pi + 3) % len(perms)]]
                elif n >= 5:
                    rem_orders = [perms[(7 * pi + j * 13) % len(perms)] for j in range(6)]
                for rem in rem_orders:
                    out.append(["new"] + adds + ["foreach_key"] + [f"remove k={hx(k)}" for k in rem] + ["destroy"])
                # iterator: remove the yielded elements selected by a bit mask over the yield index
                masks = range(1 << n) if n <= 3 else [(5 * pi + 3) % (1 << n), (1 << n) - 1, 1 << (pi % n)]
                for mask in masks:
                    ops = ["new"] + adds + ["it_new"]
                    for j in range(n):
                        ops.append("it_next")
                        if mask >> j & 1:
                            ops.append("it_remove" if j % 2 == 0 else "it_remove_noout")
                    ops += ["it_next", "it_next", "it_remove", "foreach_value", "destroy"]
                    out.append(ops)
        # replace, absent keys, remove_all
        out.append(["new", "add k=61 v=1", "add k=61 v=2", "get k=61", "get k=62", "contains k=6162", "remove k=6162",
                    "remove k=62", "size", "remove k=61", "remove k=61", "remove_all", "size", "destroy"])
        out.append(["new", "add k=6162 v=1", "get k=61", "contains k=61", "remove k=61", "remove_noout k=61",
                    "add k=61 v=0", "get k=61", "remove_noout k=6162", "foreach_key", "remove_all", "foreach_key", "destroy"])
        out.append(["new_default", "add k=6162 v=1", "add k=61 v=2", "remove k=6162", "foreach_value", "destroy"])
        out.append(["new", "it_new", "it_next", "it_remove", "it_next", "destroy"])
        out.append(["new", "add k=62 v=1", "it_new", "it_remove", "it_next", "it_next", "it_remove", "destroy"])
        # X7: repeated it_remove for one yielded element is rejected and inert
        out.append(["new", "add k=61 v=1", "add k=80 v=3", "add k=6162 v=2", "it_new", "it_next", "it_remove", "it_remove",
                    "it_remove_noout", "it_next", "it_remove", "it_remove", "it_next", "it_next", "size", "destroy"])
        out.append(["new_default", "add k=616263 v=1", "add k=61 v=2", "it_new", "it_next", "it_remove", "it_remove",
                    "it_next", "remove_all", "add k=62 v=3", "destroy"])
        out.append(["new", "add k=3031323334353637 61 v=1".replace(" 61", "61"), "add k=303132333435363762 v=4294967297",
                    "add k=3031323334353637 v=9223372036854775809", "get k=303132333435363761", "get k=303132333435363762",
                    "add k=e1 v=18446744073709551615", "add k=61 v=2147483649", "get k=e1", "get k=61", "foreach_value",
                    "remove_noout k=303132333435363761", "remove k=e1", "size", "destroy"])
        if True:
            for cm in ("u", "r"):
                out.append([f"new cmp={cm}", "add k=80 v=1", "add k=61 v=2", "add k=ff v=3", "add k=6180 v=4", "foreach_key",
                            "it_new", "it_next", "it_remove", "it_next", "it_next", "it_next", "it_next", "remove k=61",
                            "remove_all", "destroy"])
        if focus in ("fault", "all"):
            out += self.fault_seeds(tier)
        if focus == "all":
            out.append(["new fail=1", "add k=61 v=1", "destroy"])
            out.append(["new", "add k=616263 v=1 fail=2", "add k=616263 v=1 fail=4", "add k=6162 v=2 fail=1", "size",
                        "add k=616263 v=1", "add k=6162 v=2 fail=1", "add k=6162 v=2", "add k=616263 v=5 fail=1", "destroy"])
        return out

    def fault_seeds(self, tier):
        """histories whose operations allocate (the runner adds the refusals)"""
        return [
            ["new", "add k=616263 v=1", "add k=6162 v=2", "add k=616264 v=3", "add k=61626465 v=4", "add k=7a v=5",
             "add k=61 v=6", "remove k=616263", "add k=616263 v=7", "destroy"],
            ["new", "add k=80ff01 v=1", "add k=80ff v=2", "add k=80 v=3", "remove k=80ff", "add k=80ff v=9", "destroy"],
        ]

    # ------------------------------------------------------------------ random
    def random(self, rng, n, tier, focus=None):
        out = []
        for _ in range(n):
            fam = rng.choice(FAMILIES + [None])
            if fam is not None and rng.random() < 0.3:
                fam = fam + rng.choice(FAMILIES)
            cm = "s"
            if rng.random() < 0.3:                         # custom char_cmp in every focus
                cm = rng.choice(["u", "r"])
            ops = ["new" if cm == "s" else f"new cmp={cm}"]
            if focus in ("all", None) and cm == "s" and rng.random() < 0.08:
                ops = ["new_default"]                      # C library allocator (C14): never refused
            length = rng.randint(3, 50 if tier == "quick" else 90)
            present = []       # keys known to be present (unknown after an iterator program: reset)
            p_add = 0.8 if focus in ("growth", "fault") else rng.choice([0.35, 0.5, 0.7])
            p_iter = {None: 0.06, "iter": 0.25, "all": 0.12, "reject": 0.08}.get(focus, 0.0)
            p_absent = 0.5 if focus == "reject" else 0.15
            for _ in range(length):
                if rng.random() < p_iter:
                    ops += self.iter_program(rng, len(present), early_remove=(focus in ("reject", "all")))
                    ops.append("size")
                    present = []
                    continue
                r = rng.random()
                if r < p_add:
                    k = rand_key(rng, fam)
                    assert not x5_excluded(hx(k))
                    fail = ""
                    if focus == "all" and ops[0] != "new_default" and rng.random() < 0.12:
                        fail = f" fail={rng.randint(1, len(k) + 1)}"
                    ops.append(f"add k={hx(k)} v={rand_val(rng)}{fail}")
                    if k not in present and not fail:
                        present.append(k)
                elif r < p_add + 0.2:
                    if present and rng.random() > p_absent:
                        k = rng.choice(present)
                        present.remove(k)
                    else:
                        k = self.near_miss(rng, present, fam)
                        if k in present:
                            present.remove(k)
                    ops.append(f"{'remove' if rng.random() < 0.65 else 'remove_noout'} k={hx(k)}")
                elif r < p_add + 0.35:
                    k = rng.choice(present) if present and rng.random() > p_absent else self.near_miss(rng, present, fam)
                    ops.append(f"{rng.choice(['get', 'contains'])} k={hx(k)}")
                elif r < p_add + 0.40:
                    ops.append(rng.choice(["foreach_key", "foreach_value", "size"]))
                elif r < p_add + 0.42:
                    ops.append("remove_all")
                    present = []
                else:
                    ops.append(f"get k={hx(rand_key(rng, fam))}")
            ops.append("destroy")
            out.append(ops)
        return out

    # ------------------------------------------------------------------ scale
    def scale(self, rng, tier):
        """a few LONG histories on big tries: a comb (keys p^i q for i < depth branching off p^depth: more than 100
        sibling subtrees pending at once for any walk that keeps a work list), wide fans (130..200 different first
        bytes incl. bytes >= 0x80), deep keys (length 300..420, refused adds that roll back long chains, removals
        that prune long chains); after the fill several hundred operations: foreach, a full iterator sweep with
        removals at the front / middle / back, direct removes, re-adds, gets at the boundaries, remove_all"""
        shapes = [self._comb, self._fan, self._deep, self._mixed]
        if tier == "quick":
            plan = [self._comb, self._fan, self._deep, self._mixed, rng.choice([self._comb, self._fan])]
        else:
            plan = [shapes[i % 4] for i in range(28)]
        out = [self._scale_session(rng, shape(rng)) for shape in plan]
        # one comb in the plain form (library comparator, right branches, spine first) in every run
        out[0] = self._scale_session(rng, self._comb(rng, plain=True))
        return out

    def _scale_session(self, rng, shape):
        cm, fill, keys = shape
        hist = ["new obs=sparse phys=quiet" + ("" if cm == "s" else f" cmp={cm}")]
        body = list(fill) + ["size", "foreach_key", "foreach_value"] + self._scale_ops(rng, keys)
        gap = 40
        for op in body:
            if gap <= 0:
                hist.append("observe")
                gap = rng.randint(45, 60)
            hist.append(op)
            gap -= 1
        return hist + ["observe", "remove_all", "size", "foreach_key", "observe", "destroy"]

    def _scale_ops(self, rng, keys):
        """what follows the fill; `keys` in insertion order"""
        ops, present = [], list(keys)
        srt = sorted(present)
        edge = [srt[0], srt[-1], srt[len(srt) // 3], srt[len(srt) // 2], present[0], present[-1]]
        for k in edge:
            ops += [f"get k={hx(k)}", f"contains k={hx(k)}", f"get k={hx(k + b'~')}"]
            if len(k) > 1:
                ops.append(f"contains k={hx(k[:-1])}")
        # iterator sweep: remove the first, the last, every third, one double remove (X7)
        n = len(present)
        ops.append("it_new")
        for j in range(n + 2):
            ops.append("it_next")
            if j == 0 or j == n - 1 or j % 3 == 1:
                ops.append("it_remove" if j % 2 else "it_remove_noout")
                if j == 7:
                    ops.append("it_remove")
            if j == n // 2:
                ops += ["foreach_key", "size"]
        ops += ["foreach_key", "foreach_value", "size"]
        # direct operations over the whole universe (present or not any more): front, middle, back, random
        univ = list(keys)
        for k in [srt[0], srt[-1], srt[n // 3], srt[n // 2], keys[0], keys[-1]]:
            ops += [f"remove k={hx(k)}", f"get k={hx(k)}", f"add k={hx(k)} v={rand_val(rng)}", f"get k={hx(k)}"]
        for i in range(rng.randint(160, 240)):
            k = rng.choice(univ)
            r = rng.random()
            if r < 0.35:
                ops.append(f"add k={hx(k)} v={rand_val(rng)}")
            elif r < 0.65:
                ops.append(f"{'remove' if rng.random() < 0.6 else 'remove_noout'} k={hx(k)}")
            elif r < 0.85:
                ops.append(f"{rng.choice(['get', 'contains'])} k={hx(k)}")
            elif r < 0.93:
                ops.append(rng.choice(["foreach_key", "foreach_value", "size"]))
            else:
                ops.append("it_new")
                for _ in range(rng.randint(3, 40)):
                    ops.append("it_next")
                    if rng.random() < 0.4:
                        ops.append(rng.choice(["it_remove", "it_remove_noout"]))
        ops += ["foreach_key", "foreach_value"]
        return ops

    def _comb(self, rng, plain=False):
        """p^depth, then p^i q for every i < depth (q sorts after p: right branches; some r before p: left ones)"""
        depth = rng.randint(120, 170)
        cm = rng.choice(["s", "s", "u", "r"])
        p, q, r = rng.choice([(b"a", b"b", b"A"), (b"m", b"\xe9", b"\x05"), (b"\x90", b"z", b"\x81"), (b"a", b"b", b"\xfa")])
        spine = p * depth
        branches = [p * i + q for i in range(depth)]
        branches += [p * i + r for i in rng.sample(range(depth), rng.randint(0, 30))]
        order = rng.choice(["asc", "desc", "shuffle"])
        if plain:
            cm, order = "s", "asc"
            spine, branches = b"a" * depth, [b"a" * i + b"b" for i in range(depth)]
        if order == "desc":
            branches.reverse()
        elif order == "shuffle":
            rng.shuffle(branches)
        keys = [spine] + branches if plain or rng.random() < 0.7 else branches[: depth // 2] + [spine] + branches[depth // 2:]
        fill = [f"add k={hx(k)} v={(i + 1) if rng.random() < 0.9 else rand_val(rng)}" for i, k in enumerate(keys)]
        return cm, fill, keys

    def _fan(self, rng):
        """130..200 different first bytes (1..255, the high half included), some with a second level fan"""
        firsts = rng.sample(range(1, 256), rng.randint(130, 200))
        if not any(c >= 0x80 for c in firsts):
            firsts[0] = 0x80
        order = rng.choice(["asc", "desc", "shuffle", "shuffle"])
        if order == "asc":
            firsts.sort()
        elif order == "desc":
            firsts.sort(reverse=True)
        keys = [bytes([c]) for c in firsts]
        for c in rng.sample(firsts, 25):
            keys += [bytes([c, d]) for d in rng.sample(range(1, 256), rng.randint(1, 6))]
        c0 = rng.choice(firsts)
        keys += [bytes([c0, d]) for d in rng.sample(range(1, 256), 140) if bytes([c0, d]) not in keys]
        cm = rng.choice(["s", "u", "r"])
        fill = [f"add k={hx(k)} v={(i + 1) if rng.random() < 0.9 else rand_val(rng)}" for i, k in enumerate(keys)]
        return cm, fill, keys

    def _deep(self, rng):
        """keys of length 300..420 sharing long prefixes; refused adds deep in the chain; branches along the spine"""
        L = rng.randint(300, 420)
        alpha = rng.choice([[0x61], [0x61, 0x62], list(range(1, 256)), [0x7f, 0x80, 0xff, 0x01]])
        P = bytes(rng.choice(alpha) for _ in range(L))
        keys = [P, P[: L // 2], P[: L - 1] + bytes([(P[-1] % 255) + 1]), P + b"zz", P[:1]]
        for i in rng.sample(range(1, L), 40):
            k = P[:i] + bytes([(P[i] + rng.randint(1, 254)) % 255 + 1]) + (b"" if rng.random() < 0.5 else b"tail")
            if k not in keys and not P.startswith(k):
                keys.append(k)
        if rng.random() < 0.5:
            rng.shuffle(keys)
        fill = []
        for i, k in enumerate(keys):
            if i < 6 or rng.random() < 0.15:       # refused somewhere along the new chain: everything is rolled back
                fill.append(f"add k={hx(k)} v=9 fail={rng.choice([1, 2, max(1, len(k) // 2), len(k), len(k) + 1])}")
            fill.append(f"add k={hx(k)} v={i + 1}")
        cm = rng.choice(["s", "s", "u"])
        return cm, fill, keys

    def _mixed(self, rng):
        """a comb, a fan below its spine's first node and one deep key in one table"""
        cm1, f1, k1 = self._comb(rng)
        _, f2, k2 = self._fan(rng)
        _, f3, k3 = self._deep(rng)
        keys, seen = [], set()
        for k in k1 + k2[:150] + k3[:12]:
            if k not in seen:
                seen.add(k); keys.append(k)
        fill = [f"add k={hx(k)} v={i + 1}" for i, k in enumerate(keys)]
        return cm1, fill, keys

    def near_miss(self, rng, present, fam):
        """a (probably absent) key close to a present one: proper prefix, extension, sibling character"""
        if present and rng.random() < 0.8:
            k = rng.choice(present)
            c = rng.random()
            if c < 0.35 and len(k) > 1:
                return k[:rng.randint(1, len(k) - 1)]      # never the empty prefix (X5)
            if c < 0.7:
                return k + bytes([rng.choice([0x61, 0x01, 0xff, 0x80])])
            return k[:-1] + bytes([(k[-1] % 255) + 1])
        return rand_key(rng, fam)

    def iter_program(self, rng, size_hint, early_remove=False):
        """it_new, then next / remove; a repeated it_remove for the same yielded element is rejected since
        the repair X7 (KEY_NOT_FOUND, inert) and is generated too; sometimes runs past the end, sometimes
        stops early; get/contains/size/foreach in between do not invalidate"""
        ops = ["it_new"]
        if early_remove and rng.random() < 0.3:
            ops.append("it_remove")                       # before the first next: KEY_NOT_FOUND
        steps = rng.randint(0, size_hint + 3)
        p_rm = rng.choice([0.0, 0.3, 0.6, 1.0])
        for _ in range(steps):
            ops.append("it_next")
            if rng.random() < p_rm:
                ops.append("it_remove" if rng.random() < 0.7 else "it_remove_noout")
                if rng.random() < 0.25:                   # repeated remove: rejected (X7)
                    ops.append("it_remove" if rng.random() < 0.5 else "it_remove_noout")
            if rng.random() < 0.1:
                ops.append(rng.choice(["foreach_key", "size", "foreach_value"]))
        return ops


def sparsify(rng, hist):
    """the same history as an obs=sparse session: `observe` every 5-15 operations and before destroy"""
    out = [hist[0] + " obs=sparse"]
    gap = rng.randint(5, 15)
    for op in hist[1:]:
        if op.startswith("destroy"):
            out.append("observe")
        elif gap <= 0:
            out.append("observe")
            gap = rng.randint(5, 15)
        out.append(op)
        gap -= 1
    return out


class TstGenSparse(TstGen):
    """about a third of the histories of every focus run in sparse observation mode"""

    def small_scope(self, tier, focus=None):
        rng = random.Random(20260930)
        return [sparsify(rng, h) if i % 3 == 1 else h for i, h in enumerate(TstGen.small_scope(self, tier, focus))]

    def random(self, rng, n, tier, focus=None):
        return [sparsify(rng, h) if rng.random() < 0.34 else h for h in TstGen.random(self, rng, n, tier, focus)]

    def fault_seeds(self, tier):
        rng = random.Random(7)
        seeds = TstGen.fault_seeds(self, tier)
        return seeds + [sparsify(rng, h) for h in seeds]


GEN = TstGenSparse()
