"""The guard translator: regenerates lean/CollectionsC/Generated/Guards.lean from /repo's current
sources on every run, so that the theorems of Properties/C16Guards.lean ("the model rejects exactly
when the C text's guard holds, with the status the C text returns") are re-checked against what the
code says now.  Editing a guard (`index >= ar->size` -> `index > ar->size`, dropping a disjunct,
comparing with another field, returning another status) changes the generated definition and the
theorem about that function stops building.

For every entry of TABLE the translator

 * finds the function definition in the comment-stripped source text,
 * walks the top-level statements of its body from the top.  Only side-effect-free statements may
   stand in front of the guard: declarations without initialiser or initialised with `NULL`,
   `enum cc_stat s = <helper>(args);`, and `if (<cond>) return <expr>;` (with or without braces,
   no `else`).  Anything else is reported as a problem,
 * an `if (<cond>) return CC_ERR_...;` is an *error guard*; the `which`-th one (default: the first)
   is the guard of the entry.  Every earlier `if (<cond>) return <something else>;` is an *early
   return* (`return CC_OK`, `return cc_array_add(ar, element)`); their disjunction is `<f>_bypass`
   and `<f>_rejects := !bypass && guard`,
 * when the status of a helper call is propagated (`if (s != CC_OK) return s;` or
   `if (s == CC_OK) {...} return s;`) the guard is the helper's first error guard with the helper's
   parameters replaced by the call's arguments (`get_node_at` of cc_list.c / cc_slist.c),
 * translates `<cond>` with a small expression translator (`||`, `&&`, `!`, comparisons, `+`, `-`,
   parentheses, integer literals, parameters, `ptr->field`) into a `Bool`-valued Lean definition
   over `Nat` arguments.  `size_t` subtraction is `wsub` (wrap-around), addition `wadd`.
   `ptr->field` of the first container parameter becomes the argument `field`, of the second
   `field2`; a bare pointer parameter (`!list`) becomes a `Nat` argument (its address).

If a guard cannot be found or translated the definition is `false` and a problem string is
returned; the translator never raises.  The output is deterministic (no timestamps).
"""
import re, sys
from pathlib import Path

# (lean/C name, source file, {options}) ; options: which = index of the error guard (0 = first)
TABLE = [
    ("cc_array_add_at", "src/cc_array.c", {}),
    ("cc_array_replace_at", "src/cc_array.c", {}),
    ("cc_array_swap_at", "src/cc_array.c", {}),
    ("cc_array_remove_at", "src/cc_array.c", {}),
    ("cc_array_get_at", "src/cc_array.c", {}),
    ("cc_array_subarray", "src/cc_array.c", {}),
    ("cc_array_sized_add_at", "src/sized/cc_array_sized.c", {}),
    ("cc_array_sized_replace_at", "src/sized/cc_array_sized.c", {}),
    ("cc_array_sized_swap_at", "src/sized/cc_array_sized.c", {}),
    ("cc_array_sized_remove_at", "src/sized/cc_array_sized.c", {}),
    ("cc_array_sized_get_at", "src/sized/cc_array_sized.c", {}),
    ("cc_array_sized_peek", "src/sized/cc_array_sized.c", {}),
    ("cc_array_sized_subarray", "src/sized/cc_array_sized.c", {}),
    ("cc_deque_add_at", "src/cc_deque.c", {}),
    ("cc_deque_replace_at", "src/cc_deque.c", {}),
    ("cc_deque_remove_at", "src/cc_deque.c", {}),
    ("cc_deque_get_at", "src/cc_deque.c", {}),
    ("cc_list_add_at", "src/cc_list.c", {}),
    ("cc_list_add_all_at", "src/cc_list.c", {}),
    ("cc_list_splice_at", "src/cc_list.c", {}),
    ("cc_list_remove_at", "src/cc_list.c", {}),
    ("cc_list_replace_at", "src/cc_list.c", {}),
    ("cc_list_get_at", "src/cc_list.c", {}),
    ("cc_list_sublist", "src/cc_list.c", {}),
    ("cc_slist_add_at", "src/cc_slist.c", {}),
    ("cc_slist_add_all_at", "src/cc_slist.c", {}),
    ("cc_slist_splice_at", "src/cc_slist.c", {}),
    ("cc_slist_remove_at", "src/cc_slist.c", {}),
    ("cc_slist_replace_at", "src/cc_slist.c", {}),
    ("cc_slist_get_at", "src/cc_slist.c", {}),
    ("cc_slist_sublist", "src/cc_slist.c", {}),
]
# static helpers whose status may be propagated by a public function
HELPERS = {"get_node_at"}

STATUS_FALLBACK = None   # filled lazily from the compiler when Constants.lean is not there


class GuardError(Exception):
    pass


# ---- C text -----------------------------------------------------------------

def strip_comments(txt):
    def repl(m):
        s = m.group(0)
        if s.startswith("/"):
            return " " + "\n" * s.count("\n")
        return s
    return re.sub(r'//[^\n]*|/\*.*?\*/|"(?:\\.|[^"\\])*"|\'(?:\\.|[^\'\\])*\'', repl, txt, flags=re.S)


def match_close(s, i, op, cl):
    """s[i] == op; index of the matching closing bracket"""
    depth = 0
    for j in range(i, len(s)):
        if s[j] == op:
            depth += 1
        elif s[j] == cl:
            depth -= 1
            if depth == 0:
                return j
    raise GuardError("unbalanced " + op)


def find_function(txt, fname):
    """(parameter text, body text) of the definition of fname in comment-stripped text"""
    for m in re.finditer(r"\b" + re.escape(fname) + r"\s*\(", txt):
        op = m.end() - 1
        cp = match_close(txt, op, "(", ")")
        rest = txt[cp + 1:]
        k = len(rest) - len(rest.lstrip())
        if k < len(rest) and rest[k] == "{":
            # a definition, not a call: what precedes the name must be a type, i.e. end in a word or `*`
            before = txt[:m.start()].rstrip()
            if not before or not re.search(r"[\w*]$", before) or re.search(r"\b(return|else)$", before):
                continue
            ob = cp + 1 + k
            cb = match_close(txt, ob, "{", "}")
            return txt[op + 1:cp], txt[ob + 1:cb]
    raise GuardError(f"definition of {fname} not found")


def parse_params(ptxt):
    """[(name, type text, is pointer)]"""
    out = []
    for part in split_top(ptxt, ","):
        part = " ".join(part.split())
        if part in ("", "void"):
            continue
        m = re.match(r"^(.*?)(\w+)$", part)
        if not m:
            raise GuardError("cannot parse parameter " + part)
        ty = m.group(1).strip()
        out.append((m.group(2), ty, "*" in ty))
    return out


def split_top(s, sep):
    out, depth, cur = [], 0, ""
    for ch in s:
        if ch in "([{":
            depth += 1
        elif ch in ")]}":
            depth -= 1
        if ch == sep and depth == 0:
            out.append(cur)
            cur = ""
        else:
            cur += ch
    out.append(cur)
    return out


def statements(body):
    """top-level statements of a block, as a generator of
       ("if", cond, consequent text, has_else) | ("stmt", text)"""
    i, n = 0, len(body)
    while True:
        while i < n and body[i].isspace():
            i += 1
        if i >= n:
            return
        m = re.match(r"if\s*\(", body[i:])
        if m:
            op = i + m.end() - 1
            cp = match_close(body, op, "(", ")")
            cond = body[op + 1:cp]
            j = cp + 1
            while j < n and body[j].isspace():
                j += 1
            if j < n and body[j] == "{":
                cb = match_close(body, j, "{", "}")
                cons, end = body[j + 1:cb], cb + 1
            elif re.match(r"(if|for|while|do|switch)\b", body[j:]):
                raise GuardError("nested control statement as the consequent of an if")
            else:
                e = body.index(";", j) if ";" in body[j:] else n - 1
                cons, end = body[j:e + 1], e + 1
            has_else = re.match(r"\s*else\b", body[end:]) is not None
            yield ("if", cond.strip(), cons.strip(), has_else)
            i = end
            continue
        if re.match(r"(for|while|do|switch)\b", body[i:]) or body[i] == "{":
            yield ("stmt", body[i:i + 40].split("\n")[0].strip() + " ...")
            return
        e = body.find(";", i)
        if e < 0:
            yield ("stmt", body[i:].strip())
            return
        yield ("stmt", " ".join(body[i:e + 1].split()))
        i = e + 1


# ---- expression translator ----------------------------------------------------

TOK = re.compile(r"\s*(\d+[uUlL]*|[A-Za-z_]\w*|->|\|\||&&|>=|<=|==|!=|[-+!()<>&*/%.\[\]?:,~^|=])")


def tokenize(s):
    out, pos = [], 0
    s = s.strip()
    while pos < len(s):
        m = TOK.match(s, pos)
        if not m:
            raise GuardError("cannot tokenize: " + s[pos:pos + 20])
        out.append(m.group(1))
        pos = m.end()
    return out


class Parser:
    """C expression -> AST.  ("lit", n) ("var", name) ("field", ptr, field) ("not", e)
    ("bin", op, a, b) with op in || && == != < <= > >= + -"""

    def __init__(self, toks):
        self.t, self.i = toks, 0

    def peek(self):
        return self.t[self.i] if self.i < len(self.t) else None

    def eat(self, x=None):
        t = self.peek()
        if x is not None and t != x:
            raise GuardError(f"expected {x} got {t}")
        self.i += 1
        return t

    def parse(self):
        e = self.lor()
        if self.peek() is not None:
            raise GuardError("unsupported token " + self.peek())
        return e

    def lor(self):
        a = self.land()
        while self.peek() == "||":
            self.eat()
            a = ("bin", "||", a, self.land())
        return a

    def land(self):
        a = self.eq()
        while self.peek() == "&&":
            self.eat()
            a = ("bin", "&&", a, self.eq())
        return a

    def eq(self):
        a = self.rel()
        while self.peek() in ("==", "!="):
            op = self.eat()
            a = ("bin", op, a, self.rel())
        return a

    def rel(self):
        a = self.add()
        while self.peek() in ("<", ">", "<=", ">="):
            op = self.eat()
            a = ("bin", op, a, self.add())
        return a

    def add(self):
        a = self.unary()
        while self.peek() in ("+", "-"):
            op = self.eat()
            a = ("bin", op, a, self.unary())
        return a

    def unary(self):
        if self.peek() == "!":
            self.eat()
            return ("not", self.unary())
        return self.prim()

    def prim(self):
        t = self.eat()
        if t is None:
            raise GuardError("unexpected end of expression")
        if t == "(":
            e = self.lor()
            self.eat(")")
            return e
        if re.match(r"\d", t):
            body = re.sub(r"[uUlL]+$", "", t)
            if re.match(r"^0[0-7]+$", body):
                return ("lit", int(body, 8))          # C reads a leading 0 as octal
            if re.match(r"^0\d+$", body):
                raise GuardError(f"malformed octal literal {t}")
            return ("lit", int(body))
        if re.match(r"[A-Za-z_]\w*$", t):
            if self.peek() == "->":
                self.eat()
                f = self.eat()
                if f is None or not re.match(r"[A-Za-z_]\w*$", f):
                    raise GuardError("field name expected after ->")
                if self.peek() == "->":
                    raise GuardError("nested field access")
                return ("field", t, f)
            if self.peek() == "(":
                raise GuardError("function call in a guard: " + t)
            return ("var", t)
        raise GuardError("unsupported token " + t)


def parse_expr(s):
    return Parser(tokenize(s)).parse()


def subst(e, env):
    """replace ("var", p) by env[p] (an AST) where present; `p->f` with p bound to a variable q
    becomes `q->f`"""
    k = e[0]
    if k == "var":
        return env.get(e[1], e)
    if k == "field":
        if e[1] in env:
            r = env[e[1]]
            if r[0] != "var":
                raise GuardError(f"helper dereferences {e[1]} but the call passes a non-variable")
            return ("field", r[1], e[2])
        return e
    if k == "not":
        return ("not", subst(e[1], env))
    if k == "bin":
        return ("bin", e[1], subst(e[2], env), subst(e[3], env))
    return e


REPO_FOR_STRUCTS = [None]     # set by generate(): where the headers with the typedefs / structs are


def function_region(txt, fname):
    """the text of the (single) definition of fname, from its name to the closing brace"""
    found = []
    for m in re.finditer(r"\b" + re.escape(fname) + r"\s*\(", txt):
        op = m.end() - 1
        cp = match_close(txt, op, "(", ")")
        rest = txt[cp + 1:]
        k = len(rest) - len(rest.lstrip())
        if k < len(rest) and rest[k] == "{":
            before = txt[:m.start()].rstrip()
            if not before or not re.search(r"[\w*]$", before) or re.search(r"\b(return|else)$", before):
                continue
            cb = match_close(txt, cp + 1 + k, "{", "}")
            found.append(txt[m.start():cb + 1])
    if len(found) > 1:
        raise GuardError(f"{fname} is defined {len(found)} times in the file (conditional compilation?)")
    if not found:
        raise GuardError(f"definition of {fname} not found")
    return found[0]


def check_no_preprocessor(region, txt, what, macros=True):
    """no directive inside the region, no macro of the file used in it"""
    d = re.search(r"^[ \t]*#[ \t]*\w+", region, re.M)
    if d:
        raise GuardError(f"preprocessor directive `{d.group(0).strip()}` inside {what}")
    if not macros:
        return
    for name in re.findall(r"^[ \t]*#[ \t]*define[ \t]+(\w+)", txt, re.M):
        if re.search(r"\b" + re.escape(name) + r"\b", region):
            raise GuardError(f"the macro `{name}` of the file is used inside {what}")


def struct_body(txt, tyname):
    """the body of the struct a container parameter of type `tyname *` points to"""
    import gen_funcs
    repo = REPO_FOR_STRUCTS[0]
    tag = None
    m = re.match(r"^struct\s+(\w+)$", tyname)
    if m:
        tag = m.group(1)
    elif repo is not None:
        tag = gen_funcs.typedefs_of(repo, None).get(tyname)
    if tag is None:
        raise GuardError(f"no struct known for the type {tyname}")
    t = gen_funcs.struct_text(repo, txt, tag) if repo is not None else txt
    m = re.search(r"\bstruct\s+" + re.escape(tag) + r"\s*\{", t)
    if not m:
        raise GuardError(f"struct {tag} not found")
    cb = match_close(t, m.end() - 1, "{", "}")
    body = t[m.end():cb]
    check_no_preprocessor(body, t, f"struct {tag}")
    check_no_preprocessor(body, txt, f"struct {tag}")
    return tag, body


class Ctx:
    """names of one function: parameters, which are containers, which fields are size_t"""

    def __init__(self, fname, params, src_txt):
        self.fname, self.params, self.src = fname, params, src_txt
        self.containers = [n for n, ty, ptr in params if ptr and re.search(r"\bCC_\w+", ty) and ty.count("*") == 1]

    def ptype(self, name):
        for n, ty, ptr in self.params:
            if n == name:
                return ty, ptr
        return None

    def lean_var(self, e):
        """Lean argument name of a leaf + sort key"""
        if e[0] == "var":
            pt = self.ptype(e[1])
            if pt is None:
                raise GuardError(f"unknown identifier {e[1]}")
            ty, ptr = pt
            names = [n for n, _, _ in self.params]
            if ptr:
                return lean_ident(e[1]), (0, names.index(e[1]), 0)
            if not re.search(r"\bsize_t\b", ty):
                raise GuardError(f"parameter {e[1]} has type '{ty}', only size_t is translated")
            return lean_ident(e[1]), (1, names.index(e[1]), 0)
        if e[0] == "field":
            if e[1] not in self.containers:
                raise GuardError(f"{e[1]}->{e[2]}: {e[1]} is not a container parameter")
            ty = " ".join(w for w in self.ptype(e[1])[0].replace("*", " ").split() if w != "const")
            tag, body = struct_body(self.src, ty)
            decls = [d for d in body.split(";") if "(" not in d]      # data fields, not function pointers
            if not any(re.match(r"^\s*(?:const\s+)?size_t\b[^;]*\b" + re.escape(e[2]) + r"\b", d) for d in decls):
                raise GuardError(f"field {e[2]} is not declared `size_t` in struct {tag}")
            k = self.containers.index(e[1])
            return lean_ident(e[2] + ("" if k == 0 else str(k + 1))), (2, k, e[2])
        raise GuardError("not a leaf")


def leaves(e, acc):
    if e[0] in ("var", "field"):
        if e not in acc:
            acc.append(e)
    elif e[0] == "not":
        leaves(e[1], acc)
    elif e[0] == "bin":
        leaves(e[2], acc)
        leaves(e[3], acc)
    return acc


CMP = {"==": "=", "!=": "≠", "<": "<", "<=": "≤", ">": ">", ">=": "≥"}
# C identifiers that are reserved words of Lean get a trailing underscore
LEAN_RESERVED = {"from", "at", "in", "do", "then", "else", "fun", "let", "have", "show", "end", "open", "where", "with",
                 "match", "if", "by", "for", "return", "at", "using", "def", "theorem", "structure", "instance",
                 "Type", "Prop", "Sort", "namespace", "section", "import", "mutual", "deriving", "extends", "class",
                 "inductive", "example", "axiom", "variable", "universe", "macro", "syntax", "notation", "infix",
                 "prefix", "postfix", "private", "protected", "partial", "unsafe", "noncomputable", "nomatch",
                 "calc", "forall", "exists", "wsub", "wadd", "decide", "true", "false", "not", "and", "or", "id"}


def lean_ident(n):
    return n + "_" if n in LEAN_RESERVED else n


def emit(e, ctx):
    """AST -> (lean text, sort) with sort in {"B", "N"}"""
    k = e[0]
    if k == "lit":
        return str(e[1]), "N"
    if k in ("var", "field"):
        return ctx.lean_var(e)[0], "N"
    if k == "not":
        t, s = emit(e[1], ctx)
        return (f"decide ({t} = 0)", "B") if s == "N" else (f"!({t})", "B")
    op, a, b = e[1], e[2], e[3]
    ta, sa = emit(a, ctx)
    tb, sb = emit(b, ctx)
    if op in ("||", "&&"):
        if sa == "N":
            ta = f"decide ({ta} ≠ 0)"
        if sb == "N":
            tb = f"decide ({tb} ≠ 0)"
        return f"({ta} {op} {tb})", "B"
    if op in CMP:
        if sa != "N" or sb != "N":
            raise GuardError("comparison of a truth value")
        return f"decide ({ta} {CMP[op]} {tb})", "B"
    if op in ("+", "-"):
        if sa != "N" or sb != "N":
            raise GuardError("arithmetic on a truth value")
        return (f"(wsub {ta} {tb})" if op == "-" else f"(wadd {ta} {tb})"), "N"
    raise GuardError("unsupported operator " + op)


def emit_bool(e, ctx):
    t, s = emit(e, ctx)
    return t if s == "B" else f"decide ({t} ≠ 0)"


def arglist(exprs, ctx):
    ls = []
    for e in exprs:
        leaves(e, ls)
    named = {}
    for l in ls:
        n, key = ctx.lean_var(l)
        named[n] = key
    return [n for n, _ in sorted(named.items(), key=lambda kv: (kv[1][0], kv[1][1], ls_index(ls, ctx, kv[0])))]


def ls_index(ls, ctx, name):
    for i, l in enumerate(ls):
        if ctx.lean_var(l)[0] == name:
            return i
    return 0


# ---- guard extraction -----------------------------------------------------------

DECL = re.compile(r"^(?:const\s+)?(enum\s+\w+|struct\s+\w+|\w+)(?:\s+const)?(?:\s+|\s*\*+\s*)(\w+)\s*(?:=\s*(.*?))?\s*;$")
RET = re.compile(r"^return\s+(.*?)\s*;$", re.S)


def extract(txt, fname, which=0, depth=0):
    """-> dict(ctx, guard=AST, guard_src, status, bypass=[(AST, src)], via=str|None)"""
    ptxt, body = find_function(txt, fname)
    check_no_preprocessor(function_region(txt, fname), txt, fname, macros=False)
    check_no_preprocessor(ptxt, txt, f"the parameter list of {fname}")
    ctx = Ctx(fname, parse_params(ptxt), txt)
    bypass, nerr = [], 0
    pending = None         # (status variable, helper name, [argument texts]) after `s = helper(...)`
    st = statements(body)
    for s in st:
        if s[0] == "stmt":
            text = s[1]
            if pending:
                raise GuardError(f"the status of {pending[1]} is not propagated right after the call (found `{text}`)")
            m = DECL.match(text)
            if m and m.group(1) not in ("return", "goto", "else"):
                ty, var, init = m.group(1), m.group(2), m.group(3)
                if init is None or init == "NULL":
                    continue
                c = re.match(r"^(\w+)\s*\((.*)\)$", init, re.S)
                if c and c.group(1) in HELPERS and ty.replace(" ", "") == "enumcc_stat":
                    if depth > 0:
                        raise GuardError("helper calling a helper")
                    pending = (var, c.group(1), [a.strip() for a in split_top(c.group(2), ",")])
                    continue
            raise GuardError(f"statement in front of the guard that is not a plain declaration or `if (..) return ..;`: `{text}`")
        _, cond, cons, has_else = s
        if pending:
            var, helper, args = pending
            c = re.sub(r"\s+", "", cond)
            if c == f"{var}!=CC_OK":
                r = RET.match(cons)
                if has_else or not r or r.group(1) != var:
                    raise GuardError(f"`if ({cond})` does not return {var}")
            elif c == f"{var}==CC_OK":
                nxt = next(st, None)
                if has_else or nxt is None or nxt[0] != "stmt" or nxt[1] != f"return {var};":
                    raise GuardError(f"`if ({cond}) ...` is not followed by `return {var};`")
            else:
                raise GuardError(f"the status of {helper} is tested by `{cond}`")
            h = extract(txt, helper, 0, depth + 1)
            if h["bypass"]:
                raise GuardError(f"{helper} has early returns in front of its guard")
            hparams = [n for n, _, _ in h["ctx"].params]
            if len(hparams) != len(args):
                raise GuardError(f"{helper} called with {len(args)} arguments, has {len(hparams)} parameters")
            used = {l[1] for l in leaves(h["guard"], [])}
            env = {p: parse_expr(a) for p, a in zip(hparams, args) if p in used}
            if nerr == which:
                return dict(ctx=ctx, guard=subst(h["guard"], env), guard_src=h["guard_src"], status=h["status"],
                            bypass=bypass, via=f"{helper}({', '.join(args)})")
            nerr += 1
            pending = None
            continue
        if has_else:
            raise GuardError(f"`if ({cond})` with an else branch in front of the guard")
        r = RET.match(cons)
        if not r:
            raise GuardError(f"`if ({cond})` in front of the guard does something other than return")
        val = " ".join(r.group(1).split())
        src = f"if ({' '.join(cond.split())}) return {val};"
        if re.match(r"^CC_ERR_\w+$", val):
            if nerr == which:
                return dict(ctx=ctx, guard=parse_expr(cond), guard_src=src, status=val, bypass=bypass, via=None)
            nerr += 1
            # an earlier error guard: when it fires this one is not reached
            bypass.append((parse_expr(cond), src))
        else:
            bypass.append((parse_expr(cond), src))
    raise GuardError("no `if (..) return CC_ERR_..;` at the top of the function")


# ---- status codes ------------------------------------------------------------------

def status_values(repo, constants_path):
    vals = {}
    p = Path(constants_path)
    if p.exists():
        for m in re.finditer(r"^def (CC_\w+) : Nat := (\d+)$", p.read_text(), re.M):
            vals[m.group(1)] = int(m.group(2))
    if "CC_ERR_OUT_OF_RANGE" not in vals:
        try:
            import gen_constants
            items = [t for t in gen_constants.NUMERIC if t[0].startswith("CC_")]
            vals.update({k: v for k, v in gen_constants.probe(str(repo), items).items() if v is not None})
        except Exception:
            pass
    return vals


# ---- output -------------------------------------------------------------------------

HEADER = """-- GENERATED by tools/gen_guards.py from the current /repo sources. Do not edit.
/-! The argument guards of the indexed / ranged public functions, translated from the C text.
`<f>_guard` is the condition of the `if (...) return CC_ERR_...;` statement, `<f>_guard_status` the
numeric value of the status it returns, `<f>_bypass` (where present) the disjunction of the
`if (...) return ...;` statements in front of it and `<f>_rejects = !bypass && guard`.
Arguments are `Nat`s: `size_t` parameters by name, `ptr->field` of the first container parameter as
`field` (of the second as `field2`), a bare pointer as its address. -/
namespace CC.Gen
/-- `a - b` on `size_t` (unsigned wrap-around) -/
def wsub (a b : Nat) : Nat := if b ≤ a then a - b else 2^64 + a - b
/-- `a + b` on `size_t` (unsigned wrap-around) -/
def wadd (a b : Nat) : Nat := (a + b) % 2^64
"""


def sig(args):
    return f" ({' '.join(args)} : Nat)" if args else ""


def one_entry(repo, name, f, opts, status):
    """lean lines for one function, problems"""
    lines, problems = [], []
    try:
        p = Path(repo, f)
        if not p.exists():
            raise GuardError(f"{f} does not exist")
        txt = strip_comments(p.read_text(errors="replace"))
        g = extract(txt, name, opts.get("which", 0))
        # the translated text (the guard and what stands in front of it) must not use a macro of the file
        check_no_preprocessor(" ".join([g["guard_src"]] + [b for _, b in g["bypass"]]), txt, f"the guard of {name}")
        ctx = g["ctx"]
        gargs = arglist([g["guard"]], ctx)
        gtxt = emit_bool(g["guard"], ctx)
        st = status.get(g["status"])
        if st is None:
            raise GuardError(f"no numeric value for {g['status']}")
        doc = f"`{name}` (`{f}`): `{g['guard_src']}`"
        if g["via"]:
            doc += f" — the guard stands in the static helper, reached through `{g['via']}` whose status is returned unchanged"
        out = [f"/-- {doc} -/", f"def {name}_guard{sig(gargs)} : Bool := {gtxt}"]
        if g["bypass"]:
            bargs = arglist([b for b, _ in g["bypass"]], ctx)
            btxt = " || ".join(emit_bool(b, ctx) for b, _ in g["bypass"])
            out += [f"/-- `{name}`: returns in front of the guard: " + " ".join(f"`{s}`" for _, s in g["bypass"]) + " -/",
                    f"def {name}_bypass{sig(bargs)} : Bool := {btxt}"]
            rargs = arglist([b for b, _ in g["bypass"]] + [g["guard"]], ctx)
            out += [f"/-- `{name}`: the call is turned away by the guard (no earlier return taken, guard true) -/",
                    f"def {name}_rejects{sig(rargs)} : Bool := !({name}_bypass {' '.join(bargs)}) && {name}_guard {' '.join(gargs)}".replace("  ", " ")]
        out += [f"/-- `{name}`: the guard returns `{g['status']}` -/", f"def {name}_guard_status : Nat := {st}"]
        # every `return CC_ERR_...;` of the function (and of the helper whose status it hands on): an added or
        # removed rejection changes this number
        nret = len(re.findall(r"\breturn\s+CC_ERR_\w+\s*;", function_region(txt, name)))
        if g["via"]:
            nret += len(re.findall(r"\breturn\s+CC_ERR_\w+\s*;", function_region(txt, g["via"].split("(")[0])))
        out += [f"/-- `{name}`: the number of `return CC_ERR_…;` statements in its text"
                + (" and in the helper's" if g["via"] else "") + " -/",
                f"def {name}_error_returns : Nat := {nret}"]
        lines = out
    except GuardError as ex:
        problems.append(f"gen_guards: {name} ({f}): {ex}")
    except Exception as ex:   # never crash the build step
        problems.append(f"gen_guards: {name} ({f}): internal error {type(ex).__name__}: {ex}")
    if problems:
        why = problems[0].replace("-/", "- /").replace("\n", " ")
        lines = [f"/-- NOT TRANSLATED — {why} -/", f"def {name}_guard : Bool := false",
                 f"/-- NOT TRANSLATED -/", f"def {name}_guard_status : Nat := 0",
                 f"/-- NOT TRANSLATED -/", f"def {name}_error_returns : Nat := 0"]
    return lines, problems


def generate(repo, constants_path=None):
    repo = str(repo)
    REPO_FOR_STRUCTS[0] = repo
    status = status_values(repo, constants_path or "/nonexistent")
    lines, problems = [HEADER.rstrip("\n")], []
    for name, f, opts in TABLE:
        l, p = one_entry(repo, name, f, opts, status)
        lines += l
        problems += p
    lines.append("end CC.Gen")
    return "\n".join(lines) + "\n", problems


def write(repo, path):
    path = Path(path)
    try:
        txt, problems = generate(repo, path.parent / "Constants.lean")
    except Exception as ex:
        return [f"gen_guards: internal error {type(ex).__name__}: {ex}"]
    if not path.exists() or path.read_text() != txt:
        path.write_text(txt)
    return problems


if __name__ == "__main__":
    repo = sys.argv[1] if len(sys.argv) > 1 else "/repo"
    txt, problems = generate(repo, Path(__file__).resolve().parent.parent / "lean" / "CollectionsC" / "Generated" / "Constants.lean")
    print(txt)
    for p in problems:
        print("PROBLEM:", p, file=sys.stderr)
