"""History generators for the two linked lists (`list` = src/cc_list.c, `slist` = src/cc_slist.c).

Vocabulary (see harness/shim_list.c, harness/shim_slist.c):
  new [o=k] [obs=sparse] | new_default [obs=sparse] | observe | destroy | destroy_cb | drop o=k | drop_cb o=k
  add v | add_first v | add_last v | add_at v idx=i
  add_all from=j | add_all_at from=j idx=i | splice from=j | splice_at from=j idx=i
  remove v | remove_at idx=i | remove_first | remove_last | remove_all | remove_all_cb | replace_at v idx=i   (each [noout=1])
  get_first | get_last | get_at idx=i | size | contains v | contains_value v cmp=num|key | index_of v [cmp=num|key]
  reverse | filter_mut | foreach | to_array | reduce (list only)
  sort | sort_in_place cmp=num|key (list only)
  mk_sub b=.. e=.. to=k | mk_copy_shallow to=k | mk_copy_deep to=k | mk_filter to=k
  it_new [o=k] it_next it_remove it_add v it_replace v it_index ; dit_* (list only) ; zit_new o=k o2=j zit_next zit_add v w ...

focus=None emits only the operations named in C04 (no iterators, no mk_*, no sort*, no fail=);
"iter" adds iterator programs, "derived" mk_* with follow-up operations on both lists, "sort" sort*,
"reject" boundary/absent arguments, "growth" append-dominated, "fault" allocating operations (no
fail=), "all" everything, "refuse" = "all" plus random `fail=k` (used by the builders' own runs).
Iterator programs respect the documented contract: mutators only after a successful next (`add` only while the
yielded element has not been removed); any number of `add`s may follow one next (defect L6), optionally closed
by a `remove`.
"""
import itertools, random

SIZE_MAX = 2**64 - 1


def val(rng):
    r = rng.random()
    if r < 0.06:
        return 0                      # NULL element
    if r < 0.48:
        return rng.randint(1, 8)      # duplicates likely
    if r < 0.50:
        # pre-images of NULL (and its neighbours) under the harness copy callback v -> v + 1000 (mod 2^64): a deep copy whose
        # image contains NULL is a legal deep copy (a library that treats `cp() == NULL` as a failure breaks on it)
        return rng.choice([SIZE_MAX - 999, SIZE_MAX - 999, SIZE_MAX - 1000, SIZE_MAX - 998])
    if r < 0.62:
        # CONVENTIONS Addendum 3: partners of the small values that differ from them by exactly 2^31, 2^32, 2^63, and
        # values next to 2^64-1 (a comparison that truncates a difference to int / 32 bits calls them equal or
        # orders them wrongly)
        b = rng.randint(1, 8)
        return rng.choice([b + 2**31, b + 2**32, b + 2**32, b + 2**63, b + 2**63 + 2**32, SIZE_MAX - b, SIZE_MAX, SIZE_MAX - 1,
                           2**63, 2**63 - 1, 2**32, 2**31])
    return rng.randint(1, 99)


NOOUT_OPS = {"remove", "remove_at", "remove_first", "remove_last", "replace_at", "it_remove", "it_replace", "dit_remove",
             "dit_replace", "zit_remove", "zit_replace"}


class Sim:
    """rough Python shadow of the slots, only used to pick mostly-valid arguments"""

    def __init__(self):
        self.s = {}
        self.ctor = "new"      # "new_default" for histories on the C library allocator
        self.mix = False       # slots other than 0 are built with the *other* constructor

    def ctor_for(self, k):
        if k == 0 or not self.mix:
            return self.ctor
        return "new" if self.ctor == "new_default" else "new_default"

    def live(self):
        return sorted(self.s)

    def free_slot(self):
        for k in range(4):
            if k not in self.s:
                return k
        return None


def zip_same_list_excluded(o, o2):
    """A zip iterator over the SAME list (`zit_new o=k o2=k`) is kept out of every generator stream: the library
    misbehaves there (known finding KF-list-zip-same-list: zip remove unlinks and frees the one node twice; the slist
    zip add loses one of the two new nodes and over-counts `size`).  Witnesses: corpus/{list,slist}/defect_zip_same_list_*.ops.
    add_all(l, l) / add_all_at(l, l, i) aliasing is legal and IS generated."""
    return o == o2


class LinkedGen:
    def __init__(self, name, dbl):
        self.name = name
        self.dbl = dbl          # doubly linked list: dit_, reduce, sort_in_place, index_of cmp, past-the-end bulk index

    # ------------------------------------------------------------------ helpers
    def idx_choice(self, rng, n, reject=False):
        cands = [0, 1, n // 2, max(n - 1, 0), n]
        if reject or rng.random() < 0.12:
            cands += [n + 1, 2**31, 2**63, SIZE_MAX - 1, SIZE_MAX, n, max(n - 1, 0)]
            return rng.choice(cands)
        if n > 0 and rng.random() < 0.75:
            return rng.randrange(n)
        return rng.choice(cands)

    def core_op(self, rng, sim, k, reject=False, grow=False):
        """one C04 operation on slot k; updates the shadow"""
        l = sim.s[k]
        n = len(l)
        o = f" o={k}" if k else ""
        r = rng.random()
        if grow or n == 0:
            p_add = 0.8
        elif n > 12:
            p_add = 0.25
        else:
            p_add = 0.45
        if r < p_add:
            v = val(rng)
            c = rng.choice(["add", "add_first", "add_last", "add_at", "add_at"])
            if c == "add_at":
                i = self.idx_choice(rng, n, reject)
                if i < n:
                    l.insert(i, v)
                return f"add_at {v} idx={i}{o}"
            if c == "add_first":
                l.insert(0, v)
            else:
                l.append(v)
            return f"{c} {v}{o}"
        r = rng.random()
        if r < 0.38:
            c = rng.choice(["remove", "remove_at", "remove_at", "remove_first", "remove_last"])
            if c == "remove":
                v = rng.choice(l) if l and rng.random() < (0.5 if reject else 0.8) else val(rng)
                if v in l:
                    l.remove(v)
                return f"remove {v}{o}"
            if c == "remove_at":
                i = self.idx_choice(rng, n, reject)
                if i < n:
                    del l[i]
                return f"remove_at idx={i}{o}"
            if c == "remove_first":
                if l:
                    del l[0]
            elif l:
                del l[-1]
            return f"{c}{o}"
        if r < 0.46:
            v = val(rng)
            i = self.idx_choice(rng, n, reject)
            if i < n:
                l[i] = v
            return f"replace_at {v} idx={i}{o}"
        if r < 0.60:
            c = rng.choice(["get_first", "get_last", "get_at", "get_at", "size"])
            if c == "get_at":
                return f"get_at idx={self.idx_choice(rng, n, reject)}{o}"
            return f"{c}{o}"
        if r < 0.72:
            v = rng.choice(l) if l and rng.random() < 0.7 else val(rng)
            c = rng.choice(["contains", "contains_value", "index_of"])
            if c == "contains":
                return f"contains {v}{o}"
            if c == "index_of" and not self.dbl:
                return f"index_of {v}{o}"
            return f"{c} {v} cmp={rng.choice(['num', 'key'])}{o}"
        if r < 0.80:
            l.reverse()
            return f"reverse{o}"
        if r < 0.86:
            if l:
                l[:] = [x for x in l if x % 2 == 0]
            return f"filter_mut{o}"
        if r < 0.92:
            return rng.choice(["foreach", "to_array"]) + o
        if r < 0.96:
            c = rng.choice(["remove_all", "remove_all_cb"])
            del l[:]
            return f"{c}{o}"
        return f"size{o}"

    def bulk_op(self, rng, sim, reject=False):
        """two-list operation; creates the second list when needed"""
        out = []
        live = sim.live()
        if len(live) < 2:
            k = sim.free_slot()
            sim.s[k] = []
            ctor = sim.ctor_for(k)
            out.append(f"{ctor} o={k}" if k else ctor)
            for _ in range(rng.choice([0, 1, 2, 3, 5])):
                v = val(rng)
                sim.s[k].append(v)
                out.append(f"add {v}" + (f" o={k}" if k else ""))
            live = sim.live()
        a, b = rng.sample(live, 2)
        # aliasing: add_all(l, l) / add_all_at(l, l, i) are legal calls (the list is doubled); splice(l, l) is not
        alias = rng.random() < 0.12
        if alias:
            b = a
        la, lb = sim.s[a], sim.s[b]
        # splice moves the nodes themselves, so it is only meaningful between lists on the same allocator
        c = rng.choice(["add_all", "add_all_at"] if (sim.mix or alias) else ["add_all", "add_all_at", "splice", "splice_at"])
        o = f" o={a}" if a else ""
        if c.startswith("add_all") and len(la) + len(lb) > 64:
            # repeated copies double the sizes; keep the lists far below the shims' log capacity
            del la[:]
            out.append("remove_all" + o)
        if c in ("add_all_at", "splice_at"):
            i = self.idx_choice(rng, len(la), reject)
            if rng.random() < 0.3:
                i = len(la)
            ok = lb and (i <= len(la) if self.dbl else i < len(la))
            if ok:
                la[i:i] = list(lb)
                if c == "splice_at":
                    del lb[:]
            out.append(f"{c} from={b} idx={i}{o}")
        else:
            la.extend(list(lb))
            if c == "splice":
                del lb[:]
            out.append(f"{c} from={b}{o}")
        if rng.random() < 0.25 and len(sim.live()) > 1:
            k = rng.choice([x for x in sim.live() if x != 0] or [sim.live()[0]])
            del sim.s[k]
            out.append(rng.choice(["drop", "drop_cb"]) + f" o={k}")
        return out

    def indexed_probe(self, rng, sim, k, near=None):
        """one indexed operation (get_at / replace_at / remove_at / add_at) on slot k, by preference in the
        middle of the list or near a given earlier index"""
        l = sim.s[k]
        n = len(l)
        o = f" o={k}" if k else ""
        if near is not None and rng.random() < 0.8:
            i = max(0, near + rng.choice([-1, 0, 0, 0, 1]))
        elif n and rng.random() < 0.7:
            i = rng.choice([n // 2, n // 2, max(n // 2 - 1, 0), min(n // 2 + 1, n - 1), n - 1, 0])
        else:
            i = self.idx_choice(rng, n)
        c = rng.choice(["get_at", "get_at", "replace_at", "remove_at", "add_at"])
        if c == "get_at":
            return f"get_at idx={i}{o}", i
        if c == "remove_at":
            if i < n:
                del l[i]
            return f"remove_at idx={i}{o}", i
        v = val(rng)
        if c == "replace_at":
            if i < n:
                l[i] = v
            return f"replace_at {v} idx={i}{o}", i
        if i < n:
            l.insert(i, v)
        return f"add_at {v} idx={i}{o}", i

    def two_list_program(self, rng, sim):
        """Two-list programs around the bulk operations (C04): indexed operations on BOTH lists directly
        before and after every add_all / add_all_at / splice / splice_at; the emptied source of a splice
        stays in use (refilled, indexed near the index looked up before the splice, spliced back); chains
        A->B then B->A.  Aimed at state that an indexed lookup leaves behind in a list (cursor caches, stale
        head/tail) and that a bulk operation must invalidate in the *source* as well."""
        out = []
        live = sim.live()
        while len(live) < 2:
            k = sim.free_slot()
            sim.s[k] = []
            ctor = sim.ctor_for(k)
            out.append(f"{ctor} o={k}" if k else ctor)
            live = sim.live()
        a, b = rng.sample(live, 2)
        for k in (a, b):
            target = rng.randint(3, 8)
            while len(sim.s[k]) < target and rng.random() < 0.9:
                v = val(rng)
                sim.s[k].append(v)
                out.append(f"add {v}" + (f" o={k}" if k else ""))
        last = {a: None, b: None}
        for rnd in range(rng.randint(1, 4)):
            # indexed operations on both lists before the bulk operation
            for k in rng.sample([a, b, b], rng.randint(1, 3)):
                op, i = self.indexed_probe(rng, sim, k, last[k] if rng.random() < 0.5 else None)
                last[k] = i
                out.append(op)
            la, lb = sim.s[a], sim.s[b]
            kinds = ["add_all", "add_all_at"] if sim.mix else ["splice", "splice", "splice_at", "splice_at", "add_all", "add_all_at"]
            c = rng.choice(kinds)
            o = f" o={a}" if a else ""
            if c.startswith("add_all") and len(la) + len(lb) > 48:
                # copies in both directions double the sizes; keep the lists far below the shims' log capacity
                if sim.mix:
                    big = a if len(la) >= len(lb) else b
                    del sim.s[big][:]
                    out.append("remove_all" + (f" o={big}" if big else ""))
                    continue
                c = "splice" if c == "add_all" else "splice_at"
            if c.endswith("_at"):
                i = rng.choice([0, len(la) // 2, max(len(la) - 1, 0), len(la)]) if rng.random() < 0.85 else self.idx_choice(rng, len(la))
                ok = lb and (i <= len(la) if self.dbl else i < len(la))
                if ok:
                    la[i:i] = list(lb)
                    if c == "splice_at":
                        del lb[:]
                out.append(f"{c} from={b} idx={i}{o}")
            else:
                la.extend(lb)
                if c == "splice":
                    del lb[:]
                out.append(f"{c} from={b}{o}")
            # indexed operations on both lists directly afterwards
            for k in rng.sample([a, b], rng.randint(0, 2)):
                op, i = self.indexed_probe(rng, sim, k, last[k])
                out.append(op)
            # keep using the (possibly emptied) source: refill it, index into it near the old index
            if rng.random() < 0.85:
                ob = f" o={b}" if b else ""
                for _ in range(rng.randint(2, 7)):
                    v = val(rng)
                    cadd = rng.choice(["add", "add", "add_last", "add_first"])
                    if cadd == "add_first":
                        sim.s[b].insert(0, v)
                    else:
                        sim.s[b].append(v)
                    out.append(f"{cadd} {v}{ob}")
                for _ in range(rng.randint(1, 3)):
                    op, i = self.indexed_probe(rng, sim, b, last[b])
                    out.append(op)
                if rng.random() < 0.3:
                    out.append(rng.choice(["get_first", "get_last", "size", "foreach"]) + ob)
            # chains: the next round goes the other way (A->B then B->A) most of the time
            if rng.random() < 0.7:
                a, b = b, a
        return out

    def cursor_family(self, rng, sim):
        """Exactly this shape (C04): (1) an index based, non-shifting lookup at a middle index i of list B
        (0 < i < size-1, B has 6..12 elements) as the LAST operation on B; (2) one of the four bulk operations
        from B into A; (3) B refilled by add / add_last only, to at least i+3 elements; (4) the very next
        operation on B is index based at i or i+-1.  Both lists take either role.  Whatever a lookup leaves
        behind in B (a cursor cache) survives steps 2-3 unless the bulk operation invalidates it in its
        SOURCE as well."""
        out = []
        while len(sim.live()) < 2:
            k = sim.free_slot()
            sim.s[k] = []
            ctor = sim.ctor_for(k)
            out.append(f"{ctor} o={k}" if k else ctor)
        a, b = rng.sample(sim.live(), 2)
        for rnd in range(rng.randint(1, 3)):
            la, lb = sim.s[a], sim.s[b]
            oa = f" o={a}" if a else ""
            ob = f" o={b}" if b else ""
            target = rng.randint(6, 12)
            while len(lb) < target:
                v = val(rng)
                lb.append(v)
                out.append(rng.choice(["add", "add_last"]) + f" {v}{ob}")
            for _ in range(rng.randint(0, 2)):           # anything on A
                out.append(self.indexed_probe(rng, sim, a)[0])
            n = len(lb)
            i = rng.choice([n // 2, n // 2, n // 2 - 1, n // 2 + 1, rng.randint(1, n - 2)])
            i = min(max(i, 1), n - 2, 10)      # bounds the refill below
            if rng.random() < 0.7:
                out.append(f"get_at idx={i}{ob}")
            else:
                v = val(rng)
                lb[i] = v
                out.append(f"replace_at {v} idx={i}{ob}")
            for _ in range(rng.randint(0, 2)):
                out.append(self.indexed_probe(rng, sim, a)[0])
            c = rng.choice(["add_all", "add_all_at"] if sim.mix else ["splice", "splice", "splice_at", "splice_at", "add_all", "add_all_at"])
            if c.startswith("add_all") and len(la) + len(lb) > 48:
                if sim.mix:
                    del la[:]
                    out.append("remove_all" + oa)
                else:
                    c = "splice" if c == "add_all" else "splice_at"
            if c.endswith("_at"):
                j = rng.choice([0, len(la) // 2, max(len(la) - 1, 0), len(la)])
                ok = lb and (j <= len(la) if self.dbl else j < len(la))
                if ok:
                    la[j:j] = list(lb)
                    if c == "splice_at":
                        del lb[:]
                out.append(f"{c} from={b} idx={j}{oa}")
            else:
                la.extend(lb)
                if c == "splice":
                    del lb[:]
                out.append(f"{c} from={b}{oa}")
            for _ in range(rng.randint(0, 2)):
                out.append(self.indexed_probe(rng, sim, a)[0])
            want = i + rng.randint(3, 6)
            while len(lb) < want:
                v = val(rng)
                lb.append(v)
                out.append(rng.choice(["add", "add_last"]) + f" {v}{ob}")
            j = i + rng.choice([0, 0, 0, -1, 1])
            j = max(j, 1)
            cpost = rng.choice(["get_at", "get_at", "replace_at", "remove_at", "add_at"])
            if cpost == "get_at":
                out.append(f"get_at idx={j}{ob}")
            elif cpost == "remove_at":
                if j < len(lb):
                    del lb[j]
                out.append(f"remove_at idx={j}{ob}")
            else:
                v = val(rng)
                if j < len(lb):
                    if cpost == "replace_at":
                        lb[j] = v
                    else:
                        lb.insert(j, v)
                out.append(f"{cpost} {v} idx={j}{ob}")
            if rng.random() < 0.6:
                a, b = b, a
        return out

    def end_op(self, rng, sim, k, others):
        """an operation that works at an end of slot k (or a bulk operation into it)"""
        l = sim.s[k]
        o = f" o={k}" if k else ""
        c = rng.choice(["remove_last", "remove_last", "remove_first", "add_last", "add_first", "get_last", "get_first", "reverse", "bulk"])
        if c == "bulk" and not others:
            c = "remove_last"
        if c == "remove_last":
            if l:
                del l[-1]
            return [f"remove_last{o}"]
        if c == "remove_first":
            if l:
                del l[0]
            return [f"remove_first{o}"]
        if c == "add_last":
            v = val(rng); l.append(v)
            return [rng.choice(["add", "add_last"]) + f" {v}{o}"]
        if c == "add_first":
            v = val(rng); l.insert(0, v)
            return [f"add_first {v}{o}"]
        if c in ("get_last", "get_first"):
            return [f"{c}{o}"]
        if c == "reverse":
            l.reverse()
            return [f"reverse{o}"]
        return self.boundary_bulk(rng, sim, k, rng.choice(others))

    def boundary_bulk(self, rng, sim, k, j):
        """one of the four bulk operations from slot j into slot k, `_at` variants at a boundary position"""
        l, lj = sim.s[k], sim.s[j]
        n = len(l)
        o = f" o={k}" if k else ""
        kinds = ["add_all", "add_all_at", "add_all_at"] if sim.mix else ["add_all", "add_all_at", "add_all_at", "splice", "splice_at", "splice_at"]
        c = rng.choice(kinds)
        if c.startswith("add_all") and n + len(lj) > 64:
            del l[:]
            n = 0
            pre = [f"remove_all{o}"]
        else:
            pre = []
        if c.endswith("_at"):
            i = rng.choice([x for x in (0, 1, n - 2, n - 1, n - 1, n - 1, n) if x >= 0])
            ok = lj and (i <= n if self.dbl else i < n)
            if ok:
                l[i:i] = list(lj)
                if c == "splice_at":
                    del lj[:]
            return pre + [f"{c} from={j} idx={i}{o}"]
        l.extend(lj)
        if c == "splice":
            del lj[:]
        return pre + [f"{c} from={j}{o}"]

    def boundary_then_end(self, rng, sim):
        """a bulk operation, or an indexed insertion/removal at one of the positions {0, 1, size-2, size-1, size},
        IMMEDIATELY followed by operations at the ends of the same list (remove_last, remove_first, add_last,
        add_first, get_last, reverse, a second bulk operation); source sizes 1, 2, 3+.  Aimed at derived
        end-of-list state (cached tail / penultimate node, size) that one path forgets to maintain."""
        out = []
        live = sim.live()
        k = rng.choice(live)
        l = sim.s[k]
        o = f" o={k}" if k else ""
        while len(l) < rng.choice([1, 2, 3, 5]):
            v = val(rng); l.append(v); out.append(f"add {v}{o}")
        r = rng.random()
        if r < 0.65:
            free = sim.free_slot()
            others = [x for x in live if x != k]
            if free is not None and (not others or rng.random() < 0.5):
                j = free
                sim.s[j] = []
                ctor = sim.ctor_for(j)
                out.append(f"{ctor} o={j}" if j else ctor)
            else:
                j = rng.choice(others) if others else None
            if j is None:
                return out
            oj = f" o={j}" if j else ""
            want = rng.choice([1, 1, 2, 2, 3, 4])
            while len(sim.s[j]) < want:
                v = val(rng); sim.s[j].append(v); out.append(f"add {v}{oj}")
            out += self.boundary_bulk(rng, sim, k, j)
        else:
            n = len(l)
            i = rng.choice([x for x in (0, 1, n - 2, n - 1, n - 1, n) if x >= 0])
            if rng.random() < 0.5:
                v = val(rng)
                if i < n:
                    l.insert(i, v)
                out.append(f"add_at {v} idx={i}{o}")
            else:
                if i < n:
                    del l[i]
                out.append(f"remove_at idx={i}{o}")
        others = [x for x in sim.live() if x != k]
        for _ in range(rng.choice([1, 1, 2, 3])):
            out += self.end_op(rng, sim, k, others)
        return out

    def iter_program(self, rng, sim, k):
        l = sim.s[k]
        o = f" o={k}" if k else ""
        kinds = ["it", "it", "dit"] if self.dbl else ["it"]
        kind = rng.choice(kinds)
        out = [f"{kind}_new{o}"]
        steps = rng.randint(1, (len(l) if len(l) <= 14 or rng.random() < 0.1 else 14) + 3)   # long lists: mostly partial traversals
        p_mut = rng.choice([0.2, 0.5, 0.9])
        pos = 0 if kind == "it" else len(l)
        for _ in range(steps):
            out.append(f"{kind}_next")
            ok = pos < len(l) if kind == "it" else pos > 0
            if rng.random() < 0.4:
                out.append(f"{kind}_index")
            if not ok:
                if rng.random() < 0.3:
                    out.append(rng.choice([f"{kind}_remove", f"{kind}_replace {val(rng)}", f"{kind}_next"]))
                continue
            cur = pos if kind == "it" else pos - 1
            if kind == "it":
                pos += 1
            else:
                pos -= 1
            # after one yield: any number of replace / add / index calls (the contract of `add` is only "an element
            # was yielded and not removed since" -- repeated adds behind one yielded element are defect L6's trigger),
            # optionally closed by a remove (which may be followed by inert probes only)
            n_mut = 0
            if rng.random() < p_mut:
                n_mut = rng.choice([1, 1, 1, 2, 2, 3, 4])
            if rng.random() < 0.35:
                v = val(rng); l[cur] = v
                out.append(f"{kind}_replace {v}")
            for mi in range(n_mut):
                last_one = mi == n_mut - 1
                if last_one and rng.random() < (0.5 if n_mut == 1 else 0.3):
                    out.append(f"{kind}_remove")
                    del l[cur]
                    if kind == "it":
                        pos -= 1
                    if rng.random() < 0.2:
                        out.append(rng.choice([f"{kind}_remove", f"{kind}_replace {val(rng)}"]))   # inert probes
                    break
                v = val(rng)
                out.append(f"{kind}_add {v}")
                if kind == "it":
                    l.insert(cur + 1, v)
                    pos += 1
                    if not self.dbl:
                        cur += 1              # cc_slist_iter_add: the new element becomes the current one
                else:
                    l.insert(cur, v)          # cc_list_diter_add: in front of `last`, the new node becomes `last`
                if rng.random() < 0.25:
                    v = val(rng); l[cur] = v
                    out.append(f"{kind}_replace {v}")
                if rng.random() < 0.3:
                    out.append(f"{kind}_index")
        return out

    def zip_program(self, rng, sim):
        live = sim.live()
        if len(live) < 2:
            return []
        a, b = rng.sample(live, 2)
        assert not zip_same_list_excluded(a, b)
        la, lb = sim.s[a], sim.s[b]
        out = [f"zit_new o={a} o2={b}"]
        pos = 0
        for _ in range(rng.randint(1, min(len(la), len(lb)) + 2)):
            out.append("zit_next")
            if not (pos < len(la) and pos < len(lb)):
                if rng.random() < 0.3:
                    out.append(rng.choice(["zit_remove", "zit_index", "zit_next"]))
                continue
            cur = pos
            pos += 1
            if rng.random() < 0.3:
                out.append("zit_index")
            if rng.random() < 0.3:
                v, w = val(rng), val(rng); la[cur] = v; lb[cur] = w
                out.append(f"zit_replace {v} {w}")
            r = rng.random()
            n_mut = 0 if r >= 0.6 else rng.choice([1, 1, 1, 2, 2, 3])
            for mi in range(n_mut):
                if mi == n_mut - 1 and rng.random() < (0.5 if n_mut == 1 else 0.3):
                    out.append("zit_remove")
                    del la[cur]
                    del lb[cur]
                    pos -= 1
                    break
                v, w = val(rng), val(rng)
                out.append(f"zit_add {v} {w}")
                la.insert(cur + 1, v)
                lb.insert(cur + 1, w)
                pos += 1
                if not self.dbl:
                    cur += 1
                if rng.random() < 0.2:
                    v, w = val(rng), val(rng); la[cur] = v; lb[cur] = w
                    out.append(f"zit_replace {v} {w}")
        return out

    def derived_op(self, rng, sim, k):
        l = sim.s[k]
        to = sim.free_slot()
        if to is None:
            j = rng.choice([x for x in sim.live() if x != k] or [None])
            if j is None:
                return []
            del sim.s[j]
            return [f"drop o={j}"]
        o = f" o={k}" if k else ""
        c = rng.choice(["mk_sub", "mk_sub", "mk_copy_shallow", "mk_copy_deep", "mk_filter"])
        n = len(l)
        if c == "mk_sub":
            if n and rng.random() < 0.8:
                b = rng.randrange(n)
                e = rng.randrange(b, n)
            else:
                b, e = rng.choice([(0, n), (1, 0), (n, n), (0, SIZE_MAX), (SIZE_MAX, SIZE_MAX), (0, 0), (2, 1)])
            if b <= e < n:
                sim.s[to] = l[b:e + 1]
            return [f"mk_sub b={b} e={e} to={to}{o}"]
        if c == "mk_filter":
            if n:
                sim.s[to] = [x for x in l if x % 2 == 0]
            return [f"mk_filter to={to}{o}"]
        pre = []
        if c == "mk_copy_deep" and rng.random() < 0.35:
            # the copy callback maps this element to NULL
            v = SIZE_MAX - 999
            i = rng.choice([0, n // 2, n])
            l.insert(i, v)
            pre = [f"add_at {v} idx={i}{o}"] if i < n else [f"add {v}{o}"]
        sim.s[to] = list(l) if c == "mk_copy_shallow" else [(x + 1000) % 2**64 for x in l]
        return pre + [f"{c} to={to}{o}"]

    def sort_op(self, rng, sim, k):
        l = sim.s[k]
        o = f" o={k}" if k else ""
        if self.dbl and rng.random() < 0.6:
            cmp = rng.choice(["num", "key", "key"])
            l.sort(key=(lambda x: x % 10) if cmp == "key" else None)
            return [f"sort_in_place cmp={cmp}{o}"]
        if l or not self.dbl:
            l.sort()
        return [f"sort{o}"]

    def sort_cmd(self, rng, sim, k, kind=None):
        """one sort of slot k; kind in (None, 'sort', 'num', 'key')"""
        l = sim.s[k]
        o = f" o={k}" if k else ""
        kinds = ["sort", "num", "key"] if self.dbl else ["sort"]
        kind = kind if kind in kinds else rng.choice(kinds)
        if kind == "sort":
            if l or not self.dbl:
                l.sort()
            return f"sort{o}", kind
        l.sort(key=(lambda x: x % 10) if kind == "key" else None)
        return f"sort_in_place cmp={kind}{o}", kind

    def unsorting_mutation(self, rng, sim, k):
        """one mutation of slot k that (for most contents) destroys sortedness under both comparators:
        a large value with key 9 towards the front, a small one with key 0/1 towards the back"""
        l = sim.s[k]
        n = len(l)
        o = f" o={k}" if k else ""
        big = rng.choice([99, 99, 89, 79])
        small = rng.choice([1, 1, 10, 0, 11])
        others = [x for x in sim.live() if x != k]
        choices = ["replace_front", "replace_back", "replace_mid", "reverse", "add_first", "add_last", "add_at", "remove", "filter_mut",
                   "it_replace", "it_add", "it_remove"]
        if self.dbl:
            choices += ["dit_replace", "dit_add"]
        if others:
            choices += ["add_all", "add_all_at", "zit_replace", "zit_add", "zit_remove"]
            if not sim.mix:
                choices += ["splice", "splice_at"]
        c = rng.choice(choices)
        if n == 0 and c not in ("add_first", "add_last", "add_all", "splice"):
            c = "add_last"
        if c == "replace_front":
            l[0] = big
            return [f"replace_at {big} idx=0{o}"]
        if c == "replace_back":
            l[n - 1] = small
            return [f"replace_at {small} idx={n - 1}{o}"]
        if c == "replace_mid":
            v = rng.choice([big, small])
            l[n // 2] = v
            return [f"replace_at {v} idx={n // 2}{o}"]
        if c == "reverse":
            l.reverse()
            return [f"reverse{o}"]
        if c == "add_first":
            l.insert(0, big)
            return [f"add_first {big}{o}"]
        if c == "add_last":
            l.append(small)
            return [rng.choice(["add", "add_last"]) + f" {small}{o}"]
        if c == "add_at":
            i = rng.choice([0, n // 2, n - 1])
            v = big if i < n - 1 else small
            l.insert(i, v)
            return [f"add_at {v} idx={i}{o}"]
        if c == "remove":
            # a removal keeps the order; follow it by an insertion that does not
            cc = rng.choice(["remove_first", "remove_last", "remove_at", "remove"])
            if cc == "remove_first":
                del l[0]; out = [f"remove_first{o}"]
            elif cc == "remove_last":
                del l[-1]; out = [f"remove_last{o}"]
            elif cc == "remove_at":
                i = n // 2
                del l[i]; out = [f"remove_at idx={i}{o}"]
            else:
                v = rng.choice(l)
                l.remove(v); out = [f"remove {v}{o}"]
            if rng.random() < 0.7:
                l.insert(0, big)
                out.append(f"add_first {big}{o}")
            return out
        if c == "filter_mut":
            l[:] = [x for x in l if x % 2 == 0]
            out = [f"filter_mut{o}"]
            if rng.random() < 0.7:
                l.append(small)
                out.append(f"add {small}{o}")
            return out
        if c in ("it_replace", "it_add", "it_remove"):
            out = [f"it_new{o}", "it_next"]
            if c == "it_replace":
                l[0] = big
                out.append(f"it_replace {big}")
            elif c == "it_add":
                l.insert(1, big)
                out.append(f"it_add {big}")
            else:
                if n >= 2:
                    out.append("it_next")
                    del l[1]
                else:
                    del l[0]
                out.append("it_remove")
                l.insert(0, big)
                out.append(f"add_first {big}{o}")
            return out
        if c in ("dit_replace", "dit_add"):
            out = [f"dit_new{o}", "dit_next"]
            if c == "dit_replace":
                l[n - 1] = small
                out.append(f"dit_replace {small}")
            else:
                l.insert(n - 1, big)          # cc_list_diter_add inserts in front of the yielded element
                out.append(f"dit_add {big}")
            return out
        j = rng.choice(others)
        lj = sim.s[j]
        if c in ("add_all", "splice"):
            l.extend(lj)
            if c == "splice":
                del lj[:]
            out = [f"{c} from={j}{o}"]
            l.append(small)
            out.append(f"add {small}{o}")
            return out
        if c in ("add_all_at", "splice_at"):
            i = 0
            ok = lj and (i <= n if self.dbl else i < n)
            if ok:
                l[i:i] = list(lj)
                if c == "splice_at":
                    del lj[:]
            out = [f"{c} from={j} idx={i}{o}"]
            l.insert(0, big)
            out.append(f"add_first {big}{o}")
            return out
        # zip mutators over (k, j)
        out = [f"zit_new o={k} o2={j}", "zit_next"]
        if not (n and lj):
            l.append(small)
            return out + [f"add {small}{o}"]
        if c == "zit_replace":
            l[0] = big; lj[0] = small
            out.append(f"zit_replace {big} {small}")
        elif c == "zit_add":
            l.insert(1, big); lj.insert(1, small)
            out.append(f"zit_add {big} {small}")
        else:
            del l[0]; del lj[0]
            out.append("zit_remove")
            l.insert(0, big)
            out.append(f"add_first {big}{o}")
        return out

    def sort_family(self, rng, sim, k):
        """sort -> mutation(s) that destroy sortedness -> sort again with the same comparator, then with the
        other one, alternating `sort` and `sort_in_place`; nothing but the mutations between two sorts (no
        lookups or traversal operations that might re-validate state a sort leaves behind in the list)"""
        l = sim.s[k]
        o = f" o={k}" if k else ""
        out = []
        while len(l) < rng.randint(3, 7):
            v = val(rng)
            l.append(v)
            out.append(f"add {v}{o}")
        if len(sim.live()) < 2 and rng.random() < 0.6:
            j = sim.free_slot()
            sim.s[j] = []
            ctor = sim.ctor_for(j)
            out.append(f"{ctor} o={j}" if j else ctor)
            for v in rng.sample([47, 6, 18, 93, 2, 55], rng.randint(1, 4)):
                sim.s[j].append(v)
                out.append(f"add {v}" + (f" o={j}" if j else ""))
        op, kind = self.sort_cmd(rng, sim, k)
        out.append(op)
        for rnd in range(rng.randint(1, 4)):
            for _ in range(rng.choice([1, 1, 1, 2, 3])):
                out += self.unsorting_mutation(rng, sim, k)
            r = rng.random()
            kinds = ["sort", "num", "key"] if self.dbl else ["sort"]
            if r < 0.45:
                nxt = kind                                     # the same comparator / the same function again
            else:
                nxt = rng.choice([x for x in kinds if x != kind] or kinds)
            op, kind = self.sort_cmd(rng, sim, k, nxt)
            out.append(op)
            if rng.random() < 0.4 and len(kinds) > 1:           # directly followed by the other one
                op, kind = self.sort_cmd(rng, sim, k, rng.choice([x for x in kinds if x != kind]))
                out.append(op)
        return out

    @staticmethod
    def header_reuse_program(k, first, prime, n1=3, n2=4, prologue=True, keep=False):
        """A list on one allocator triple is destroyed and a list on the OTHER triple is created at once in the same slot,
        with no allocation in between, so that the allocator hands out the same header address again; then every
        builder derives from the new list and the derived lists are made to allocate nodes (C14: derived containers
        use the parent's triple - the parent's *current* one, not one remembered for that address).
        `prologue`: eight create/destroy pairs first - glibc's calloc does not take blocks from the per-thread cache,
        so a freed header is only handed out again once the cache bin of that size class is full (7 entries)."""
        o = f" o={k}" if k else ""
        other = "new_default" if first == "new" else "new"
        j = 1 if k != 1 else 2
        p = 3
        out = []
        if prologue:
            for _ in range(8):
                out += [f"{first} o={p}", f"drop o={p}"]
        out.append(first + o)
        out += [f"add {v}{o}" for v in (11, 12, 13, 14, 15)[:n1]]
        if prime:
            out += [f"{prime} to={j}{o}", f"add 19 o={j}", f"drop o={j}"]
        out += [f"drop{o}", other + o]
        out += [f"add {v}{o}" for v in (22, 23, 24, 26, 28)[:n2]]
        for b in (f"mk_copy_shallow to={j}", f"mk_sub b=0 e={max(n2 - 2, 0)} to={j}", f"mk_filter to={j}", f"mk_copy_deep to={j}"):
            out += [b + o, f"add 31 o={j}", f"add_first 32 o={j}", "observe", f"remove_first o={j}", f"drop o={j}"]
        if not keep:
            out.append(f"drop{o}")
        return out

    def header_reuse_family(self, rng, sim):
        """random instance of `header_reuse_program`; afterwards the shadow treats the session as mixed
        (no splice, no fail=)"""
        k = rng.choice([0, 0, 1, 2])
        out = []
        for x in list(sim.live()):
            if x in (k, 1 if k != 1 else 2, 3):
                del sim.s[x]
                out.append(f"drop o={x}")
        first = rng.choice(["new", "new_default"])
        prime = rng.choice([None, "mk_copy_shallow", "mk_copy_shallow", "mk_copy_deep", "mk_filter", f"mk_sub b=0 e=1"])
        n2 = rng.randint(2, 5)
        out += self.header_reuse_program(k, first, prime, n1=rng.randint(2, 5), n2=n2, prologue=rng.random() < 0.6, keep=True)
        sim.s[k] = [22, 23, 24, 26, 28][:n2]
        sim.mix = True
        return out

    # ------------------------------------------------------------------ random histories
    def random(self, rng, n, tier, focus=None):
        out = []
        for _ in range(n):
            h = self.one_history(rng, tier, focus)
            # CONVENTIONS Addendum 2: about a third of the histories of every focus run in sparse observation mode
            out.append(self.sparsify(rng, h) if rng.random() < 0.34 else h)
        return out

    @staticmethod
    def sparsify(rng, ops):
        """`obs=sparse` on the first constructor line, an `observe` every 5-15 operations and one before
        the final destroy; nothing else changes (observe keeps a running iterator alive)"""
        if not ops or not ops[0].startswith("new"):
            return ops
        out = [ops[0] + " obs=sparse"]
        gap = rng.randint(5, 15)
        for i, op in enumerate(ops[1:], 1):
            last = i == len(ops) - 1
            if last and op.startswith(("destroy", "drop")):
                out.append("observe")
            elif gap <= 0:
                out.append("observe")
                gap = rng.randint(5, 15)
            out.append(op)
            gap -= 1
        if not ops[-1].startswith(("destroy", "drop")):
            out.append("observe")
        return out

    def mixed_refusal_op(self, rng, sim):
        """one two-container operation of a mixed session with `fail=k` (k up to the number of node allocations + 1): zit_add,
        add_all, add_all_at in either direction, or a builder.  Not splice (known finding across triples).  The shadow is
        updated as if the operation had been refused entirely when k can hit (it is only a generation heuristic)."""
        live = sim.live()
        a, b = rng.sample(live, 2)
        la, lb = sim.s[a], sim.s[b]
        oa = f" o={a}" if a else ""
        c = rng.choice(["zit_add", "zit_add", "add_all", "add_all", "add_all_at", "add_all_at", "mk"])
        out = []
        if c == "zit_add":
            while len(la) < 1:
                v = val(rng); la.append(v); out.append(f"add {v}{oa}")
            while len(lb) < 1:
                v = val(rng); lb.append(v); out.append(f"add {v} o={b}" if b else f"add {v}")
            # the schedule counts configured-allocator calls only: with a libc-built first list the SECOND node (the first
            # configured call) is refused by fail=1
            confs = [x for x in (a, b) if sim.ctor_for(x) == "new"]
            k = rng.choice([1, 1, 2, 3]) if len(confs) == 2 else rng.choice([1, 1, 1, 2])
            v, w = val(rng), val(rng)
            out += [f"zit_new o={a} o2={b}", "zit_next", f"zit_add {v} {w} fail={k}"]
            if k > len(confs):
                la.insert(1, v); lb.insert(1, w)
            if rng.random() < 0.5:
                out.append(f"zit_add {w} {v}")
                la.insert(1, w); lb.insert(1, v)
            return out
        if c in ("add_all", "add_all_at"):
            while len(lb) < rng.choice([1, 2, 3]):
                v = val(rng); lb.append(v); out.append(f"add {v} o={b}" if b else f"add {v}")
            k = rng.randint(1, len(lb) + 1)
            granted = k > len(lb) or sim.ctor_for(a) != "new"
            if c == "add_all":
                out.append(f"add_all from={b} fail={k}{oa}")
                if granted:
                    la.extend(lb)
            else:
                n = len(la)
                i = rng.choice([0, n // 2, max(n - 1, 0)])
                out.append(f"add_all_at from={b} idx={i} fail={k}{oa}")
                if granted and (i <= n if self.dbl else i < n):
                    la[i:i] = list(lb)
            return out
        to = sim.free_slot()
        if to is None or not la:
            return [f"add_all from={b} fail=1{oa}"]
        k = rng.randint(1, len(la) + 2)
        kind = rng.choice(["mk_copy_shallow", "mk_copy_deep", "mk_filter", f"mk_sub b=0 e={len(la) - 1}"])
        out.append(f"{kind} to={to} fail={k}{oa}")
        res = {"mk_copy_shallow": list(la), "mk_copy_deep": [(x + 1000) % 2**64 for x in la], "mk_filter": [x for x in la if x % 2 == 0]}.get(kind, list(la))
        if k > len(res) + 1 or sim.ctor_for(a) != "new":
            sim.s[to] = res
        return out

    def one_history(self, rng, tier, focus):
        sim = Sim()
        sim.s[0] = []
        # Some histories run on the C library allocator (`new_default`), and some mix the two kinds in both
        # orders (slot 0 default / other slots configured, and vice versa): add_all / add_all_at between
        # them (they once allocated the copies with the SOURCE list's allocator, corpus add_all_two_triples)
        # and zip iterators over such a pair (zip_iter_add allocates one node per list, each from its own
        # list's triple; corpus zip_two_triples).  splice / splice_at are left out of mixed histories:
        # they move the nodes themselves, so across allocators the destination later frees foreign blocks.
        # That is recorded as a KNOWN FINDING, not silently excluded: witness corpus/{list,slist}/
        # defect_splice_two_triples.ops (L2 `libc-free-of-conf-block`); in Lean it is the hypothesis
        # `ListHistory.Compat` / `SpliceOk` of every history theorem (see the header of Properties/C04.lean).
        # `fail=k` in mixed histories: the refusal schedule counts only calls through the configured allocator, so `fail=k` is
        # meaningful whenever a conf-built list allocates.  Mixed histories of the foci fault / derived / all / refuse carry it on
        # the two-container operations (zit_add, add_all, add_all_at, mk_*): which list's mem_free releases the nodes built
        # before the refusal is visible only when the two lists are on different triples (`mixed_refusal_op`).
        r0 = rng.random()
        if focus in ("all", "refuse") and r0 < 0.14:
            sim.mix = r0 < 0.11
            sim.ctor = "new_default" if (not sim.mix or rng.random() < 0.5) else "new"
        elif focus in ("fault", "derived") and r0 < 0.22:
            sim.mix = True
            sim.ctor = rng.choice(["new_default", "new"])
        elif focus == "iter" and r0 < 0.04:
            sim.mix = True
            sim.ctor = rng.choice(["new_default", "new"])
        ops = [sim.ctor]
        if sim.mix:
            # both lists exist from the start so that zip programs over the mixed pair are frequent
            for _ in range(rng.randint(0, 4)):
                v = val(rng); sim.s[0].append(v); ops.append(f"add {v}")
            sim.s[1] = []
            ops.append(f"{sim.ctor_for(1)} o=1")
            for _ in range(rng.randint(0, 4)):
                v = val(rng); sim.s[1].append(v); ops.append(f"add {v} o=1")
        length = rng.randint(1, 50)
        allf = focus in ("all", "refuse")
        if focus in ("derived", "all") and rng.random() < 0.22:
            # early in the history: derive from a list created at the address of a list on the other triple
            ops.extend(self.header_reuse_family(rng, sim))
        if (focus is None or allf) and rng.random() < 0.15:
            # a history that consists of two-list programs around the bulk operations
            for _ in range(rng.randint(1, 3)):
                ops.extend(self.cursor_family(rng, sim) if rng.random() < 0.5 else self.two_list_program(rng, sim))
                for _ in range(rng.randint(0, 3)):
                    ops.append(self.core_op(rng, sim, rng.choice(sim.live())))
            length = rng.randint(0, 6)
        for _ in range(length):
            live = sim.live()
            if not live:
                k = 0
                sim.s[0] = []
                ops.append(sim.ctor)
                continue
            k = rng.choice(live) if rng.random() < 0.3 else live[0]
            r = rng.random()
            new = []
            if sim.mix and focus in ("fault", "derived", "all", "refuse") and len(live) > 1 and rng.random() < 0.22:
                ops.extend(self.mixed_refusal_op(rng, sim))
                continue
            if (focus == "iter" or allf) and r < (0.3 if focus == "iter" else 0.12):
                new = self.zip_program(rng, sim) if (rng.random() < (0.6 if sim.mix else 0.25) and len(live) > 1) else self.iter_program(rng, sim, k)
            elif (focus == "derived" or allf) and r < (0.35 if focus == "derived" else 0.2):
                new = self.derived_op(rng, sim, k)
            elif (focus == "sort" or allf) and r < (0.4 if focus == "sort" else 0.28):
                new = self.sort_family(rng, sim, k) if rng.random() < (0.6 if focus == "sort" else 0.45) else self.sort_op(rng, sim, k)
            elif self.dbl and allf and r < 0.31:
                new = [f"reduce" + (f" o={k}" if k else "")]
            elif r > 0.94 and (focus is None or allf):
                new = self.cursor_family(rng, sim) if rng.random() < 0.5 else self.two_list_program(rng, sim)
            elif r > 0.86 and focus != "growth":
                new = self.bulk_op(rng, sim, reject=(focus == "reject"))
            elif r > 0.74 and (focus is None or allf):
                new = self.boundary_then_end(rng, sim)
            elif focus == "fault":
                # operations that allocate
                rr = rng.random()
                if rr < 0.6:
                    new = [self.core_op(rng, sim, k, grow=True)]
                elif rr < 0.8:
                    new = self.bulk_op(rng, sim)
                else:
                    new = [f"to_array" + (f" o={k}" if k else "")]
            else:
                new = [self.core_op(rng, sim, k, reject=(focus == "reject"), grow=(focus == "growth"))]
            if focus == "refuse" and sim.ctor == "new" and not sim.mix:
                new = [op + (f" fail={rng.choice([1, 1, 2, 3, 4, 6])}" if rng.random() < 0.15 and not op.startswith(("drop", "destroy")) else "")
                       for op in new]
            ops.extend(new)
        ops.append("destroy_cb" if rng.random() < 0.2 else "destroy")
        # CONVENTIONS Addendum 3: the optional out-pointers are passed (default) or NULL (`noout=1`), in every focus
        p_no = rng.choice([0.0, 0.15, 0.35, 1.0])
        ops = [op + " noout=1" if (op.split()[0] in NOOUT_OPS and rng.random() < p_no) else op for op in ops]
        return ops

    # ------------------------------------------------------------------ small scope
    def small_scope(self, tier, focus=None):
        quick = tier == "quick"
        out = []
        allf = focus in ("all", "refuse")

        def build(vals, k=0):
            return ["new" + (f" o={k}" if k else "")] + [f"add {v}" + (f" o={k}" if k else "") for v in vals]

        bnd = lambda n: sorted(set([0, 1, n // 2, max(n - 1, 0), n, n + 1, 2**31, 2**63, SIZE_MAX - 1, SIZE_MAX]))
        if focus in (None, "reject", "growth", "fault") or allf:
            # (a) every single operation at every interesting index, sizes 0..6
            for n in range(0, 7):
                vals = [3, 1, 4, 1, 5, 9][:n] if n <= 6 else []
                base = build(vals)
                singles = ["add 7", "add_first 7", "add_last 7", "remove_first", "remove_last", "remove_all", "remove_all_cb",
                           "reverse", "filter_mut", "foreach", "to_array", "size", "get_first", "get_last",
                           "remove 1", "remove 7", "remove 0", "contains 1", "contains 7",
                           "contains_value 11 cmp=key", "contains_value 1 cmp=num",
                           ("index_of 11 cmp=key" if self.dbl else "index_of 1"), ("index_of 7 cmp=num" if self.dbl else "index_of 7")]
                idxs = bnd(n) if focus in ("reject",) or allf else sorted(set([0, 1, n // 2, max(n - 1, 0), n, n + 1, SIZE_MAX]))
                for i in idxs:
                    singles += [f"add_at 7 idx={i}", f"remove_at idx={i}", f"replace_at 7 idx={i}", f"get_at idx={i}"]
                for s in singles:
                    out.append(base + [s, "destroy"])
                out.append(base + ["destroy_cb"])
            # (a1) filter_mut on every keep/drop pattern up to length 6 (runs of removals at the head, in the middle and at the
            # tail: the singly linked loop's trailing `prev` must not advance over an unlinked node), then end operations
            for n in range(1, 7):
                for pat in itertools.product((0, 1), repeat=n):
                    vals = [2 * (i + 1) + b for i, b in enumerate(pat)]      # b = 1: odd, dropped by pred_even
                    out.append(build(vals) + ["filter_mut", "add 7", "remove_last", "remove_first", "get_last", "destroy"])
            # (a2) elements that differ by exactly 2^31 / 2^32 / 2^63 and values next to 2^64-1: value-based operations must
            # tell them apart (first occurrence from the head only)
            big = [5, 5 + 2**32, 5 + 2**63, 5 + 2**31, SIZE_MAX, SIZE_MAX - 5, 5]
            for n in range(2, 8):
                base = build(big[:n])
                for v in sorted(set(big)):
                    for s_ in (f"remove {v}", f"contains {v}", f"contains_value {v} cmp=num", f"contains_value {v} cmp=key",
                               (f"index_of {v} cmp=num" if self.dbl else f"index_of {v}")):
                        out.append(base + [s_, "remove_first", f"contains {v}", "destroy"])
                out.append(base + ["reverse", f"remove {5 + 2**32}", "remove 5", "get_first", "get_last", "destroy"])
            # (b) the four bulk operations: all positions x operand sizes
            for na in (0, 1, 2, 5):
                for nb in (0, 1, 2, 5):
                    A = [11, 12, 13, 14, 15][:na]
                    B = [21, 22, 23, 24, 25][:nb]
                    for c in ("add_all", "splice"):
                        out.append(build(A) + build(B, 1) + [f"{c} from=1", "add 9", "add 8 o=1", "remove_first", "remove_last o=1", "destroy"])
                    for i in sorted(set([0, 1, na // 2, max(na - 1, 0), na, na + 1, SIZE_MAX])):
                        for c in ("add_all_at", "splice_at"):
                            out.append(build(A) + build(B, 1) + [f"{c} from=1 idx={i}", "add_first 9", "add 8", "add 7 o=1", "remove_last",
                                                                 "remove_first o=1", "drop o=1", "reverse", "destroy"])
            # (b1) aliasing: the same list on both sides of add_all / add_all_at (legal: the list is doubled), every position,
            # with and without a refusal in the middle, then end operations
            for n in range(0, 5):
                A = [11, 12, 13, 14][:n]
                for k in (0, 1):
                    o = f" o={k}" if k else ""
                    pre = build([5], 0) if k else []
                    out.append(pre + build(A, k) + [f"add_all from={k}{o}", f"add 9{o}", f"remove_first{o}", f"remove_last{o}", f"get_last{o}", "destroy"])
                    for i in sorted(set([0, 1, n // 2, max(n - 1, 0), n, n + 1])):
                        out.append(pre + build(A, k) + [f"add_all_at from={k} idx={i}{o}", f"add_first 9{o}", f"add 8{o}", f"remove_last{o}", f"reverse{o}", "destroy"])
                    if focus in ("fault",) or allf:
                        for f in range(1, n + 2):
                            out.append(pre + build(A, k) + [f"add_all from={k} fail={f}{o}", f"add_all_at from={k} idx=0 fail={f}{o}", f"size{o}", "destroy"])
            # (b4) boundary operation -> end operation, immediately: every bulk operation (the `_at` ones at the positions
            # 0, 1, size-2, size-1, size) and every indexed insertion/removal at these positions, followed at once by each
            # of the end operations and by a second bulk operation; source sizes 1, 2, 3
            for na in (1, 2, 3, 5):
                A = [11, 12, 13, 14, 15][:na]
                pos = sorted(set(x for x in (0, 1, na - 2, na - 1, na) if x >= 0))
                for nb in (1, 2, 3):
                    B = [21, 22, 23][:nb]
                    firsts = ["add_all from=1", "splice from=1"] + [f"{c} from=1 idx={i}" for c in ("add_all_at", "splice_at") for i in pos]
                    if nb == 1:
                        firsts += [f"add_at 77 idx={i}" for i in pos] + [f"remove_at idx={i}" for i in pos]
                    for f1 in firsts:
                        for e in ("remove_last", "remove_first", "add_last 8", "add_first 9", "get_last", "reverse",
                                  "add_all from=1", "add_all_at from=1 idx=0", "splice from=1"):
                            out.append(build(A) + build(B, 1) + [f1, e, "remove_last", "get_last", "add 5", "remove_first", "destroy"])
            # (b2) indexed operation in the middle of the source, bulk operation, refill the source, indexed
            # operation on the source near the old index (and on the destination); then the way back
            pre_ops = lambda i, k: [f"get_at idx={i}", f"replace_at 77 idx={i}", f"remove_at idx={i}", f"add_at 77 idx={i}"] if not k else \
                                   [f"get_at idx={i} o={k}", f"replace_at 77 idx={i} o={k}", f"remove_at idx={i} o={k}", f"add_at 77 idx={i} o={k}"]
            refill = [f"add {v} o=1" for v in (31, 32, 33, 34, 35, 36)]
            for nb in (4, 6):
                A = [11, 12, 13]
                B = [21, 22, 23, 24, 25, 26][:nb]
                i = nb // 2
                for pre in pre_ops(i, 1):
                    for bulk in ("splice from=1", "splice_at from=1 idx=1", "add_all from=1", "add_all_at from=1 idx=1"):
                        for j in (i - 1, i, i + 1):
                            for post in pre_ops(j, 1):
                                out.append(build(A) + build(B, 1) + ["get_at idx=1", pre, bulk, "get_at idx=2"] + refill +
                                           [post, f"get_at idx={j} o=1", "get_at idx=1", "get_first o=1", "get_last o=1",
                                            "splice from=0 o=1", "get_at idx=2 o=1", "add 41", "add 42", "get_at idx=1", "destroy"])
            # (b3) middle lookup as the LAST operation on the source, bulk operation, refill by add/add_last only,
            # the next operation on the source is index based at (or next to) the old index; either slot as source
            for nb, i in ((6, 4), (9, 4), (12, 7)):
                for src in (1, 0):
                    dst = 1 - src
                    os_, od = (f" o={src}" if src else ""), (f" o={dst}" if dst else "")
                    B = [20 + x for x in range(nb)]
                    A = [11, 12, 13]
                    pre = build(A, dst) + build(B, src) if dst == 0 else build(B, src) + build(A, dst)
                    for bulk in (f"splice from={src}{od}", f"splice_at from={src} idx=1{od}", f"add_all from={src}{od}", f"add_all_at from={src} idx=1{od}"):
                        fill = [("add" if x % 2 else "add_last") + f" {40 + x}{os_}" for x in range(i + 4)]
                        for post in (f"get_at idx={i}", f"get_at idx={i - 1}", f"get_at idx={i + 1}", f"replace_at 77 idx={i}",
                                     f"remove_at idx={i}", f"add_at 77 idx={i}"):
                            out.append(pre + [f"get_at idx={i}{os_}", bulk] + fill + [post + os_, f"get_at idx={i}{os_}", f"get_at idx=1{od}", "destroy"])
            # chains: A->B then B->A with indexed operations on both lists around every step
            for c1 in ("splice from=1", "splice_at from=1 idx=1"):
                for c2 in ("splice from=0 o=1", "splice_at from=0 idx=0 o=1", "add_all from=0 o=1"):
                    for p in ("get_at", "remove_at", "replace_at 77", "add_at 77"):
                        out.append(build([11, 12, 13, 14]) + build([21, 22, 23, 24, 25], 1) +
                                   [f"{p} idx=2", f"{p} idx=2 o=1", c1, f"{p} idx=3", "add 31 o=1", "add 32 o=1", "add 33 o=1", "add 34 o=1",
                                    f"{p} idx=2 o=1", f"{p} idx=1", c2, f"{p} idx=2 o=1", "add 51", "add 52", "add 53", f"{p} idx=2", f"{p} idx=1",
                                    "get_at idx=0", "get_at idx=0 o=1", "destroy"])
            # (c) all short histories over a small alphabet
            alpha = ["add_first 1", "add_last 2", "add_at 3 idx=1", "remove_at idx=1", "remove_first", "remove_last", "remove 2", "reverse"]
            L = 4 if quick else 5
            for n in range(1, L + 1):
                for seq in itertools.product(alpha, repeat=n):
                    out.append(["new"] + list(seq) + ["destroy"])
        if focus == "iter" or allf:
            kinds = ["it", "dit"] if self.dbl else ["it"]
            L = 4 if quick else 5
            for kind in kinds:
                for n in range(0, 4):
                    base = build([5, 6, 7][:n])
                    for ln in range(1, L + 1):
                        for prog in itertools.product(["next", "remove", "add 9", "replace 8", "index"], repeat=ln):
                            # contract: `add` only with a current element -- after a next, not after a remove (the shims
                            # refuse the rest anyway); several adds behind one yielded element are legal (defect L6)
                            ok = True
                            cur = False
                            for p in prog:
                                if p == "next":
                                    cur = True
                                elif p == "remove":
                                    cur = False
                                elif p.startswith("add") and not cur:
                                    ok = False
                            if not ok:
                                continue
                            na = 0
                            prog = list(prog)
                            for i, p in enumerate(prog):      # distinct values, so that the order of the added nodes shows
                                if p.startswith("add"):
                                    prog[i] = f"add {9 + 10 * na}"
                                    na += 1
                            out.append(base + [f"{kind}_new"] + [f"{kind}_{p}" for p in prog] + ["get_last", "destroy"])
            for na in range(0, 3):
                for nb in range(0, 3):
                    base = build([5, 6][:na]) + build([7, 8][:nb], 1)
                    for prog in itertools.product(["next", "remove", "add 9 4", "replace 8 3", "index"], repeat=3):
                        out.append(base + ["zit_new o=0 o2=1"] + [f"zit_{p}" for p in prog] + ["add 1", "add 2 o=1", "destroy"])
        if focus == "iter" or allf:
            # zip iterator over two lists on different allocators, both orders
            for c0, c1 in (("new_default", "new"), ("new", "new_default")):
                for prog in (["zit_next", "zit_add 7 8", "zit_next", "zit_remove", "zit_next", "zit_replace 5 6", "zit_index"],
                             ["zit_next", "zit_next", "zit_add 7 8", "zit_next", "zit_add 3 4", "zit_next"],
                             ["zit_next", "zit_remove", "zit_next", "zit_remove", "zit_next", "zit_add 1 2"],
                             ["zit_next", "zit_add 7 8", "zit_add 3 4", "zit_add 1 2", "zit_next", "zit_remove"],
                             ["zit_next", "zit_next", "zit_next", "zit_add 7 8", "zit_add 3 4", "zit_remove"]):
                    out.append([c0, "add 1", "add 2", f"{c1} o=1", "add 5 o=1", "add 6 o=1", "add 9 o=1", "zit_new o=0 o2=1"] + prog +
                               ["add_all from=1", "add_all_at from=0 idx=1 o=1", "remove_last", "remove_first o=1", "destroy"])
        if focus == "derived" or allf:
            for first in ("new", "new_default"):
                for k in (0, 1):
                    for prime in (None, "mk_copy_shallow", "mk_sub b=0 e=1"):
                        out.append(self.header_reuse_program(k, first, prime) + ["destroy"])
            for n in range(0, 5):
                base = build([2, 3, 4, 6][:n])
                follow = ["add 50", "add_first 51 o=1", "remove_first", "remove_last o=1", "drop o=1", "add 52", "destroy"]
                follow2 = ["add 50 o=1", "drop o=0", "add_first 51 o=1", "remove_last o=1", "destroy"]
                for c in ("mk_copy_shallow to=1", "mk_copy_deep to=1", "mk_filter to=1"):
                    out.append(base + [c] + follow)
                    out.append(base + [c] + follow2)
                # deep copy of a list holding the pre-image of NULL under the copy callback (2^64 - 1000) at the front / in the
                # middle / at the back, alone, and next to its neighbours: the image contains NULL and is a complete copy
                z = SIZE_MAX - 999
                for vals in ([z], [z, 5], [5, z], [5, z, 6], [z, z], [z - 1, z, z + 1], [0, z, 0]):
                    for c in ("mk_copy_deep to=1", "mk_copy_shallow to=1"):
                        out.append(build(vals[:max(n, 1)] if n < len(vals) else vals) + [c, "size o=1", "get_first o=1", "get_last o=1", "contains 0 o=1"] + follow)
                for b in sorted(set([0, 1, max(n - 1, 0), n, SIZE_MAX])):
                    for e in sorted(set([0, 1, max(n - 1, 0), n, n + 1, SIZE_MAX])):
                        out.append(base + [f"mk_sub b={b} e={e} to=1"] + follow)
        if focus == "sort" or allf:
            # sort -> every kind of mutation (one, or two in a row) -> sort again with the same and with the other
            # comparator, alternating sort / sort_in_place; no observers in between
            sorts = ["sort", "sort_in_place cmp=num", "sort_in_place cmp=key"] if self.dbl else ["sort"]
            base = build([31, 12, 23, 14, 25]) + build([47, 6, 18], 1)
            muts = [["replace_at 99 idx=0"], ["replace_at 1 idx=4"], ["replace_at 89 idx=2"], ["reverse"], ["add_first 99"], ["add_last 1"],
                    ["add 10"], ["add_at 98 idx=1"], ["remove_first", "add_first 97"], ["remove_last", "add 2"], ["remove_at idx=2", "add_at 96 idx=0"],
                    ["remove 23", "add_first 95"], ["filter_mut", "add 3"], ["add_all from=1"], ["add_all_at from=1 idx=1"], ["splice from=1"],
                    ["splice_at from=1 idx=2"], ["it_new", "it_next", "it_replace 99"], ["it_new", "it_next", "it_add 97"],
                    ["it_new", "it_next", "it_next", "it_remove", "add_first 94"],
                    ["zit_new o=0 o2=1", "zit_next", "zit_replace 99 1"], ["zit_new o=0 o2=1", "zit_next", "zit_add 96 3"],
                    ["zit_new o=0 o2=1", "zit_next", "zit_next", "zit_remove", "add_first 93"],
                    ["sort o=1", "splice_at from=1 idx=0", "add_first 92"]]
            if self.dbl:
                muts += [["dit_new", "dit_next", "dit_replace 1"], ["dit_new", "dit_next", "dit_add 98"],
                         ["dit_new", "dit_next", "dit_next", "dit_remove", "add 4"]]
            for s1 in sorts:
                for mi, mu in enumerate(muts):
                    for s2 in sorts:
                        s3 = sorts[(sorts.index(s2) + 1) % len(sorts)]
                        out.append(base + [s1] + mu + [s2, "replace_at 88 idx=0", s3, "destroy"])
                    if mi % 3 == 0:
                        mu2 = [m for m in muts[(mi + 5) % len(muts)] if "from=1" not in m and not m.startswith("zit") and "o=1" not in m]
                        out.append(base + [s1] + mu + mu2 + [s1, "add_last 1", sorts[-1], "reverse", sorts[0], "destroy"])
            for vals in ([5 + 2**32, 5, 5 + 2**63, 4, SIZE_MAX, 6 + 2**31, 6], [SIZE_MAX, 2**63, 2**63 - 1, 2**32, 2**31, 1, 0],
                         [7 + 2**32, 7, 7 + 2**32, 7]):
                if self.dbl:
                    out.append(build(vals) + ["sort_in_place cmp=num", "get_first", "get_last", "sort_in_place cmp=key", "destroy"])
                out.append(build(vals) + ["sort", "get_first", "get_last", "reverse", "sort", "destroy"])
            L = 6 if quick else 8
            for n in range(0, L + 1):
                for keys in itertools.product([1, 2, 3], repeat=n):
                    vals = [10 * (i + 1) + k for i, k in enumerate(keys)]    # key = v % 10, serial distinguishes ties
                    if self.dbl:
                        out.append(build(vals) + ["sort_in_place cmp=key", "add 5", "remove_first", "destroy"])
                    if n <= 5:
                        out.append(build(vals) + ["sort", "add 5", "remove_last", "destroy"])
        if focus in ("fault", "derived") or allf:
            out += self.mixed_refusal_scope()
        if focus == "fault" or allf:
            out.append(["new fail=1", "destroy"])
        # NULL out-pointers: every fourth history passes NULL wherever an out-pointer is optional
        out = [[op + " noout=1" if op.split()[0] in NOOUT_OPS else op for op in h] if i % 4 == 1 else h for i, h in enumerate(out)]
        srng = random.Random(20240)
        out = [self.sparsify(srng, h) if i % 3 == 2 else h for i, h in enumerate(out)]
        return out

    def mixed_refusal_scope(self):
        """for every ordered pair of constructors (configured / C library) and every two-container operation: the operation with
        `fail=k` for k = 1 .. (allocations it makes) + 1, then both lists are observed and destroyed (ledger balance).  The
        schedule counts configured-allocator calls only, so in a mixed pair `fail=k` refuses the k-th allocation of the
        conf-built list: which list's mem_free releases what was built before the refusal shows only across triples."""
        out = []
        for c0 in ("new", "new_default"):
            for c1 in ("new", "new_default"):
                for n0, n1 in ((1, 1), (2, 3), (3, 2)):
                    base = [c0] + [f"add {i + 1}" for i in range(n0)] + [f"{c1} o=1"] + [f"add {i + 11} o=1" for i in range(n1)]
                    tail = ["size", "size o=1", "get_last", "get_last o=1", "add 9", "add 19 o=1", "remove_first", "remove_first o=1", "destroy"]
                    progs = []
                    for k in range(1, 4):
                        progs.append(["zit_new o=0 o2=1", "zit_next", f"zit_add 7 8 fail={k}"])
                        progs.append(["zit_new o=1 o2=0", "zit_next", f"zit_add 7 8 fail={k}"])
                        progs.append(["zit_new o=0 o2=1", "zit_next", "zit_next", f"zit_add 7 8 fail={k}", "zit_add 5 6"])
                    for k in range(1, n1 + 2):
                        progs.append([f"add_all from=1 fail={k}"])
                        for i in sorted(set([0, n0 // 2, n0 - 1] + ([n0] if self.dbl else []))):
                            progs.append([f"add_all_at from=1 idx={i} fail={k}"])
                    for k in range(1, n0 + 2):
                        progs.append([f"add_all from=0 o=1 fail={k}"])
                        progs.append([f"add_all_at from=0 idx=0 o=1 fail={k}"])
                    for k in range(1, max(n0, n1) + 3):
                        for o in ("", " o=1"):
                            n = n1 if o else n0
                            progs.append([f"mk_copy_shallow to=2{o} fail={k}", "size o=2", "add 4 o=2"])
                            progs.append([f"mk_copy_deep to=2{o} fail={k}", "size o=2"])
                            progs.append([f"mk_filter to=2{o} fail={k}", "size o=2"])
                            progs.append([f"mk_sub b=0 e={n - 1} to=2{o} fail={k}", "size o=2"])
                    for pr in progs:
                        out.append(base + pr + tail)
        return out

    # ------------------------------------------------------------------ scale
    def scale(self, rng, tier):
        """A FEW LONG histories (quick: 3, thorough: 24 + the 70 000-element sort histories): 1100-1500 elements, then several hundred
        operations that hit the front, the middle and the back, sweeps with the iterators, and every whole-list operation (sort,
        sort_in_place, reverse, filter_mut, copies, add_all, splice) on the big list.  Sessions are `obs=sparse phys=quiet`
        (checksums instead of dumps, an `observe` about every 50 operations).  No callback-log operations (the harness log holds
        4096 entries) and no zip over the same list (`zip_same_list_excluded`)."""
        quick = tier == "quick"
        out = []
        for h in range(3 if quick else 24):
            out.append(self.scale_history(rng, 1100 + rng.randrange(401), explicit=(h % 3 == 0)))
        if not quick:
            # sorts across the 2^16 boundary (bottom-up merge sorts with a fixed number of bins, index types, recursion depth)
            for n in (65535, 65536, 65537, 70000):
                ops = [rng.choice(["new", "new_default"]) + " obs=sparse phys=quiet", f"fill n={n} seed={rng.randrange(1, 1000)}", "observe",
                       "sort", "observe", "get_first", "get_last", "size"]
                if self.dbl:
                    ops += ["sort_in_place cmp=key", "observe", "reverse", "sort_in_place cmp=num", "observe"]
                ops += ["remove_first", "remove_last", "add 5", "add_first 999999", "sort", "observe", "destroy"]
                out.append(ops)
        return out

    def scale_history(self, rng, n, explicit):
        dbl = self.dbl
        ops = [rng.choice(["new", "new", "new_default"]) + " obs=sparse phys=quiet"]
        cur = [0]                                    # shadow of the size of slot 0 (exact enough for position choices)
        since = [0]

        def emit(op, dsize=0):
            ops.append(op)
            cur[0] = max(0, cur[0] + dsize)
            since[0] += 1
            if since[0] >= 50:
                ops.append("observe"); since[0] = 0

        if explicit:
            # the fill itself exercises the models at every size: appends, prepends and insertions in the middle
            for i in range(n):
                r = rng.random()
                v = (i * 7919 + 13) % 100003
                if r < 0.8 or cur[0] < 3:
                    emit(f"add {v}", 1)
                elif r < 0.9:
                    emit(f"add_first {v}", 1)
                else:
                    emit(f"add_at {v} idx={rng.choice([0, 1, cur[0] // 3, cur[0] // 2, cur[0] - 1])}", 1)
        else:
            emit(f"fill n={n} seed={rng.randrange(1, 1000)}", n)
        ops.append("observe")

        def pos():
            m = cur[0]
            return rng.choice([0, 0, 1, m // 3, m // 2, (2 * m) // 3, max(m - 2, 0), max(m - 1, 0), max(m - 1, 0), m, m + 1])

        def point_ops(k):
            for _ in range(k):
                r = rng.random()
                m = cur[0]
                if r < 0.18:
                    emit(f"get_at idx={pos()}")
                elif r < 0.34:
                    i = pos(); emit(f"remove_at idx={i}", -1 if i < m else 0)
                elif r < 0.50:
                    i = pos(); ok = (i <= m) if dbl else (i < m)
                    emit(f"add_at {rng.randrange(100000)} idx={i}", 1 if ok else 0)
                elif r < 0.58:
                    emit(f"replace_at {rng.randrange(100000)} idx={pos()}")
                elif r < 0.66:
                    emit(rng.choice(["remove_first", "remove_last"]), -1 if m else 0)
                elif r < 0.76:
                    emit(rng.choice([f"add_first {rng.randrange(100000)}", f"add_last {rng.randrange(100000)}"]), 1)
                elif r < 0.82:
                    emit(rng.choice(["get_first", "get_last", "size"]))
                elif r < 0.90:
                    emit(f"contains {rng.randrange(100003)}")
                elif r < 0.95:
                    emit((f"index_of {rng.randrange(100003)} cmp=num" if dbl else f"index_of {rng.randrange(100003)}"))
                else:
                    emit(f"remove {rng.randrange(100003)}")          # mostly absent: a full walk

        def sweep(kind, steps):
            emit(f"{kind}_new")
            for j in range(steps):
                emit(f"{kind}_next")
                r = rng.random()
                if r < 0.12:
                    emit(f"{kind}_remove", -1)
                elif r < 0.22:
                    emit(f"{kind}_add {rng.randrange(100000)}", 1)
                    if rng.random() < 0.3:
                        emit(f"{kind}_add {rng.randrange(100000)}", 1)
                elif r < 0.30:
                    emit(f"{kind}_replace {rng.randrange(100000)}")
                elif r < 0.34:
                    emit(f"{kind}_index")

        point_ops(120)
        sweep("it", 90)
        if dbl:
            sweep("dit", 90)
        # whole-list operations on the big list, each followed by point operations at the three regions
        emit("reverse"); point_ops(25)
        emit("sort"); point_ops(25)
        if dbl:
            emit("sort_in_place cmp=key"); point_ops(20)
            emit("reverse"); emit("sort_in_place cmp=num"); point_ops(20)
        emit("mk_copy_shallow to=1"); emit("size o=1"); emit("get_last o=1")
        emit(f"mk_sub b={cur[0] // 3} e={max(cur[0] - 2, cur[0] // 3)} to=2"); emit("size o=2")
        emit("mk_filter to=3"); emit("size o=3")
        emit("zit_new o=0 o2=1")
        for _ in range(40):
            emit("zit_next")
            r = rng.random()
            if r < 0.1:
                emit("zit_remove", -1)
            elif r < 0.2:
                emit(f"zit_add {rng.randrange(1000)} {rng.randrange(1000)}", 1)
            elif r < 0.28:
                emit(f"zit_replace {rng.randrange(1000)} {rng.randrange(1000)}")
        emit("filter_mut", 0); emit("size")
        emit("observe")
        emit("add_all from=2"); emit(f"add_all_at from=3 idx={rng.choice([0, 1, 7])}")
        emit("drop o=2")
        if ops[0].startswith("new ") or True:
            # copies inherit the triple of the source, so these splices stay on one triple
            emit("splice_at from=1 idx=" + str(rng.choice([0, 1, 5, 64])))
            emit("size"); emit("size o=1")
            emit("splice from=3")
        emit("mk_copy_deep to=2"); emit("get_first o=2"); emit("reverse o=2"); emit("sort o=2")
        point_ops(40)
        emit("remove_all o=2"); emit("size o=2")
        emit("to_array o=3")
        emit("observe")
        ops.append("destroy")
        return ops

    def fault_seeds(self, tier):
        """histories whose every allocating operation is worth refusing at every k"""
        A = ["new", "add 1", "add 2", "add 3", "new o=1", "add 7 o=1", "add 8 o=1", "add 9 o=1"]
        hs = [A + ["add_all from=1", "add_all_at from=1 idx=1", "add_all_at from=1 idx=0", "destroy"],
              A + ["mk_copy_shallow to=2", "mk_copy_deep to=3", "destroy"],
              A + ["mk_sub b=0 e=2 to=2", "mk_filter to=3 o=1", "destroy"],
              A + ["to_array", "sort", "add_first 4", "add_at 5 idx=1", "destroy"],
              A + ["it_new", "it_next", "it_add 4", "it_next", "it_next", "it_next", "it_add 5", "it_add 6", "remove_last", "add_last 7", "destroy"],
              A + ["zit_new o=0 o2=1", "zit_next", "zit_add 4 5", "zit_next", "zit_next", "zit_next", "zit_add 6 7", "zit_add 8 9",
                   "remove_last", "add_last 7", "remove_last o=1", "destroy"],
              ["new", "new o=1", "add 7 o=1", "add 8 o=1", "add_all from=1", "destroy"]]
        for c0, c1 in (("new_default", "new"), ("new", "new_default")):
            M = [c0, "add 1", "add 2", f"{c1} o=1", "add 7 o=1", "add 8 o=1", "add 9 o=1"]
            hs += [M + ["zit_new o=0 o2=1", "zit_next", "zit_add 4 5", "zit_next", "zit_add 6 7", "destroy"],
                   M + ["zit_new o=1 o2=0", "zit_next", "zit_add 4 5", "destroy"],
                   M + ["add_all from=1", "add_all_at from=1 idx=1", "destroy"],
                   M + ["add_all from=0 o=1", "add_all_at from=0 idx=0 o=1", "destroy"],
                   M + ["mk_copy_shallow to=2", "mk_copy_deep to=3 o=1", "destroy"],
                   M + ["mk_filter to=2 o=1", "mk_sub b=0 e=1 to=3", "destroy"]]
        if self.dbl:
            hs.append(A + ["dit_new", "dit_next", "dit_add 4", "dit_next", "dit_next", "dit_next", "dit_add 5", "dit_add 6", "remove_first", "add_first 7", "destroy"])
        return hs


GENS = [LinkedGen("list", True), LinkedGen("slist", False)]
