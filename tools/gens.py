"""Operation-history generators, one class per container family.  Every random choice comes from
the `random.Random` handed in (seeded from VERIF_SEED), so a run is reproducible.

Each generator offers
  small_scope(tier)      exhaustive enumeration of a small space (validation of model vs code)
  random(rng, n, tier)   structured random histories, mostly valid operations
Histories are lists of protocol lines; the first line constructs the object, the last destroys it.
"""
import itertools, random

SIZE_MAX = 2**64 - 1
BOUNDARY = [0, 1, 2**31, 2**63, SIZE_MAX - 1, SIZE_MAX]


def pick_value(rng):
    r = rng.random()
    if r < 0.08:
        return 0            # NULL element
    if r < 0.5:
        return rng.randint(1, 6)    # duplicates likely
    return rng.randint(1, 99)


# 64-bit items whose halves, sign bits and truncations to 8/16/32 bits all differ: an implementation that narrows the
# item anywhere on its way through the buffer changes at least one of them
WIDE = [0, 1, 2**64 - 1, 2**31 - 1, 2**31, 2**32 - 1, 2**32, 2**32 + 5, 2**33 + 7, 2**63 - 1, 2**63, 2**63 + 1,
        0x0123456789ABCDEF, 0xFEDCBA9876543210, 255, 256, 65535, 65536]


class RbufGen:
    name = "rbuf"

    def small_scope(self, tier, focus=None):
        out = []
        maxlen = 7 if tier == "quick" else 10
        for cap in (1, 2, 3):
            for n in range(0, maxlen + 1):
                for seq in itertools.product("ed", repeat=n):
                    # skip sequences that only differ in trailing dequeues on empty
                    ops = [f"new cap={cap}"]
                    v = 10
                    for s in seq:
                        if s == "e":
                            v += 1
                            ops.append(f"enqueue {v}")
                        else:
                            ops.append("dequeue")
                    ops.append("destroy")
                    out.append(ops)
        for w in WIDE:
            out.append(["new cap=2", f"enqueue {w}", "enqueue 3", "peek 0", f"enqueue {w}", "dequeue", "dequeue", "destroy"])
        out.append(["new cap=2 fail=1", "destroy"])
        out.append(["new cap=2 fail=2", "destroy"])
        out.append(["new_default", "enqueue 1", "dequeue", "dequeue", "destroy"])
        if focus in ("reject", "all"):
            for cap in (1, 3):
                for idx in (-2147483648, -1, 0, cap - 1, cap, cap + 1, 2147483647):
                    out.append([f"new cap={cap}", "enqueue 7", f"peek {idx}", "dequeue", "dequeue", f"peek {idx}", "destroy"])
        return out

    def random(self, rng, n, tier, focus=None):
        out = []
        for _ in range(n):
            cap = rng.choice([1, 2, 3, 4, 5, 7, 8, 10, 12, 15, 16, 17, 31, 32, 33, 64, 100, 257])
            ops = [f"new cap={cap}"] if rng.random() > 0.05 else ["new_default"]
            if ops[0] == "new_default":
                cap = 10
            length = rng.randint(1, 60) if cap <= 12 else rng.randint(cap, 4 * cap + 20)
            p_enq = rng.choice([0.3, 0.5, 0.7, 0.9])
            for _ in range(length):
                if focus in ("reject", "all") and rng.random() < 0.15:
                    ops.append(f"peek {rng.choice([-1, 0, cap - 1, cap, cap + 1, -2147483648, 2147483647, rng.randint(-3, cap + 3)])}")
                    continue
                if rng.random() < p_enq:
                    v = rng.choice(WIDE) if rng.random() < 0.15 else rng.randint(1, 999)
                    ops.append(f"enqueue {v}")
                else:
                    ops.append("dequeue")
                if rng.random() < 0.05:
                    p_enq = rng.choice([0.1, 0.5, 0.95])
            ops.append("destroy")
            out.append(ops)
        return out


def _rbuf_scale(self, rng, tier):
    """one long history per capacity: more than 2^16 enqueues on one buffer (free-running 16-bit counters, wrap-around
    arithmetic on head/tail), with wide items and dequeues mixed in"""
    out = []
    for cap in ([10] if tier == "quick" else [1, 3, 10, 16, 255, 256, 257]):
        ops = [f"new cap={cap}"]
        for i in range(66000 if tier == "quick" else 140000):
            r = rng.random()
            if r < 0.8:
                ops.append(f"enqueue {rng.choice(WIDE) if rng.random() < 0.05 else i}")
            else:
                ops.append("dequeue")
        ops += ["dequeue"] * (cap + 1) + ["destroy"]
        out.append(ops)
    return out


RbufGen.scale = _rbuf_scale
GENS = {g.name: g for g in [RbufGen()]}

# every tools/gens_<k>.py registers itself through a module-level GEN (or GENS list)
import importlib, pathlib, sys as _sys
for _p in sorted(pathlib.Path(__file__).resolve().parent.glob("gens_*.py")):
    try:
        _m = importlib.import_module(_p.stem)
    except Exception as _e:   # a generator under construction must not break the other checks
        print(f"gens: cannot import {_p.name}: {_e}", file=_sys.stderr)
        continue
    for _g in ([getattr(_m, "GEN")] if hasattr(_m, "GEN") else []) + list(getattr(_m, "GENS", [])):
        GENS[_g.name] = _g
