#!/usr/bin/env python3
"""writes MANIFEST.json from tools/props.py (run after editing props)"""
import json, sys
from pathlib import Path
sys.path.insert(0, str(Path(__file__).resolve().parent))
import props
ROOT = Path(__file__).resolve().parent.parent
allp = [json.loads(l)["id"] for l in open(ROOT / "properties.jsonl")]
checks = []
for pid in allp:
    if pid not in props.PROPS:
        continue
    P = props.PROPS[pid]
    lean = ROOT / "lean" / "CollectionsC"
    have_thm = (lean / "Properties" / f"{pid}.lean").exists() or bool(list((lean / "Properties").glob(f"{pid}[A-Z]*.lean")))
    have_all = all((ROOT / "harness" / f"shim_{c['container']}.c").exists() and
                   any((f"-- container: {c['container']}\n") in q.read_text() for q in (lean / "Driver").glob("*.lean"))
                   for c in P["streams"])
    if not (have_thm and have_all) or pid in props.HOLD:
        continue
    checks.append(dict(
        property_id=pid,
        quick_cmd=f"/verif/check {pid} --tier quick",
        thorough_cmd=f"/verif/check {pid} --tier thorough",
        evidence_file=f"/verif/evidence/{pid}.json",
        replay_cmd_template=f"/verif/check {pid} --replay {{path}}",
        engine="lean4-proof+correspondence",
        level_claimed=dict(category=P.get("level", "proof"), text=P["level_text"], design_ref=P.get("design_ref", "DESIGN.md sections 0.0, 0.2, 0.a (as built); section 8 (plan for this property)")),
        level_note=P["level_note"],
        technique=P.get("technique", "Lean 4 theorems over a hand-written executable model; model tied to the C code by a differential correspondence check (C vs spec vs model) on every run"),
    ))
claimed = {c["property_id"] for c in checks}
na = [dict(property_id=p, reason=props.NOT_APPLICABLE.get(p, "not yet claimed: model and theorems for this property are still under construction")) for p in allp if p not in claimed]
man = dict(
    version=1,
    setup_cmd="cd /verif && python3 tools/setup.py",
    hooks=dict(guard="COLLECTIONS_C_VERIF", enable="reserved name only, it occurs nowhere in /repo or /verif/harness — no hook is needed: the harness #includes the library sources into shim translation units (harness/shim_*.c) and injects allocators through the public conf structs",
               baseline_off_cmd="(test -f /repo/_build/build.ninja || cmake -G Ninja -S /repo -B /repo/_build >/dev/null) && cmake --build /repo/_build >/dev/null && ctest --test-dir /repo/_build -j8",
               source_commits=[], add_only=True),
    engines=[dict(name="lean4-proof+correspondence", path="/verif/check", serves_properties=[c["property_id"] for c in checks],
                  kind_free_text="Lean 4 library (lean/) with abstract specs, concrete models, invariants and refinement theorems; C harness (harness/) rebuilt from /repo with ASan+UBSan; Python runner (tools/) diffs C vs spec vs model, shrinks, searches, writes evidence")],
    checks=checks,
    notes="See DESIGN.md. Known findings and fixed defects: known_findings.txt.",
    not_applicable=na,
)
json.dump(man, open(ROOT / "MANIFEST.json", "w"), indent=1)
print(len(checks), "checks,", len(na), "not claimed")
