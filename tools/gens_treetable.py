"""History generators for cc_treetable / cc_treeset (properties C03, C17 and the tree parts of C07/C08/C16).

Protocol vocabulary (treetable):
  new cmp=<0|1|2> [fail=k]   new_default cmp=<c>      destroy
  add <k> <v> [fail=1]       get <k>   contains_key <k>   contains_value <v>   size
  remove <k> [noout=1]       remove_first [noout=1]   remove_last [noout=1]   remove_all
  first_key last_key first_value last_value   greater_than <k>   lesser_than <k>
  foreach_key foreach_value
  it_new  it_next  it_remove [noout=1]  it_drop
  observe                    (new ... obs=sparse: content printed by `observe` only, CONVENTIONS Addendum 2)
  new ... keys=buf           keys are arena records compared BY CONTENT, every call presents its key from a fresh address
                             (equal-but-distinct keys: the string-key use); the dump then carries `!kp` per node
  new ... phys=quiet         the phys section carries a checksum of the tree instead of the dump (the dump on `observe`)
treeset: new/new_default/destroy, add <e>, remove <e> [noout=1], remove_all, contains <e>, size,
  first, last, greater_than <e>, lesser_than <e>, foreach, it_new/it_next/it_remove/it_drop.

cmp: 0 numeric order, 1 reversed, 2 by (v % 100, v), 3 numeric with large magnitudes (difference clamped
to +-(2^31-1)) — all total orders.  Keys and values include pairs that differ by exactly 2^31, 2^32, 2^63 and
numbers near 2^64-1 (CONVENTIONS Addendum 3); remove / remove_first / remove_last / it_remove are generated
with and without an out-pointer (noout=1) in every focus.

focus: None = the operations C03 names (core + foreach + iterator next/remove), no fail=;
"iter" iterator-heavy; "reject" absent keys / empty table / extremes; "fault" allocation-heavy
(adds of new keys, constructors) without fail=; "growth" insertion-dominated; "all" everything
including fail=, new_default and noout=1.  ("derived"/"sort" have no tree-specific meaning and
behave like None.)

Preconditions respected: it_remove only after a successful it_next and at most once per yielded
entry (a second one is emitted only under focus reject/all — it is documented to return
KEY_NOT_FOUND); while an iterator is live the table is modified only through it (an `it_drop`
is emitted before any structural table operation: the C iterator holds node pointers).
"""
import itertools


# Addendum 3: keys/values that differ by exactly 2^31, 2^32, 2^63 and values near 2^64-1
BIG_OFFSETS = [2**31, 2**32, 2**63]
NEAR_MAX = [2**64 - 1, 2**64 - 2, 2**63 - 1, 2**63, 2**32 - 1, 2**31 - 1]


def big_variant(rng, base):
    """a number that collides with `base` when a difference is truncated to 32 bits / int / the sign bit"""
    r = rng.random()
    if r < 0.75:
        return base + rng.choice(BIG_OFFSETS)
    return rng.choice(NEAR_MAX)


def _key(cmpw):
    if cmpw == 1:
        return lambda k: -k
    if cmpw == 2:
        return lambda k: (k % 100, k)
    return lambda k: k


class _Hist:
    """builds one history while tracking the ideal content, so that operations stay inside the contract"""

    def __init__(self, kind, cmpw=0, ctor=None, sparse=None, extra=""):
        """sparse: None, or an iterator of gaps (5..15): the session runs with obs=sparse and an
        `observe` is inserted after every gap operations and before `destroy`;
        extra: further constructor options (" keys=buf", " phys=quiet")"""
        self.sparse = sparse
        self.kind = kind          # "table" | "set"
        self.cmpw = cmpw
        self.ops = [(ctor or f"new cmp={cmpw}") + extra]
        self.default = bool(ctor and ctor.startswith("new_default"))   # libc allocator: fail= cannot fire
        self.m = {}
        self.it_live = False
        self.it_todo = []
        self.it_can_remove = False
        self.it_yielded = False
        self.keyf = _key(cmpw)

    # ---- helpers
    def sorted_keys(self):
        return sorted(self.m, key=self.keyf)

    def _structural(self):
        if self.it_live:
            self.ops.append("it_drop")
            self.it_live = False

    # ---- table/set operations
    def add(self, k, v=None, fail=False):
        if k not in self.m:
            self._structural()
        v = 1 if self.kind == "set" else ((k * 10 % 97 if k < 2**31 else k ^ 0xFFFF) if v is None else v)
        line = f"add {k}" if self.kind == "set" else f"add {k} {v}"
        if fail and not self.default:
            line += " fail=1"
            if k in self.m:
                self.m[k] = v       # replace path never allocates: fail=1 does not fire
        else:
            self.m[k] = v
        self.ops.append(line)

    def remove(self, k, noout=False):
        self._structural()
        self.ops.append(f"remove {k}" + (" noout=1" if noout or self.kind == "set" else ""))
        self.m.pop(k, None)

    def remove_out(self, k):
        """treeset only: remove with a real out pointer (see corpus/treeset/defect_remove_out.ops)"""
        self._structural()
        self.ops.append(f"remove {k}")
        self.m.pop(k, None)

    def remove_first(self, noout=False):
        self._structural()
        self.ops.append("remove_first" + (" noout=1" if noout else ""))
        if self.m:
            del self.m[self.sorted_keys()[0]]

    def remove_last(self, noout=False):
        self._structural()
        self.ops.append("remove_last" + (" noout=1" if noout else ""))
        if self.m:
            del self.m[self.sorted_keys()[-1]]

    def remove_all(self):
        self._structural()
        self.ops.append("remove_all")
        self.m.clear()

    def query(self, name, *args):
        self.ops.append(" ".join([name] + [str(a) for a in args]))

    # ---- iterator
    def it_new(self):
        self.ops.append("it_new")
        self.it_live = True
        self.it_todo = self.sorted_keys()
        self.it_can_remove = False
        self.it_yielded = False

    def it_next(self):
        if not self.it_live:
            self.it_new()
        self.ops.append("it_next")
        if self.it_todo:
            self.it_cur = self.it_todo.pop(0)
            self.it_can_remove = True
            self.it_yielded = True

    def it_remove(self, noout=False, force=False):
        """only after a successful next; `force` = second remove of the same entry (documented KEY_NOT_FOUND)"""
        if not self.it_live or not self.it_yielded:
            return
        if not self.it_can_remove and not force:
            return
        self.ops.append("it_remove" + (" noout=1" if noout or self.kind == "set" else ""))
        if self.it_can_remove:
            self.m.pop(self.it_cur, None)
            self.it_can_remove = False

    def done(self):
        self.ops.append("destroy")
        if self.sparse is None:
            return self.ops
        out = [self.ops[0] + " obs=sparse"]
        gap = next(self.sparse)
        for op in self.ops[1:-1]:
            out.append(op)
            gap -= 1
            if gap <= 0:
                out.append("observe")
                gap = next(self.sparse)
        if out[-1] != "observe":
            out.append("observe")
        out.append("destroy")
        return out


TABLE_Q = ["get", "contains_key", "greater_than", "lesser_than"]
TABLE_Q0 = ["first_key", "last_key", "first_value", "last_value", "size", "foreach_key", "foreach_value"]
SET_Q = ["contains", "greater_than", "lesser_than"]
SET_Q0 = ["first", "last", "size", "foreach"]


def orders(n, rng=None):
    ks = list(range(1, n + 1))
    zig = []
    lo, hi = 0, n - 1
    while lo <= hi:
        zig.append(ks[lo]); lo += 1
        if lo <= hi:
            zig.append(ks[hi]); hi -= 1
    out = {"sorted": ks, "reversed": ks[::-1], "zigzag": zig,
           "inside_out": [ks[(n // 2 + (i + 1) // 2 * (1 if i % 2 else -1)) % n] for i in range(n)]}
    if rng is not None:
        r = ks[:]
        rng.shuffle(r)
        out["random"] = r
    return out


class _TreeGen:
    kind = "table"
    name = "treetable"

    def q(self):
        return (TABLE_Q, TABLE_Q0) if self.kind == "table" else (SET_Q, SET_Q0)

    def probe(self, h, keys):
        """every lookup on every given key, and the argument-free queries"""
        q1, q0 = self.q()
        for k in keys:
            for name in q1:
                h.query(name, k)
        for name in q0:
            h.query(name)
        if self.kind == "table":
            h.query("contains_value", 30)

    # ------------------------------------------------------------------ small scope
    def small_scope(self, tier, focus=None):
        out = self._small_scope(tier, focus)
        # about a third of the histories in sparse observation mode (deterministic gaps 5..15)
        for i in range(2, len(out), 3):
            h = out[i]
            if not h[0].startswith("new") or "fail=" in h[0] or len(h) < 3:
                continue
            hh = _Hist(self.kind, sparse=itertools.cycle([5 + (i + j) % 11 for j in range(7)]))
            hh.ops = h[:-1]
            out[i] = hh.done()
        # every fifth history also with keys=buf (equal keys from distinct addresses)
        for i in range(1, len(out), 5):
            h = out[i]
            if h[0].startswith("new") and "keys=" not in h[0]:
                out.append([h[0] + " keys=buf"] + h[1:])
        return out

    def _small_scope(self, tier, focus=None):
        out = self.edge_histories()
        allf = focus == "all"
        nmax = 5 if tier == "quick" else 6
        # (a) every insertion order of <= nmax keys, then every single removal (by key, first, last)
        for n in range(0, nmax + 1):
            for perm in itertools.permutations(range(1, n + 1)):
                for rem in list(range(1, n + 1)) + ["first", "last"]:
                    if n == 0 and rem != "first":
                        continue
                    h = _Hist(self.kind)
                    for k in perm:
                        h.add(k * 2)
                    no = (len(out) % 2 == 1)          # with and without an out-pointer
                    if rem == "first":
                        h.remove_first(no) if self.kind == "table" else h.remove(2)
                    elif rem == "last":
                        h.remove_last(no) if self.kind == "table" else h.remove(2 * n)
                    else:
                        h.remove(rem * 2, no)
                    out.append(h.done())
        # (b) every insertion order x every removal order of <= 4 (5) keys
        n2 = 4 if tier == "quick" else 5
        for n in range(1, n2 + 1):
            for perm in itertools.permutations(range(1, n + 1)):
                for rperm in itertools.permutations(range(1, n + 1)):
                    h = _Hist(self.kind)
                    for k in perm:
                        h.add(k)
                    for k in rperm:
                        h.remove(k)
                    out.append(h.done())
        # (c) sorted / reversed / zig-zag insertion of N keys, all lookups, then a removal phase
        sizes = (1, 2, 3, 7, 8, 15, 16, 33) if tier == "quick" else (1, 2, 3, 4, 7, 8, 15, 16, 31, 32, 33, 64, 100)
        for cmpw in (0, 1, 2, 3):
            for n in sizes:
                for oname, ks in orders(n).items():
                    for phase in ("asc", "desc", "first", "last", "iter", "iter_all", "all"):
                        if cmpw and (n > 16 or phase in ("desc", "all")):
                            continue
                        mul = 37 if cmpw == 2 else 3
                        h = _Hist(self.kind, cmpw)
                        for k in ks:
                            h.add(k * mul)
                        if phase == "asc" and n <= 8:
                            self.probe(h, [0, mul - 1] + [k * mul for k in ks] + [n * mul + 1, 150])
                        if phase == "asc":
                            for k in sorted(ks):
                                h.remove(k * mul)
                        elif phase == "desc":
                            for k in sorted(ks, reverse=True):
                                h.remove(k * mul)
                        elif phase == "first":
                            for _ in range(n + 1):
                                h.remove_first() if self.kind == "table" else h.remove(h.sorted_keys()[0] if h.m else 1)
                        elif phase == "last":
                            for _ in range(n + 1):
                                h.remove_last() if self.kind == "table" else h.remove(h.sorted_keys()[-1] if h.m else 1)
                        elif phase == "iter":
                            h.it_new()
                            for i in range(n + 1):
                                h.it_next()
                                if i % 2 == 0:
                                    h.it_remove()
                        elif phase == "iter_all":
                            h.it_new()
                            for i in range(n + 2):
                                h.it_next()
                                h.it_remove()
                            h.it_new()
                            h.it_next()
                        else:
                            h.remove_all()
                            h.add(5)
                            h.query("size")
                        out.append(h.done())
        # (d) replace, absent keys, empty-table rejections
        h = _Hist(self.kind)
        self.probe(h, [0, 1, 5])
        if self.kind == "table":
            h.remove_first(); h.remove_last()
        h.remove(3); h.remove_all(); h.it_new(); h.it_next(); h.it_next()
        h.add(4); h.add(4, 99); h.add(0, 0); h.add(4, 0)
        self.probe(h, [0, 4, 5])
        h.remove(0)
        out.append(h.done())
        if focus in ("reject", "all"):
            h = _Hist(self.kind)
            for k in (2, 1, 3):
                h.add(k)
            h.it_new(); h.it_next(); h.it_remove(); h.it_remove(force=True); h.it_next(); h.it_next(); h.it_next()
            h.it_remove(); h.it_remove(force=True)
            out.append(h.done())
        if allf:
            nf = 2 if self.kind == "table" else 3
            for k in range(1, nf + 1):
                out.append([f"new cmp=0 fail={k}", "destroy"])
            for n in range(0, 6):
                h = _Hist(self.kind)
                for k in range(1, n + 1):
                    h.add(k)
                h.add(50, fail=True); h.add(50); h.add(50, 7, fail=True); h.add(51, fail=True)
                self.probe(h, [50, 51])
                out.append(h.done())
            h = _Hist(self.kind, ctor="new_default cmp=0")
            for k in (3, 1, 2, 5, 4):
                h.add(k)
            h.remove(3)
            if self.kind == "table":
                h.remove_first(noout=True); h.remove_last(noout=True)
            h.remove(2, noout=True); h.it_new(); h.it_next(); h.it_remove(noout=True)
            out.append(h.done())
        return out

    def probe_edges(self, h, keys):
        """the queries that walk the tree (foreach, contains_value, first/last, successor/predecessor)"""
        q1, q0 = self.q()
        for name in q0:
            h.query(name)
        for k in keys:
            h.query("greater_than", k)
            h.query("lesser_than", k)
        if self.kind == "table":
            h.query("contains_value", 30)
            h.query("contains_value", 0)

    def drain_and_probe(self, h, rng, key):
        """leave a single entry, query; empty the table in one of the possible ways, query again"""
        ks = h.sorted_keys()
        while len(ks) > 1:
            h.remove(ks.pop(rng.randrange(len(ks))), rng.random() < 0.3)
        if not ks:
            h.add(key())
        k = h.sorted_keys()[0]
        self.probe_edges(h, [k, key()])
        how = rng.choice(["remove", "first", "last", "all", "iter"])
        no = rng.random() < 0.5
        if how == "first" and self.kind == "table":
            h.remove_first(no)
        elif how == "last" and self.kind == "table":
            h.remove_last(no)
        elif how == "all":
            h.remove_all()
        elif how == "iter":
            h.it_new(); h.it_next(); h.it_remove(noout=no); h.it_next()
        else:
            h.remove(k, no)
        self.probe_edges(h, [k])

    def edge_histories(self):
        """single-entry and just-emptied tables before every walking query; noout variants; big keys"""
        out = []
        B = [5, 5 + 2**31, 5 + 2**32, 5 + 2**63, 2**64 - 1, 2**64 - 2, 6, 6 + 2**32]
        for cmpw in (0, 1, 2, 3):
            for how in ("remove", "first", "last", "all", "iter"):
                for no in (False, True):
                    if self.kind == "set" and how in ("first", "last"):
                        continue
                    h = _Hist(self.kind, cmpw)
                    self.probe_edges(h, [7])                       # never filled
                    h.add(7, 30)
                    self.probe_edges(h, [7, 6, 8])                 # single entry
                    if how == "first":
                        h.remove_first(no)
                    elif how == "last":
                        h.remove_last(no)
                    elif how == "all":
                        h.remove_all()
                    elif how == "iter":
                        h.it_new(); h.it_next(); h.it_remove(noout=no); h.it_next()
                    else:
                        h.remove(7, no)
                    self.probe_edges(h, [7])                       # just emptied
                    h.add(9, 0)
                    self.probe_edges(h, [9])
                    out.append(h.done())
            # keys 2^31 / 2^32 / 2^63 apart and near 2^64-1, in several insertion orders, all lookups, removals
            for order in (B, B[::-1], B[1::2] + B[0::2]):
                h = _Hist(self.kind, cmpw)
                for k in order:
                    h.add(k, k)
                self.probe(h, B + [5 + 2**33, 4, 2**63 + 6])
                if self.kind == "table":
                    for v in B:
                        h.query("contains_value", v)
                h.it_new()
                for _ in range(len(B) + 1):
                    h.it_next()
                for i, k in enumerate(order):
                    h.remove(k, i % 2 == 1)
                    h.query(self.q()[1][0])
                out.append(h.done())
        return out

    # ------------------------------------------------------------------ random
    def random(self, rng, n, tier, focus=None):
        return [self.one(rng, tier, focus) for _ in range(n)]

    def one(self, rng, tier, focus):
        allf = focus == "all"
        cmpw = rng.choice([0, 0, 1, 2, 3, 3])
        ctor = None
        if allf and rng.random() < 0.05:
            ctor = f"new_default cmp={cmpw}"
        sparse = iter(lambda: rng.randint(5, 15), None) if rng.random() < 1 / 3 else None
        # keys=buf in every focus: equal keys from distinct addresses (replace must keep the stored key, lookups must
        # go through the comparator)
        h = _Hist(self.kind, cmpw, ctor, sparse, extra=" keys=buf" if rng.random() < 0.3 else "")
        krange = rng.choice([4, 8, 8, 20, 20, 60, 300, 1000])
        q1, q0 = self.q()

        def key():
            r = rng.random()
            if r < 0.03:
                return 0
            if r < 0.15:                      # 2^31 / 2^32 / 2^63 apart from a small key, or near 2^64-1
                return big_variant(rng, rng.randint(1, min(krange, 8)))
            return rng.randint(1, krange)

        def noout():
            return rng.random() < 0.25

        def absent_or_extreme():
            ks = h.sorted_keys()
            r = rng.random()
            if ks and r < 0.3:
                return ks[0]
            if ks and r < 0.6:
                return ks[-1]
            if r < 0.8:
                return krange + rng.randint(1, 5)
            return key()

        nphases = rng.randint(2, 6)
        maxlen = 60 if tier == "quick" else 160
        if tier != "quick" and rng.random() < 0.05:     # soak: one long history on a large key space
            nphases, maxlen, krange = 40, 400, rng.choice([300, 1000, 5000])
        for _ in range(nphases):
            if focus in ("growth", "fault"):
                phase = rng.choice(["grow", "grow", "grow", "mixed", "lookup"])
            elif focus == "iter":
                phase = rng.choice(["grow", "iter", "iter", "iter", "mixed"])
            elif focus == "reject":
                phase = rng.choice(["grow", "reject", "reject", "shrink", "mixed"])
            else:
                phase = rng.choice(["grow", "grow", "shrink", "shrink", "mixed", "lookup", "iter", "ends", "drain"] + (["reject"] if allf else []))
            length = rng.randint(1, maxlen)
            if phase == "grow":
                style = rng.choice(["sorted", "reversed", "zigzag", "random", "random"])
                base = rng.randint(0, krange)
                cnt = min(length, krange)
                if style == "random":
                    ks = [key() for _ in range(cnt)]
                else:
                    ks = [base + k for k in orders(cnt)[style]]
                for k in ks:
                    fail = allf and rng.random() < 0.06
                    h.add(k, rng.choice([None, None, 0, rng.randint(1, 50), big_variant(rng, 30)]), fail=fail)
            elif phase == "shrink":
                style = rng.choice(["asc", "desc", "random", "first", "last", "present"])
                for _ in range(length):
                    ks = h.sorted_keys()
                    if not ks and rng.random() < 0.7:
                        break               # an empty table: at most a few rejected removals
                    no = noout()
                    if style == "first" and self.kind == "table":
                        h.remove_first(no)
                    elif style == "last" and self.kind == "table":
                        h.remove_last(no)
                    elif not ks or style == "random":
                        h.remove(key(), no)
                    elif style == "desc" or style == "last":
                        h.remove(ks[-1], no)
                    elif style == "asc" or style == "first":
                        h.remove(ks[0], no)
                    else:
                        h.remove(rng.choice(ks), no)
            elif phase == "ends" and self.kind == "table":
                for _ in range(length):
                    r = rng.random()
                    if r < 0.3:
                        h.remove_first(noout())
                    elif r < 0.6:
                        h.remove_last(noout())
                    else:
                        h.add(key())
            elif phase == "lookup":
                for _ in range(min(length, 25)):
                    r = rng.random()
                    if r < 0.7:
                        h.query(rng.choice(q1), key() if rng.random() < 0.6 else absent_or_extreme())
                    elif r < 0.95:
                        h.query(rng.choice(q0))
                    elif self.kind == "table":
                        h.query("contains_value", rng.choice([0, 1, 30, rng.randint(0, 50), 30 + 2**32, 30 + 2**63]))
            elif phase == "reject":
                for _ in range(min(length, 20)):
                    r = rng.random()
                    if r < 0.5:
                        h.query(rng.choice(q1), absent_or_extreme())
                    elif r < 0.7:
                        h.remove(krange + rng.randint(1, 9))
                    elif r < 0.8 and self.kind == "table":
                        (h.remove_first if rng.random() < 0.5 else h.remove_last)()
                    elif r < 0.9:
                        h.it_next(); h.it_remove(); h.it_remove(force=True)
                    else:
                        h.query(rng.choice(q0))
                if rng.random() < 0.3:
                    h.remove_all()
            elif phase == "iter":
                h.it_new()
                p_rm = rng.choice([0.0, 0.3, 0.5, 1.0])
                for _ in range(min(length, len(h.m) + 2)):
                    h.it_next()
                    if rng.random() < p_rm:
                        h.it_remove(noout=noout())
                    if rng.random() < 0.1 and h.m:     # replacing a value is not structural
                        h.add(rng.choice(list(h.m)), rng.randint(1, 50))
                    if rng.random() < 0.1:
                        h.query(rng.choice(q1), key())
            elif phase == "drain":
                self.drain_and_probe(h, rng, key)
            else:  # mixed
                for _ in range(length):
                    r = rng.random()
                    if r < 0.45:
                        h.add(key(), rng.choice([None, 0, rng.randint(1, 50)]), fail=allf and rng.random() < 0.05)
                    elif r < 0.8:
                        ks = h.sorted_keys()
                        h.remove(rng.choice(ks) if ks and rng.random() < 0.7 else key(), noout())
                    elif r < 0.9:
                        h.query(rng.choice(q1), key())
                    elif r < 0.97:
                        h.query(rng.choice(q0))
                    else:
                        h.remove_all()
        return h.done()


def _scale(self, rng, tier):
    """ROUND12 A: a few LONG histories — >= 1100 keys inserted in sorted / reversed / zig-zag / random order, then
    several hundred operations on the big tree: removals at the front, the back and in the middle (by key,
    remove_first / remove_last, through the iterator), replacements of existing keys, lookups and neighbour
    queries at the boundaries, new keys in between.  obs=sparse with an `observe` every ~50 operations and
    phys=quiet (checksum instead of the dump); half of them with keys=buf."""
    out = []
    styles = ["sorted", "reversed", "zigzag", "random", "inside_out"]
    nh = 4 if tier == "quick" else 24
    for i in range(nh):
        cmpw = [0, 3, 2, 1][i % 4] if i < 4 else rng.choice([0, 1, 2, 3])
        style = styles[i % len(styles)]
        buf = (i % 2 == 1)
        n = rng.randint(1100, 1300 if tier == "quick" else 1800)
        h = _Hist(self.kind, cmpw, None, iter(lambda: rng.randint(40, 60), None),
                  extra=" phys=quiet" + (" keys=buf" if buf else ""))
        base = rng.choice([0, 1, 1000, 2**32 - 600, 2**63 - 600])
        step = rng.choice([1, 1, 2, 7])
        ks = [base + step * k for k in orders(n, rng)[style]]
        for k in ks:
            h.add(k, rng.choice([None, None, 0, rng.randint(1, 50)]))
        q1, q0 = self.q()
        present = lambda: rng.choice(list(h.m)) if h.m else base
        nops = rng.randint(500, 800)
        done = 0
        while done < nops:
            phase = rng.choice(["front", "back", "middle", "iter", "replace", "lookup", "grow", "ends"])
            length = rng.randint(10, 80)
            done += length
            if phase in ("front", "back"):
                for _ in range(length):
                    no = rng.random() < 0.25
                    if self.kind == "table" and rng.random() < 0.6:
                        (h.remove_first if phase == "front" else h.remove_last)(no)
                    elif h.m:
                        sk = h.sorted_keys()
                        h.remove(sk[0] if phase == "front" else sk[-1], no)
            elif phase == "ends" and self.kind == "table":
                for _ in range(length):
                    (h.remove_first if rng.random() < 0.5 else h.remove_last)(rng.random() < 0.25)
            elif phase == "middle":
                sk = h.sorted_keys()
                for _ in range(length):
                    if not sk:
                        break
                    # around 1/3, the middle, 2/3 and uniformly
                    j = rng.choice([len(sk) // 3, len(sk) // 2, 2 * len(sk) // 3, rng.randrange(len(sk))])
                    h.remove(sk.pop(min(j, len(sk) - 1)), rng.random() < 0.25)
            elif phase == "iter":
                h.it_new()
                skip = rng.choice([0, 0, len(h.m) // 3, len(h.m) // 2])
                p_rm = rng.choice([0.2, 0.5, 1.0])
                for _ in range(min(skip, 400)):
                    h.it_next()
                for _ in range(length):
                    h.it_next()
                    if rng.random() < p_rm:
                        h.it_remove(noout=rng.random() < 0.25)
            elif phase == "replace":
                for _ in range(length):
                    h.add(present(), rng.randint(1, 50))          # existing key: the stored key must stay
            elif phase == "lookup":
                sk = h.sorted_keys()
                for _ in range(min(length, 30)):
                    r = rng.random()
                    if sk and r < 0.6:
                        k = rng.choice([sk[0], sk[-1], sk[len(sk) // 2], rng.choice(sk)])
                        h.query(rng.choice(q1), k)
                    elif r < 0.8:
                        h.query(rng.choice(q1), base + step * (n + rng.randint(1, 9)))
                    else:
                        h.query(rng.choice([x for x in q0 if not x.startswith("foreach")]))
            else:  # grow: new keys between and beyond the old ones
                for _ in range(length):
                    h.add(base + rng.randint(0, step * n + 50))
        # drain a good part through the front, then everything
        for _ in range(min(len(h.m), rng.randint(50, 150))):
            if self.kind == "table":
                h.remove_first(rng.random() < 0.25)
            else:
                h.remove(h.sorted_keys()[0])
        if rng.random() < 0.5:
            h.remove_all()
        out.append(h.done())
    return out


_TreeGen.scale = _scale


class TreeTableGen(_TreeGen):
    kind = "table"
    name = "treetable"


class TreeSetGen(_TreeGen):
    kind = "set"
    name = "treeset"


GENS = [TreeTableGen(), TreeSetGen()]
