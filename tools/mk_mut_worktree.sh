#!/bin/sh
# usage: mk_mut_worktree.sh <name>   -> /tmp/mut/<name> (detached worktree of /repo HEAD, built)
set -e
d=/tmp/mut/$1
git -C /repo worktree add --detach "$d" HEAD >/dev/null 2>&1
cmake -G Ninja -S "$d" -B "$d/_build" >/dev/null 2>&1
cmake --build "$d/_build" >/dev/null 2>&1
ctest --test-dir "$d/_build" -j8 2>&1 | tail -3
mkdir -p "$d/OUT"
echo "$d"
