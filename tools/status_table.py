#!/usr/bin/env python3
"""Rewrites the STATUS-TABLE section of DESIGN.md from evidence/*.json (run after a full quick run)."""
import json
from pathlib import Path
ROOT = Path(__file__).resolve().parent.parent
props = [json.loads(l) for l in open(ROOT / "properties.jsonl")]
rows = []
for p in props:
    f = ROOT / "evidence" / f"{p['id']}.json"
    if not f.exists():
        continue
    e = json.loads(f.read_text()); c = e["coverage"]
    files = sorted({t.split(".")[2] for t in c.get("theorems", []) if t.startswith("CC.Properties.")})
    part = [t.split(".")[-1] for t in c.get("theorems", []) if "partial" in t.lower()]
    model = [t for t in c.get("theorems", []) if t.endswith("_model")]
    conts = ", ".join(s["container"] for s in c.get("streams", []))
    kf = len([k for k in c.get("known_findings", []) if k.startswith("KNOWN-FINDING")])
    rows.append(f"| {p['id']} | {c['obligations']} ({len(part)} `_partial`, {len(model)} `_model`) | {len(files)} | {conts} | {c['evaluations']} / {c['distinct_nontrivial']} | {kf} | {e['wall_s']} s |")
table = ("| property | theorems audited (of which partial / model-only) | property files | containers run by the quick check | operations / distinct (op, status, layout) | KNOWN-FINDING lines | quick wall time |\n|---|---|---|---|---|---|---|\n" + "\n".join(rows))
p = ROOT / "DESIGN.md"; s = p.read_text()
a, b = "<!-- STATUS-TABLE-BEGIN -->", "<!-- STATUS-TABLE-END -->"
s = s[:s.index(a) + len(a)] + "\n" + table + "\n" + s[s.index(b):]
p.write_text(s)
print(len(rows), "rows")
