#!/usr/bin/env python3
"""Rewrites the section of DESIGN.md between the SEEDED-TABLE markers from seeded/*/meta.json and seeded/RESULTS.json."""
import json, re
from pathlib import Path
ROOT = Path(__file__).resolve().parent.parent
res = json.loads((ROOT / "seeded" / "RESULTS.json").read_text())
rows = []
for d in sorted((ROOT / "seeded").iterdir()):
    if not (d / "meta.json").exists():
        continue
    m = json.loads((d / "meta.json").read_text())
    r = res.get(d.name, {})
    det = ", ".join(p + (" (thorough tier)" if v.get("tier") == "thorough" else "") for p, v in sorted(r.items()) if v.get("detected")) or "—"
    nfi = ", ".join(p for p, v in sorted(r.items()) if v.get("detected") and "no-failing-input-found" in v.get("first", ""))
    miss = ", ".join(p for p, v in sorted(r.items()) if not v.get("detected")) or "—"
    what = (m.get("what_it_breaks") or m.get("title") or "").replace("|", "/").replace("\n", " ")
    need = (m.get("needs_to_manifest") or "").replace("|", "/").replace("\n", " ")
    files = ", ".join(m.get("files_touched", []))
    rows.append(f"| {d.name} | {files} | {what[:220]} | {need[:200]} | {det}{' (without a failing input: ' + nfi + ')' if nfi else ''} | {miss} |")
table = ("| seed | file | what it breaks | needs to manifest | detected by check | run but not detected by |\n|---|---|---|---|---|---|\n" + "\n".join(rows))
p = ROOT / "DESIGN.md"
s = p.read_text()
a, b = "<!-- SEEDED-TABLE-BEGIN -->", "<!-- SEEDED-TABLE-END -->"
if a in s:
    s = s[:s.index(a) + len(a)] + "\n" + table + "\n" + s[s.index(b):]
    p.write_text(s)
    print("updated", len(rows), "rows")
else:
    print(table)
