#!/usr/bin/env python3
"""Seeded changes (realistic property-breaking patches written by independent sub-agents).

  seeded.py verify <dir-with-patch.diff,demo.c,build.sh>   confirm: applies, 16 tests pass, demo fails with / passes without
  seeded.py adopt  <dir> <seed-id>                         verify, then copy to /verif/seeded/<seed-id>/
  seeded.py run    <seed-id|all> [--props C01,C06] [--tier quick]
                   apply the patch to a scratch worktree of /repo (VERIF_REPO), run the checks, report detection

Checks are run against a scratch worktree through VERIF_REPO so that /repo itself is never modified
while other work is going on; `--in-repo` applies to /repo itself (git apply … ; checkout -- . afterwards).
"""
import json, os, shutil, subprocess, sys, tempfile, time
from pathlib import Path

ROOT = Path(__file__).resolve().parent.parent
SEEDED = ROOT / os.environ.get("SEEDED_DIR", "seeded")


def sh(cmd, cwd=None, env=None, timeout=3600):
    r = subprocess.run(cmd, shell=isinstance(cmd, str), cwd=cwd, env=env, stdout=subprocess.PIPE,
                       stderr=subprocess.STDOUT, text=True, timeout=timeout)
    return r.returncode, r.stdout


def scratch_worktree():
    d = tempfile.mkdtemp(prefix="seedwt_", dir="/tmp")
    os.rmdir(d)
    rc, out = sh(["git", "-C", "/repo", "worktree", "add", "--detach", d, "HEAD"])
    if rc != 0:
        raise RuntimeError(out)
    return Path(d)


def drop_worktree(d):
    sh(["git", "-C", "/repo", "worktree", "remove", "--force", str(d)])
    shutil.rmtree(d, ignore_errors=True)


def run_tests(wt):
    rc, out = sh(f"cmake -G Ninja -S {wt} -B {wt}/_build >/dev/null 2>&1 && cmake --build {wt}/_build 2>&1 | tail -5 && ctest --test-dir {wt}/_build -j8 2>&1 | tail -5")
    ok = "100% tests passed" in out and "out of 16" in out
    return ok, out


def run_demo(wt, src):
    """build.sh is run from the worktree root with OUT/<n>/ replaced by a copy inside the worktree"""
    dst = wt / "OUT" / "1"
    if dst.exists():
        shutil.rmtree(dst)
    dst.mkdir(parents=True)
    for f in ("demo.c", "build.sh"):
        shutil.copy(src / f, dst / f)
    bs = (dst / "build.sh").read_text()
    import re
    bs = re.sub(r"OUT/\d+/", "OUT/1/", bs)
    bs = re.sub(r"/tmp/mut/\w+", str(wt), bs)
    (dst / "build.sh").write_text(bs)
    rc, out = sh("sh OUT/1/build.sh", cwd=wt)
    if rc != 0:
        return None, "build failed: " + out[-500:]
    exe = dst / "demo"
    if not exe.exists():
        cands = [p for p in wt.rglob("demo") if p.is_file() and os.access(p, os.X_OK)]
        if not cands:
            return None, "no demo binary"
        exe = cands[0]
    try:
        rc, out = sh([str(exe)], cwd=wt, timeout=120)
    except subprocess.TimeoutExpired:
        return 124, "timeout"
    return rc, out[-400:]


def verify(src):
    src = Path(src)
    res = {}
    wt = scratch_worktree()
    try:
        rc0, out0 = run_demo(wt, src)
        res["demo_clean_rc"] = rc0
        rc, out = sh(["git", "apply", str(src / "patch.diff")], cwd=wt)
        res["applies"] = rc == 0
        if rc != 0:
            res["apply_err"] = out
            return res
        ok, out = run_tests(wt)
        res["tests_pass_with_patch"] = ok
        if not ok:
            res["tests_out"] = out[-400:]
        rc1, out1 = run_demo(wt, src)
        res["demo_patched_rc"] = rc1
        res["demo_patched_out"] = out1[-300:] if out1 else ""
    finally:
        drop_worktree(wt)
    res["ok"] = bool(res.get("applies") and res.get("tests_pass_with_patch") and res.get("demo_clean_rc") == 0
                     and res.get("demo_patched_rc") not in (0, None))
    return res


def adopt(src, sid):
    src = Path(src)
    res = verify(src)
    print(json.dumps(res, indent=1))
    if not res["ok"]:
        return 1
    dst = SEEDED / sid
    dst.mkdir(parents=True, exist_ok=True)
    for f in ("patch.diff", "demo.c", "build.sh"):
        shutil.copy(src / f, dst / f)
    meta = {}
    if (src / "meta.json").exists():
        try:
            meta = json.loads((src / "meta.json").read_text())
        except Exception:
            meta = {"raw": (src / "meta.json").read_text()}
    meta["verified"] = dict(res, what_i_ran="tools/seeded.py verify: git apply in a scratch worktree of /repo HEAD; cmake+ctest 16/16 pass with the patch; demo exits 0 on the clean tree and non-zero with the patch")
    (dst / "meta.json").write_text(json.dumps(meta, indent=1))
    print("adopted", dst)
    return 0


def run(sid, props, tier, in_repo=False):
    sdir = SEEDED / sid
    meta = json.loads((sdir / "meta.json").read_text())
    if not props:
        props = [meta.get("property")]
    if in_repo:
        wt = Path("/repo")
    else:
        wt = scratch_worktree()
    results = {}
    try:
        rc, out = sh(["git", "apply", str(sdir / "patch.diff")], cwd=wt)
        if rc != 0:
            print("patch does not apply:", out)
            return {}
        env = dict(os.environ, VERIF_REPO=str(wt), VERIF_TIER=tier, VERIF_EVID="/tmp/seeded_evid", VERIF_OUT=f"/tmp/seeded_out/{sid}")
        for p in props:
            t0 = time.time()
            rc, out = sh([str(ROOT / "check"), p, "--tier", tier], cwd=ROOT, env=env, timeout=7200)
            viol = [l for l in out.split("\n") if l.startswith("VIOLATION")]
            os.makedirs(f"/tmp/seeded_out/{sid}", exist_ok=True)
            open(f"/tmp/seeded_out/{sid}/{p}.log", "w").write(out)
            notes = [l[:300] for l in out.split("\n") if l.startswith("NOTE ")]
            results[p] = dict(rc=rc, violations=viol[:3], notes=notes[:2], wall=round(time.time() - t0, 1))
            print(f"  {sid} check {p}: rc={rc} {viol[:1]}", flush=True)
    finally:
        if in_repo:
            sh(["git", "-C", "/repo", "checkout", "--", "."])
        else:
            drop_worktree(wt)
    return results


def main():
    a = sys.argv[1:]
    if not a:
        print(__doc__)
        return 2
    if a[0] == "verify":
        print(json.dumps(verify(a[1]), indent=1))
    elif a[0] == "adopt":
        return adopt(a[1], a[2])
    elif a[0] == "run":
        props = []
        tier = "quick"
        in_repo = "--in-repo" in a
        if "--props" in a:
            props = a[a.index("--props") + 1].split(",")
        if "--tier" in a:
            tier = a[a.index("--tier") + 1]
        ids = sorted(p.name for p in SEEDED.iterdir() if (p / "patch.diff").exists()) if a[1] == "all" else [a[1]]
        allres = {}
        for sid in ids:
            allres[sid] = run(sid, props, tier, in_repo)
        print(json.dumps(allres, indent=1))
    return 0


if __name__ == "__main__":
    sys.exit(main())
