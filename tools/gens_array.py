"""History generator for CC_Array (container `array`, harness/shim_array.c, Driver/Array.lean).

Op vocabulary (positional arguments first, `o=<slot>` selects the array, default slot 0):
  new cap=<n> exp=<decimal> | new_default
  add v | add_at v i | replace_at v i | swap_at i j | remove v | remove_at i | remove_last
  (replace_at, remove, remove_at, remove_last, it_remove, it_replace, zit_remove, zit_replace take `noout=1`:
   a NULL out-pointer is passed and no out= is printed)
  remove_all | remove_all_free | reverse | filter_mut | trim_capacity
  get_at i | get_last | index_of v | contains v | contains_value v | size | capacity | map | reduce r0
  sort | sort_mod
  it_new | it_next | it_remove | it_add v | it_replace v | it_index
  zit_new o=<k> p=<j> (p = k allowed: the same array on both sides) | zit_next | zit_remove | zit_add v w | zit_replace v w | zit_index
  mk_sub b e to=<k> | mk_copy_shallow to=<k> | mk_copy_deep to=<k> | mk_filter to=<k>
  mk_new to=<k> cap=<n> exp=<decimal> | mk_new_default to=<k>   (a further independent array in a free slot)
  drop o=<k> | destroy | destroy_cb | observe

focus: None (C01 core ops only), "iter", "derived", "sort", "reject", "growth", "fault", "all";
`scale(rng, tier)`: a few long sparse histories (1100-1500 elements, several hundred calls after the fill).
No `fail=` is ever generated (the runner adds refusals).
About a third of the histories of every focus run in sparse observation mode (`obs=sparse` on the
constructor line, `observe` every 5-15 operations and before the final destroy; CONVENTIONS addendum 2).
The generator keeps ideal Python lists only to choose mostly-valid arguments; it is not an oracle."""
import itertools
import random

SIZE_MAX = 2 ** 64 - 1
FACTORS = ["0.5", "1", "1.1", "1.5", "2", "3"]
NSLOT = 4


def pick_value(rng):
    """small values and duplicates; 0 (NULL); and — CONVENTIONS addendum 3 — pairs that differ by exactly
    2^31, 2^32, 2^63 (a small `v` and `v + 2^k`) and values near 2^64 - 1, so that a comparison that
    truncates a pointer difference to 32 bits, or treats elements as signed, is exposed"""
    r = rng.random()
    if r < 0.08:
        return 0
    if r < 0.16:
        return rng.randint(1, 6) + rng.choice([2 ** 31, 2 ** 32, 2 ** 63])
    if r < 0.175:
        return 2 ** 64 - 1000          # the deep-copy callback (v + 1000, 64-bit) maps it to 0 = NULL
    if r < 0.20:
        return rng.choice([2 ** 64 - 1, 2 ** 64 - 2, 2 ** 64 - 7, 2 ** 64 - 1000, 2 ** 63 - 1, 2 ** 63, 2 ** 32 - 1, 2 ** 32,
                           2 ** 31 - 1, 2 ** 31, 2 ** 63 + 2 ** 32 + 3])
    if r < 0.58:
        return rng.randint(1, 6)
    return rng.randint(1, 99)


def maybe_noout(rng, p=0.3):
    """CONVENTIONS addendum 3: operations with an optional out-pointer are generated with and without it"""
    return " noout=1" if rng.random() < p else ""



def sparsify(rng, hist):
    """CONVENTIONS addendum 2: a sparse-observation session — `obs=sparse` on the constructor line, the obs
    section of every op then carries only status / out-values / callback log, and the content is swept only
    by `observe` (every 5-15 operations and once before the final destroy)."""
    if not hist or not hist[0].startswith("new"):
        return hist
    out = [hist[0] + " obs=sparse"]
    gap = rng.randint(5, 15)
    body = hist[1:-1] if hist[-1].startswith("destroy") else hist[1:]
    for op in body:
        out.append(op)
        gap -= 1
        if gap <= 0:
            out.append("observe")
            gap = rng.randint(5, 15)
    if hist[-1].startswith("destroy"):
        out += ["observe", hist[-1]]
    return out


def sparse_third(hists, seed):
    """every third history (deterministically for small-scope lists) runs in sparse mode"""
    r = random.Random(seed)
    return [sparsify(r, h) if i % 3 == 1 else h for i, h in enumerate(hists)]


class ArrayGen:
    name = "array"

    # ------------------------------------------------------------------ small scope
    def small_scope(self, tier, focus=None):
        return sparse_third(self._small_scope(tier, focus), 12345)

    def _small_scope(self, tier, focus=None):
        out = []
        core = ["add 1", "add 2", "add 0", "add 1", "add_at 3 0", "add_at 4 1", "remove_at 0", "remove_last",
                "remove 1", "reverse", "filter_mut", "trim_capacity", "replace_at 5 0", "swap_at 0 1", "remove_all"]
        tail = ["index_of 1", "contains 1", "contains_value 11", "get_at 0", "get_at 1", "get_last", "map", "reduce 7"]
        core = core + ["remove 1 noout=1", "replace_at 6 0 noout=1", f"add {1 + 2 ** 63}", f"add {2 ** 64 - 1}", f"remove {1 + 2 ** 31}",
                       f"add {1 + 2 ** 31}"]
        if focus in ("sort", "all"):
            core = core + ["sort", "sort_mod", "add 12", "add 21"]
        if focus in ("iter", "all"):
            core = [c for c in core if c not in ("swap_at 0 1", "replace_at 5 0", "add 0")] + \
                   ["it_new", "it_next", "it_remove", "it_add 8", "it_replace 9", "it_index", "it_remove noout=1", "it_replace 7 noout=1"]
        if focus in ("derived", "all", "fault"):
            core = [c for c in core if c not in ("swap_at 0 1", "replace_at 5 0", "add 0", "reverse")] + \
                   ["mk_sub 0 1 to=1", "mk_copy_shallow to=1", "mk_filter to=1", "mk_copy_deep to=1", "add 7 o=1", "drop o=1"]
        if focus == "reject":
            core = ["add 1", "add 2", "remove_last", "remove_all"]
            for b in (0, 1, 2, 3, 2 ** 31, 2 ** 63, SIZE_MAX - 1, SIZE_MAX):
                core += [f"add_at 9 {b}", f"remove_at {b}", f"get_at {b}", f"replace_at 9 {b}", f"swap_at 0 {b}",
                         f"swap_at {b} 0", f"mk_sub 0 {b} to=1", f"mk_sub {b} 1 to=1"]
            core += ["remove 7", "index_of 7", "filter_mut", "get_last", "mk_filter to=1", "drop o=1"]
        if focus == "growth":
            core = ["add 1", "add 2", "add_at 3 0", "remove_last", "trim_capacity"]
        # two layers: a trimmed alphabet enumerated deeper, the full alphabet enumerated shallower
        base = ["add 1", "add 2", "add 0", "add_at 3 0", "add_at 4 1", "remove_at 0", "remove_last", "remove 1",
                "filter_mut", "trim_capacity",
                # addendum 3: NULL out-pointers; an element exactly 2^32 away from another one
                "remove_last noout=1", "remove_at 0 noout=1", f"add {1 + 2 ** 32}"]
        quick = tier == "quick"
        if focus == "growth":
            layers = [(core, 4 if quick else 6, [(1, "2"), (1, "1.5"), (2, "1.1"), (3, "3")] if quick else
                       [(c, e) for c in (1, 2, 3) for e in ("2", "1.5", "1.1")])]
        elif focus == "reject":
            layers = [(core, 2, [(2, "2")] if quick else [(1, "2"), (2, "2"), (3, "1.5")])]
        else:
            layers = [(base, 3 if quick else 4, [(1, "2"), (2, "2"), (1, "1.5"), (3, "2")] if quick else
                       [(c, e) for c in (1, 2, 3, 4) for e in ("2", "1.5")]),
                      (core, 2 if quick else 3, [(c, e) for c in (1, 2, 3) for e in ("2", "1.5")] if quick else
                       [(c, e) for c in (1, 2, 3, 4) for e in ("2", "1.5", "1.1")])]
        for alphabet, depth, confs in layers:
            for cap, ex in confs:
                for n in range(0, depth + 1):
                    for seq in itertools.product(alphabet, repeat=n):
                        out.append([f"new cap={cap} exp={ex}"] + list(seq) + tail + ["destroy"])
        out.append(["new_default", "add 1", "add 2", "remove_last", "get_last", "destroy_cb"])
        out.append(["new cap=0 exp=2", "destroy"])
        if focus in ("iter", "growth", "all"):
            out += self.same_array_zips()
        if focus in ("iter", "all"):
            # iterator sessions interleaved with direct calls on the iterated array
            direct = ["remove_last", "remove_at 0", "remove_all", "add 9", "add_at 8 0", "trim_capacity"]
            itops = ["it_next", "it_add 7", "it_remove", "it_replace 6", "it_index"]
            for cap, ex in ((2, "2"), (3, "1.5")):
                for d in direct:
                    for a in itops:
                        for b in itops:
                            out.append([f"new cap={cap} exp={ex}", "add 1", "add 2", "add 3", "it_new", "it_next", "it_next", d, a, b,
                                        "it_next", "get_last", "destroy"])
                for short in (0, 1):
                    out.append([f"new cap={cap} exp={ex}", "add 1", "add 2", "add 3", "mk_copy_shallow to=1", "zit_new o=0 p=1", "zit_next", "zit_next",
                                "zit_next", f"remove_last o={short}", f"remove_last o={short}", "zit_add 7 8", "zit_remove", "zit_replace 1 2", "zit_next",
                                f"add 5 o={short}", "zit_next", "zit_add 9 10", "zit_index", "destroy"])
                out.append([f"new cap={cap} exp={ex}", "add 1", "add 2", "add 3", "it_new", "it_next", "it_next", "it_next", "remove_last",
                            "remove_last", "it_add 7", "it_remove", "it_replace 5", "it_next", "add 4", "add 5", "it_next", "it_add 8", "destroy"])
        if focus in ("sort", "all"):
            out += self.sort_mutate_sort()
            out += self.sort_append_sort((16, 17, 24, 40) if tier == "quick" else (16, 17, 24, 40, 100))
        if focus in ("derived", "all"):
            for conf_first in (True, False):
                for k, dst in ((1, 2), (2, 1), (3, 1)):
                    for cap, ex in ((1, "2"), (2, "1.5"), (8, "2")):
                        for head in ("new cap=2 exp=2", "new_default"):
                            out.append([head] + self.recreate_other_triple(k, dst, conf_first, cap, ex) + ["add 1", "destroy"])
        if focus in ("reject", "all"):
            # capacities whose byte size is absurd or wraps (A9): 2^61-1 is refused by the allocator,
            # 2^61 and above are invalid
            for cap in (2 ** 61 - 1, 2 ** 61, 2 ** 61 + 1, 2 ** 62, 2 ** 63, SIZE_MAX - 1, SIZE_MAX):
                for ex in ("2", "1.5", "0.5"):
                    out.append([f"new cap={cap} exp={ex}", "add 1", "destroy"])
            # growth steps whose byte size wraps (A10): refused with CC_ERR_MAX_CAPACITY, state untouched
            for cap, ex in ((1, 2 ** 61), (1, 2 ** 62), (1, 2 ** 63), (2, 2 ** 60), (3, 2 ** 61), (1, 2 ** 64)):
                out.append([f"new cap={cap} exp={ex}"] + [f"add {i}" for i in range(1, cap + 2)] +
                           ["add_at 9 0", "it_new", "it_next", "it_add 8", "remove_last", "add 7", "destroy"])
        out.append(["new cap=2", "add 1", "add 2", "add 3", "destroy_cb"])
        return out

    def sort_mutate_sort(self):
        """sort, then one or more mutations of every kind that really break sortedness, then sort again
        with the same comparator and with the other one (a sorted-ness flag or cached result that a
        mutator forgets to invalidate shows here); also the derived arrays of a sorted array"""
        fill = ["add 31", "add 12", "add 23", "add 4", "add 15"]      # natural order and order mod 10 differ
        muts = [["map"], ["replace_at 99 0"], ["replace_at 0 4"], ["swap_at 0 4"], ["reverse"], ["remove 4"], ["remove_at 0"],
                ["remove_last"], ["add 0"], ["add 99", "add 1"], ["add_at 98 0"], ["add_at 97 2"], ["filter_mut"],
                ["trim_capacity", "add 2"], ["remove_all", "add 9", "add 3"],
                ["it_new", "it_next", "it_replace 96"], ["it_new", "it_next", "it_next", "it_add 95"],
                ["it_new", "it_next", "it_next", "it_remove", "it_add 94"], ["it_new", "it_add 93"],
                ["mk_copy_shallow to=1", "zit_new o=0 p=1", "zit_next", "zit_replace 92 91", "sort o=1", "get_at 0 o=1"],
                ["mk_copy_deep to=1", "zit_new o=0 p=1", "zit_next", "zit_next", "zit_add 90 89", "sort_mod o=1", "get_at 0 o=1"],
                ["mk_copy_shallow to=1", "zit_new o=1 p=0", "zit_next", "zit_next", "zit_remove", "zit_add 88 87"],
                ["zit_new o=0 p=0", "zit_next", "zit_replace 86 85"], ["zit_new o=0 p=0", "zit_next", "zit_add 84 83"],
                ["swap_at 1 3", "map", "replace_at 82 2"], ["reverse", "add 0", "remove_at 1", "it_new", "it_next", "it_replace 81"]]
        tail = ["get_at 0", "get_last", "index_of 15", "map", "destroy"]
        out = []
        for mu in muts:
            for s1, s2 in (("sort", "sort"), ("sort", "sort_mod"), ("sort_mod", "sort_mod"), ("sort_mod", "sort")):
                out.append(["new cap=2 exp=2"] + fill + [s1, "get_at 0", "map"] + mu + ["get_at 0", s2] + tail)
        # derived arrays of a sorted array are sorted on their own
        for mk in ("mk_sub 1 3 to=1", "mk_copy_shallow to=1", "mk_copy_deep to=1", "mk_filter to=1"):
            for s1, s2 in (("sort", "sort_mod"), ("sort_mod", "sort"), ("sort", "sort")):
                out.append(["new cap=4 exp=1.5"] + fill + [s1, mk, "reverse o=1", "add 0 o=1", s2 + " o=1", "get_at 0 o=1",
                                                            "get_last o=1", "reverse", s2, "get_at 0", "map o=1", "destroy"])
        return out

    def recreate_other_triple(self, k=1, dst=2, conf_first=True, cap=2, ex="2", vals=(2, 5, 4, 7)):
        """an array is built in slot k, used, destroyed, and immediately re-created in the same slot with the
        OTHER allocator triple (nothing is allocated in between, so the allocator may hand out the same
        addresses); then every builder derives an array from it, the derived array is grown by appends,
        observed and dropped.  Anything remembered about the first array by address (configuration,
        allocators) is stale for the second."""
        mk_a = f"mk_new to={k} cap={cap} exp={ex}"
        mk_b = f"mk_new_default to={k}"
        first, second = (mk_a, mk_b) if conf_first else (mk_b, mk_a)
        ops = [first, f"add 1 o={k}", f"add 3 o={k}", f"drop o={k}", second] + [f"add {v} o={k}" for v in vals]
        for b in (f"mk_sub 1 2 to={dst} o={k}", f"mk_copy_shallow to={dst} o={k}", f"mk_copy_deep to={dst} o={k}",
                  f"mk_filter to={dst} o={k}"):
            ops += [b] + [f"add {10 + i} o={dst}" for i in range(7)] + ["observe", f"capacity o={dst}", f"drop o={dst}"]
        ops += [f"add 6 o={k}", "observe", f"drop o={k}"]
        return ops

    # ------------------------------------------------------------------ scale
    def scale(self, rng, tier):
        """a few LONG sparse histories: 1100-1500 elements, then several hundred calls that hit the front,
        the middle and the back (long tails behind a removal, long shifts in front of an insertion),
        iterator sweeps with removals, sorts, reverse, trim, copies and filters; `observe` every ~50 calls.
        (`filter_mut` is left to the other streams: the model replays its per-cluster memmoves on a list, which
        is quadratic per move.)"""
        n_hist = 4 if tier == "quick" else 24
        caps = [1, 7, 8, 9, 255, 256, 257, 300, 1000, 1023, 1024, 1025, 4100]
        out = []
        for h in range(n_hist):
            cap = caps[(h * 5 + rng.randint(0, 2)) % len(caps)]
            ex = ["1.01", "1.5", "2", "3"][h % 4]
            n = rng.randint(1100, 1500)
            ops = [f"new cap={cap} exp={ex} obs=sparse"]
            xs = []
            gap = [rng.randint(35, 60)]

            def emit(op):
                ops.append(op)
                gap[0] -= 1
                if gap[0] <= 0:
                    ops.append("observe"); gap[0] = rng.randint(35, 60)
            for i in range(n):
                v = (i * 7 + 3) if rng.random() < 0.9 else pick_value(rng)     # mostly distinct
                emit(f"add {v}"); xs.append(v)
            def sorted_tail(cmpk):
                # ordered run + short tail: sort, append 2 .. size/8 values (some not below the maximum), sort
                emit(cmpk); xs.sort(key=(lambda v: v % 10) if cmpk == "sort_mod" else None)
                top = max(xs)
                for j in range(rng.randint(2, max(2, min(len(xs) // 8, 40)))):
                    q = rng.random()
                    v = (top + 10 * (j + 1) + 9 - (top % 10) if q < 0.5 else top if q < 0.7 else rng.randint(0, 99))
                    v = min(v, 2 ** 64 - 1)
                    emit(f"add {v}"); xs.append(v)
                emit(cmpk); xs.sort(key=(lambda v: v % 10) if cmpk == "sort_mod" else None)
                emit("observe")
            emit("capacity")
            sorted_tail("sort")
            if h % 2 == 0 or ex == "3":
                emit("trim_capacity")       # exactly full: the next insertion grows
            for _ in range(rng.randint(250, 400)):
                m = len(xs)
                r = rng.random()
                if m < 40:
                    v = rng.randint(1, 10 ** 6); emit(f"add {v}"); xs.append(v); continue
                third = m // 3
                if r < 0.14:
                    i = rng.choice([0, 1, third, m // 2, m - 40, rng.randint(0, m - 35)])
                    emit(f"remove_at {i}{maybe_noout(rng, 0.2)}"); del xs[i]
                elif r < 0.24:
                    i = rng.choice([0, 2, third, rng.randint(0, m // 2)])
                    v = xs[i]; emit(f"remove {v}{maybe_noout(rng, 0.2)}"); xs.remove(v)
                elif r < 0.30:
                    emit("remove_last"); xs.pop()
                elif r < 0.42:
                    i = rng.choice([0, 1, third, m // 2, m, m - 1]); v = 10 ** 7 + rng.randint(0, 10 ** 6)
                    emit(f"add_at {v} {i}"); xs.insert(i, v)
                elif r < 0.52:
                    v = 2 * 10 ** 7 + rng.randint(0, 10 ** 6); emit(f"add {v}"); xs.append(v)
                elif r < 0.62:
                    emit(f"get_at {rng.choice([0, 1, third, m - 1, m, m + 1])}")
                elif r < 0.66:
                    i = rng.choice([0, third, m - 1]); v = rng.randint(1, 999); emit(f"replace_at {v} {i}"); xs[i] = v
                elif r < 0.70:
                    i, j = rng.choice([(0, m - 1), (third, m // 2), (1, m - 2)]); emit(f"swap_at {i} {j}"); xs[i], xs[j] = xs[j], xs[i]
                elif r < 0.74:
                    emit(f"index_of {xs[rng.choice([0, third, m - 1])]}")
                elif r < 0.77:
                    emit(f"contains {xs[rng.randint(0, m - 1)]}")
                elif r < 0.80:
                    emit("get_last")
                elif r < 0.83:
                    # iterator sweep over the front with removals and insertions (long tails behind)
                    emit("it_new"); pos = 0
                    for _ in range(rng.randint(3, 25)):
                        emit("it_next"); pos += 1
                        q = rng.random()
                        if q < 0.3: emit("it_remove"); pos -= 1; del xs[pos]
                        elif q < 0.5: v = 3 * 10 ** 7 + rng.randint(0, 999); emit(f"it_add {v}"); xs.insert(pos, v); pos += 1
                        elif q < 0.6: v = rng.randint(1, 99); emit(f"it_replace {v}"); xs[pos - 1] = v
                elif r < 0.86:
                    emit("reverse"); xs.reverse()
                elif r < 0.885:
                    emit("sort"); xs.sort()
                elif r < 0.90:
                    emit("sort_mod"); xs.sort(key=lambda v: v % 10)
                elif r < 0.92:
                    emit("trim_capacity"); emit("capacity")
                elif r < 0.95:
                    kind = rng.choice(["mk_copy_shallow", "mk_copy_deep", "mk_filter", f"mk_sub {third} {m - 2}", "mk_sub 0 40"])
                    emit(f"{kind} to=1")
                    emit("remove_at 0 o=1"); emit("add 5 o=1"); emit("get_last o=1"); emit("observe"); emit("drop o=1")
                elif r < 0.96:
                    emit("map")
                elif r < 0.965:
                    emit("reduce 7")
                else:
                    emit("capacity")
            sorted_tail("sort_mod" if h % 2 else "sort")
            ops += ["observe", "get_at 0", "get_last", "observe", "destroy_cb" if h % 2 else "destroy"]
            out.append(ops)
        return out

    def sort_append_sort(self, ns=(16, 17, 24, 40, 100)):
        """sort, append a SHORT tail (2 .. size/8 values: above the maximum, equal to it, small ones), sort
        again with the same and the other comparator: the shape "ordered run + short tail" that an
        insertion fast path of a sort would take"""
        out = []
        for n in ns:
            vals = [((i * 37 + 11) % 1009) + 20 for i in range(n)]
            mx = max(vals)
            for k in sorted({2, 3, max(2, n // 8)}):
                tails = [[mx + 5, mx + 9, 1, mx, mx + 7, 2, mx + 30][:k] if k <= 7 else [mx + 3 * j if j % 3 else j for j in range(1, k + 1)],
                         [1, mx + 4, mx + 4, 3, mx + 1][:k] if k <= 5 else [mx + j for j in range(k)],
                         [mx, mx][:k] + [mx + 1] * max(0, k - 2)]
                for tail in tails:
                    for s1, s2 in (("sort", "sort"), ("sort_mod", "sort_mod"), ("sort", "sort_mod"), ("sort_mod", "sort")):
                        tl = [(v // 10) * 10 + 9 if i % 2 else v for i, v in enumerate(tail)] if s2 == "sort_mod" else tail
                        out.append(["new cap=4 exp=2"] + [f"add {v}" for v in vals] + [s1, "get_at 0", "get_last"] +
                                   [f"add {v}" for v in tl] + [s2, "get_at 0", f"get_at {n - 1}", f"get_at {n}", "get_last", "observe", "destroy"])
        return out

    def same_array_zips(self):
        """zip iterator with the same array on both sides, at capacities 1-4 with exactly 0 or 1 free
        slots (by construction, and after a trim): every call acts twice on one object, so `zit_add`
        needs two slots and the second inner `add_at` must re-check the room"""
        out = []
        progs = [["zit_add 7 8", "zit_next", "zit_add 9 10", "zit_index", "zit_next", "zit_remove", "zit_next", "zit_replace 5 6"],
                 ["zit_next", "zit_add 7 8", "zit_add 9 10", "zit_next", "zit_next", "zit_remove", "zit_remove", "zit_next"],
                 ["zit_next", "zit_next", "zit_add 7 8", "zit_remove", "zit_add 9 10", "zit_replace 5 6", "zit_next", "zit_next", "zit_remove"],
                 ["zit_next", "zit_remove", "zit_add 7 8", "zit_next", "zit_next", "zit_next", "zit_remove", "zit_index"],
                 # direct calls between the zip calls: the array is shortened behind the cursor, then lengthened
                 ["zit_next", "zit_next", "remove_last", "remove_last", "zit_add 7 8", "zit_remove", "zit_replace 5 6", "zit_next", "add 4",
                  "zit_next", "zit_add 9 10"]]
        tail = ["get_last", "capacity", "add 3", "map", "destroy"]
        for cap in (1, 2, 3, 4):
            for ex in ("2", "1.5", "1.1"):
                for nfill in sorted({max(cap - 1, 0), cap}):
                    fill = [f"add {i + 1}" for i in range(nfill)]
                    for pr in progs:
                        out.append([f"new cap={cap} exp={ex}"] + fill + ["zit_new o=0 p=0"] + pr + tail)
        # self-zip x capacity {1, 2} x fail=k: which of the (up to two) growth steps of one zit_add is refused
        for cap in (1, 2):
            for ex in ("2", "1.5"):
                for nfill in range(0, cap + 1):
                    fill = [f"add {i + 1}" for i in range(nfill)]
                    for pre in ([], ["zit_next"]):
                        for kf in (1, 2, 3):
                            out.append([f"new cap={cap} exp={ex}"] + fill + ["zit_new o=0 p=0"] + pre +
                                       [f"zit_add 7 8 fail={kf}", "zit_index", "capacity", "zit_next", f"zit_add 9 10 fail={kf}", "zit_add 5 6",
                                        "zit_next", "zit_remove"] + tail)
        for n in (1, 2, 3, 5):
            for ex in ("2", "1.5"):
                for extra in ([], ["add 9"]):
                    fill = [f"add {i + 1}" for i in range(n)]
                    for pr in progs[:2]:
                        out.append([f"new cap=8 exp={ex}"] + fill + ["trim_capacity"] + extra + ["zit_new o=0 p=0"] + pr + tail)
        return out

    # ------------------------------------------------------------------ random
    def random(self, rng, n, tier, focus=None):
        hs = [self._one(rng, focus) for _ in range(n)]
        return [sparsify(rng, h) if rng.random() < 0.34 else h for h in hs]

    def _one(self, rng, focus):
        cap = rng.randint(1, 9)
        ex = rng.choice(FACTORS)
        ops = [f"new cap={cap} exp={ex}"]
        if rng.random() < 0.12:
            ops = ["new_default"]      # C-library allocator triple (capacity 8, factor 2)
        L = {0: []}                    # ideal content per live slot
        it = None                      # [slot, pos, removed, fresh]  fresh: directly after a yield
        zit = None                     # [s1, s2, pos, removed, fresh]
        length = rng.randint(1, 60)
        if focus == "growth":
            length = rng.randint(20, 120)
        if focus in ("derived", "all") and rng.random() < 0.3:
            # early in the history: destroy + re-creation in the same slot with the other allocator triple
            k, dst = rng.choice([(1, 2), (2, 1), (3, 2), (1, 3)])
            vals = tuple(pick_value(rng) for _ in range(rng.randint(2, 5)))
            ops += self.recreate_other_triple(k, dst, rng.random() < 0.5, rng.randint(1, 8), rng.choice(FACTORS[2:]), vals)
            length += len(ops)
        p_bad = 0.5 if focus == "reject" else 0.06

        def idx(size, insert=False):
            """mostly valid index; sometimes a boundary value"""
            hi = size if insert else size - 1
            if rng.random() < p_bad or hi < 0:
                return rng.choice([size - 1 if size else 0, size, size + 1, 2 ** 31, 2 ** 63, SIZE_MAX - 1, SIZE_MAX, 0])
            return rng.randint(0, hi)

        def val(xs, present=0.7):
            if xs and rng.random() < present:
                return rng.choice(xs)
            return pick_value(rng)

        core = [("add", 10), ("add_at", 5), ("replace_at", 3), ("swap_at", 3), ("remove", 4), ("remove_at", 4),
                ("remove_last", 4), ("remove_all", 0.5), ("remove_all_free", 0.3), ("reverse", 2), ("filter_mut", 1.5),
                ("trim_capacity", 2), ("get_at", 2), ("get_last", 1), ("index_of", 2), ("contains", 1.5),
                ("contains_value", 1.5), ("map", 1), ("reduce", 1), ("size", 0.3), ("capacity", 0.3)]
        extra = []
        if focus in ("sort", "all"):
            extra += [("sort", 4), ("sort_mod", 4), ("sort_mut_sort", 5), ("sort_append_sort", 3)]
        if focus in ("iter", "all"):
            extra += [("iter_prog", 6), ("zip_prog", 3), ("zip_same_prog", 0.35), ("iter_mixed_prog", 2.5)]
        if focus in ("derived", "all"):
            extra += [("mk", 6), ("drop", 1.5), ("other", 10)]
        if focus == "fault":
            core = [("add", 10), ("add_at", 6), ("trim_capacity", 4), ("remove_last", 3), ("remove_at", 2), ("filter_mut", 1)]
            extra = [("mk", 5), ("drop", 2), ("other", 4), ("iter_add_prog", 3), ("zip_add_prog", 2), ("zip_same_prog", 0.8), ("iter_mixed_prog", 1)]
        if focus == "growth":
            core = [("add", 30), ("add_at", 6), ("remove_last", 3), ("trim_capacity", 1.5), ("remove_at", 1), ("capacity", 1)]
            extra += [("zip_same_prog", 0.08)]
        if focus == "reject":
            core = [(o, w) for o, w in core if o not in ("map", "reduce", "size", "capacity", "contains", "contains_value")]
            extra = [("mk_sub_bad", 4), ("drop", 1)]
        table = core + extra
        names = [o for o, _ in table]
        weights = [w for _, w in table]

        def emit_core(op, k):
            xs = L[k]
            sfx = f" o={k}" if k else ""
            if op == "add":
                v = pick_value(rng); ops.append(f"add {v}{sfx}"); xs.append(v)
            elif op == "add_at":
                v = pick_value(rng); i = idx(len(xs), insert=True); ops.append(f"add_at {v} {i}{sfx}")
                if i <= len(xs): xs.insert(i, v)
            elif op == "replace_at":
                v = pick_value(rng); i = idx(len(xs)); ops.append(f"replace_at {v} {i}{sfx}{maybe_noout(rng)}")
                if i < len(xs): xs[i] = v
            elif op == "swap_at":
                i, j = idx(len(xs)), idx(len(xs)); ops.append(f"swap_at {i} {j}{sfx}")
                if i < len(xs) and j < len(xs): xs[i], xs[j] = xs[j], xs[i]
            elif op == "remove":
                v = val(xs, 0.5 if focus == "reject" else 0.8); ops.append(f"remove {v}{sfx}{maybe_noout(rng)}")
                if v in xs: xs.remove(v)
            elif op == "remove_at":
                i = idx(len(xs)); ops.append(f"remove_at {i}{sfx}{maybe_noout(rng)}")
                if i < len(xs): del xs[i]
            elif op == "remove_last":
                ops.append(f"remove_last{sfx}{maybe_noout(rng)}")
                if xs: xs.pop()
            elif op in ("remove_all", "remove_all_free"):
                ops.append(op + sfx); del xs[:]
            elif op == "reverse":
                ops.append(op + sfx); xs.reverse()
            elif op == "filter_mut":
                ops.append(op + sfx)
                xs[:] = [v for v in xs if v % 2 == 0]
            elif op == "sort":
                ops.append(op + sfx); xs.sort()
            elif op == "sort_mod":
                ops.append(op + sfx); xs.sort(key=lambda v: v % 10)
            elif op in ("trim_capacity", "get_last", "map", "size", "capacity"):
                ops.append(op + sfx)
            elif op == "reduce":
                ops.append(f"reduce {rng.randint(0, 9)}{sfx}")
            elif op == "get_at":
                ops.append(f"get_at {idx(len(xs))}{sfx}")
            elif op in ("index_of", "contains", "contains_value"):
                ops.append(f"{op} {val(xs)}{sfx}")

        def invalidate(k):
            nonlocal it, zit
            if it and it[0] == k: it = None
            if zit and k in (zit[0], zit[1]): zit = None

        while len(ops) < length:
            op = rng.choices(names, weights)[0]
            k = 0
            if op == "other":
                live = [s for s in L if s != 0]
                if not live:
                    continue
                k = rng.choice(live)
                op = rng.choices([o for o, _ in core], [w for _, w in core])[0]
            if op == "mk" or op == "mk_sub_bad":
                src = rng.choice(sorted(L))
                free = [s for s in range(1, NSLOT) if s not in L]
                if not free:
                    d = rng.choice([s for s in L if s != 0]); ops.append(f"drop o={d}"); del L[d]; invalidate(d)
                    continue
                to = rng.choice(free)
                xs = L[src]
                sfx = f" o={src}" if src else ""
                kind = "mk_sub" if op == "mk_sub_bad" else rng.choice(["mk_sub", "mk_copy_shallow", "mk_copy_deep", "mk_filter"])
                if kind == "mk_sub":
                    if op == "mk_sub_bad" or not xs or rng.random() < 0.1:
                        b, e = idx(len(xs)), idx(len(xs))
                    else:
                        b = rng.randint(0, len(xs) - 1); e = rng.randint(b, len(xs) - 1)
                    ops.append(f"mk_sub {b} {e} to={to}{sfx}")
                    if b <= e < len(xs): L[to] = xs[b:e + 1]
                elif kind == "mk_copy_shallow":
                    ops.append(f"mk_copy_shallow to={to}{sfx}"); L[to] = list(xs)
                elif kind == "mk_copy_deep":
                    ops.append(f"mk_copy_deep to={to}{sfx}"); L[to] = [(v + 1000) % 2**64 for v in xs]
                else:
                    ops.append(f"mk_filter to={to}{sfx}")
                    if xs: L[to] = [v for v in xs if v % 2 == 0]
            elif op == "drop":
                live = [s for s in L if s != 0]
                if live:
                    d = rng.choice(live); ops.append(f"drop o={d}"); del L[d]; invalidate(d)
            elif op in ("iter_prog", "iter_add_prog"):
                k = rng.choice(sorted(L)); xs = L[k]
                ops.append("it_new" + (f" o={k}" if k else ""))
                pos = 0
                if rng.random() < 0.15:
                    v = pick_value(rng); ops.append(f"it_add {v}"); xs.insert(0, v); pos = 1
                while True:
                    ops.append("it_next")
                    if pos >= len(xs):
                        if rng.random() < 0.5: ops.append("it_next")
                        break
                    pos += 1
                    if rng.random() < 0.3: ops.append("it_index")
                    if op == "iter_prog" and rng.random() < 0.25:
                        v = pick_value(rng); ops.append(f"it_replace {v}{maybe_noout(rng)}"); xs[pos - 1] = v
                    r = rng.random()
                    if op == "iter_prog" and r < 0.3:
                        ops.append("it_remove" + maybe_noout(rng)); pos -= 1; del xs[pos]
                        if rng.random() < 0.1: ops.append("it_remove")      # rejected: already removed
                    elif r < 0.55:
                        v = pick_value(rng); ops.append(f"it_add {v}"); xs.insert(pos, v); pos += 1
                    if rng.random() < 0.2: ops.append("it_index")
                    if rng.random() < 0.08 or len(ops) > length + 40:
                        break
            elif op == "iter_mixed_prog":
                # an iterator session interleaved with direct calls on the iterated array (legal for an
                # index-based iterator): the array is lengthened / shortened behind and before the cursor
                k = rng.choice(sorted(L)); xs = L[k]; sfx = f" o={k}" if k else ""
                invalidate(k)
                ops.append("it_new" + sfx)
                pos = 0
                for _ in range(rng.randint(3, 14)):
                    r = rng.random()
                    if r < 0.45:
                        ops.append("it_next")
                        if pos < len(xs): pos += 1
                    elif r < 0.55:
                        v = pick_value(rng); ops.append(f"it_add {v}")
                        if pos <= len(xs): xs.insert(pos, v); pos += 1
                    elif r < 0.65:
                        ops.append("it_remove" + maybe_noout(rng))
                        if 0 < pos <= len(xs): pos -= 1; del xs[pos]
                    elif r < 0.72:
                        v = pick_value(rng); ops.append(f"it_replace {v}{maybe_noout(rng)}")
                        if 0 < pos <= len(xs): xs[pos - 1] = v
                    elif r < 0.77:
                        ops.append("it_index")
                    else:
                        d = rng.choice(["add", "add_front", "remove_last", "remove_last", "remove_front", "remove_all", "trim_capacity",
                                        "filter_mut", "reverse"])
                        if d == "add": emit_core("add", k)
                        elif d == "add_front": v = pick_value(rng); ops.append(f"add_at {v} 0{sfx}"); xs.insert(0, v)
                        elif d == "remove_front":
                            ops.append(f"remove_at 0{sfx}{maybe_noout(rng)}")
                            if xs: del xs[0]
                        else: emit_core(d, k)
                    if rng.random() < 0.25: ops.append(f"get_last{sfx}")
            elif op == "sort_append_sort":
                # at least 16 elements, sort, a short tail of 2 .. size/8 appended values (some not below the
                # maximum), sort again
                k = rng.choice(sorted(L)); xs = L[k]; sfx = f" o={k}" if k else ""
                n = rng.choice([16, 17, 24, 33, 40, 64])
                while len(xs) < n:
                    v = rng.randint(1, 5000) if rng.random() < 0.85 else pick_value(rng); ops.append(f"add {v}{sfx}"); xs.append(v)
                s1 = rng.choice(["sort", "sort_mod"]); emit_core(s1, k)
                key = (lambda v: v % 10) if s1 == "sort_mod" else (lambda v: v)
                top = max(xs, key=key)
                for j in range(rng.randint(2, max(2, len(xs) // 8))):
                    r = rng.random()
                    if s1 == "sort_mod": v = rng.randint(0, 500) * 10 + (9 if r < 0.5 else top % 10 if r < 0.7 else rng.randint(0, 9))
                    else: v = top + rng.randint(1, 50) if r < 0.5 and top < 2 ** 63 else top if r < 0.7 else rng.randint(0, 30)
                    ops.append(f"add {v}{sfx}"); xs.append(v)
                emit_core(s1 if rng.random() < 0.75 else ("sort_mod" if s1 == "sort" else "sort"), k)
                ops.append(f"get_at 0{sfx}"); ops.append(f"get_at {len(xs) - 2}{sfx}"); ops.append(f"get_last{sfx}")
            elif op == "sort_mut_sort":
                # sort, 1-3 mutations that break sortedness (largest value to the front, smallest to the
                # end, ...), sort again with the same or the other comparator, observe
                k = rng.choice(sorted(L)); xs = L[k]; sfx = f" o={k}" if k else ""
                while len(xs) < 3:
                    v = pick_value(rng); ops.append(f"add {v}{sfx}"); xs.append(v)
                s1 = rng.choice(["sort", "sort_mod"]); emit_core(s1, k)
                for _ in range(rng.randint(1, 3)):
                    big, small = 900 + rng.randint(0, 99), rng.randint(0, 1)
                    kind = rng.choice(["map", "replace_front", "replace_back", "swap_ends", "reverse", "remove", "remove_at",
                                       "remove_last", "add_small", "add_at_big", "filter_mut", "trim_capacity", "it_replace",
                                       "it_add", "it_remove", "zip_same"])
                    if kind in ("map", "reverse", "remove", "remove_at", "remove_last", "filter_mut", "trim_capacity"):
                        emit_core(kind, k)
                    elif kind == "replace_front" and xs:
                        ops.append(f"replace_at {big} 0{sfx}"); xs[0] = big
                    elif kind == "replace_back" and xs:
                        ops.append(f"replace_at {small} {len(xs) - 1}{sfx}"); xs[-1] = small
                    elif kind == "swap_ends" and len(xs) > 1:
                        ops.append(f"swap_at 0 {len(xs) - 1}{sfx}"); xs[0], xs[-1] = xs[-1], xs[0]
                    elif kind == "add_small":
                        ops.append(f"add {small}{sfx}"); xs.append(small)
                    elif kind == "add_at_big":
                        ops.append(f"add_at {big} 0{sfx}"); xs.insert(0, big)
                    elif kind in ("it_replace", "it_add", "it_remove") and xs:
                        invalidate(k)
                        ops.append("it_new" + sfx); ops.append("it_next")
                        if kind == "it_replace": ops.append(f"it_replace {big}"); xs[0] = big
                        elif kind == "it_add": ops.append(f"it_add {big}"); xs.insert(1, big)
                        else:
                            ops.append("it_remove"); del xs[0]; ops.append(f"it_add {big}"); xs.insert(0, big)
                    elif kind == "zip_same" and xs:
                        invalidate(k)
                        ops.append(f"zit_new o={k} p={k}"); ops.append("zit_next"); ops.append(f"zit_replace {small} {big}"); xs[0] = big
                    if rng.random() < 0.3: ops.append(f"get_at 0{sfx}")
                emit_core(s1 if rng.random() < 0.5 else ("sort_mod" if s1 == "sort" else "sort"), k)
                ops.append(f"get_at 0{sfx}"); ops.append(f"get_last{sfx}")
                if rng.random() < 0.3: emit_core("index_of", k)
            elif op == "zip_same_prog":
                # the same array on both sides of the zip iterator: every call acts twice on one object
                k = rng.choice(sorted(L)); xs = L[k]
                if rng.random() < 0.4:
                    ops.append("trim_capacity" + (f" o={k}" if k else ""))      # exactly full: 0 free slots
                    if rng.random() < 0.5:
                        v = pick_value(rng); ops.append(f"add {v}" + (f" o={k}" if k else "")); xs.append(v)
                ops.append(f"zit_new o={k} p={k}")
                pos = 0
                if rng.random() < 0.3:
                    v, w = pick_value(rng), pick_value(rng); ops.append(f"zit_add {v} {w}"); xs.insert(0, v); xs.insert(0, w); pos = 1
                while True:
                    ops.append("zit_next")
                    if pos >= len(xs):
                        break
                    pos += 1
                    if rng.random() < 0.3: ops.append("zit_index")
                    if rng.random() < 0.25:
                        v, w = pick_value(rng), pick_value(rng); ops.append(f"zit_replace {v} {w}{maybe_noout(rng)}"); xs[pos - 1] = w
                    r = rng.random()
                    if r < 0.25:
                        ops.append("zit_remove" + maybe_noout(rng)); pos -= 1; del xs[pos]
                        if pos < len(xs): del xs[pos]
                        if rng.random() < 0.1: ops.append("zit_remove")
                    elif r < 0.6:
                        v, w = pick_value(rng), pick_value(rng); ops.append(f"zit_add {v} {w}")
                        xs.insert(pos, v); xs.insert(pos, w); pos += 1
                    if rng.random() < 0.1 or len(ops) > length + 40:
                        break
            elif op in ("zip_prog", "zip_add_prog"):
                if len(L) < 2:
                    free = [s for s in range(1, NSLOT) if s not in L]
                    to = free[0]
                    if L[0] and rng.random() < 0.5:
                        b = rng.randint(0, len(L[0]) - 1); e = rng.randint(b, len(L[0]) - 1)
                        ops.append(f"mk_sub {b} {e} to={to}"); L[to] = L[0][b:e + 1]
                    else:
                        ops.append(f"mk_copy_deep to={to}"); L[to] = [(v + 1000) % 2**64 for v in L[0]]
                a, b = rng.sample(sorted(L), 2)
                xa, xb = L[a], L[b]
                ops.append(f"zit_new o={a} p={b}")
                pos = 0
                while True:
                    ops.append("zit_next")
                    if pos >= len(xa) or pos >= len(xb):
                        break
                    pos += 1
                    if rng.random() < 0.3: ops.append("zit_index")
                    if op == "zip_prog" and rng.random() < 0.25:
                        v, w = pick_value(rng), pick_value(rng); ops.append(f"zit_replace {v} {w}{maybe_noout(rng)}"); xa[pos - 1] = v; xb[pos - 1] = w
                    r = rng.random()
                    if op == "zip_prog" and r < 0.3:
                        ops.append("zit_remove" + maybe_noout(rng)); pos -= 1; del xa[pos]; del xb[pos]
                        if rng.random() < 0.1: ops.append("zit_remove")
                    elif r < 0.5:
                        v, w = pick_value(rng), pick_value(rng); ops.append(f"zit_add {v} {w}")
                        xa.insert(pos, v); xb.insert(pos, w); pos += 1
                    if rng.random() < 0.08 or len(ops) > length + 40:
                        break
            else:
                emit_core(op, k)
        ops.append("destroy_cb" if rng.random() < 0.15 else "destroy")
        return ops

    def fault_seeds(self, tier):
        return sparse_third(self._fault_seeds(tier), 777)

    def _fault_seeds(self, tier):
        return [["new cap=1 exp=2", "add 1", "add 2", "add_at 3 0", "add_at 4 1", "trim_capacity", "remove_last", "trim_capacity",
                 "mk_sub 0 1 to=1", "add 5 o=1", "mk_copy_shallow to=2", "mk_copy_deep to=3", "drop o=1", "mk_filter to=1",
                 "it_new", "it_next", "it_add 6", "it_next", "it_next", "it_add 7", "destroy"],
                ["new cap=2 exp=1.1", "add 1", "add 2", "add 3", "add 4", "remove_all", "trim_capacity", "add 9", "add 8", "destroy"],
                # the same array on both sides of the zip iterator, 1 and 0 free slots (A11)
                ["new cap=3 exp=2", "add 1", "add 2", "zit_new o=0 p=0", "zit_next", "zit_add 7 8", "zit_next", "zit_add 9 10",
                 "zit_remove", "zit_next", "destroy"],
                ["new cap=1 exp=1.5", "add 1", "zit_new o=0 p=0", "zit_add 7 8", "zit_next", "zit_add 9 10", "zit_next", "zit_add 5 6",
                 "destroy"]]


GEN = ArrayGen()
