"""The function translator: regenerates lean/CollectionsC/Generated/Funcs.lean from the CURRENT text
of the two smallest containers, so that the theorems of Properties/C19Gen.lean and C12Gen.lean ("the
translated C function agrees with the hand-written model function on every state satisfying the
invariant") are re-checked against what the code says now.  Editing a statement of one of these
functions changes the generated definition and the theorem about it stops building.

Route: comment-stripped C text -> tokens -> recursive-descent parser (declarations with
initialisers, assignments, `if`/`else`, `return`, `++`/`--`, expressions with + - * / % comparisons
&& || !, casts, `p->f`, `a[i]`, `*out`, calls) -> a small type checker (size_t-like, int, bool, byte
pointer, status, the container struct) -> Lean.

 * The state is a generated record with the data fields of the struct (function pointers are
   skipped).  An array field (`uint64_t *buf`) is a `List Nat` read with `Buf.get` / written with
   `Buf.put`; byte pointers are `Ptr = Option Nat` (`none` = NULL, `some k` = k bytes above the start of
   the region) and the region itself is the ghost field `bytes` (`memset` writes it).
 * A function takes the record where the C function takes the struct pointer and returns
   (return value, out-parameters as `Option`, the record if the function can modify it), components
   that do not exist are left out.
 * Statements become a chain of `let`s; an `if` whose branches do not return is a joined `let`,
   an `if` with a `return` continues both ways.
 * size_t arithmetic: `+` `wadd`, `-` `wsub`, `*` `wmul` (mod 2^64), `/` and `%` Lean's (the model
   checks division by zero separately), pointer + n `padd`, pointer - pointer `pdiff`.

Unsupported syntax gives a problem string and `def <f> : Unit := ()`; the translator never raises.
The output is deterministic."""
import re, sys
from pathlib import Path
import gen_guards as gg
from gen_guards import GuardError as TErr

TABLE = [
    dict(file="src/cc_ring_buffer.c", struct="ring_buffer", arrays=["buf"], memory=None,
         funcs=["cc_rbuf_is_empty", "cc_rbuf_size", "cc_rbuf_enqueue", "cc_rbuf_dequeue", "cc_rbuf_peek"]),
    dict(file="src/memory/cc_static_pool.c", struct="cc_static_pool_s", arrays=[], memory="bytes",
         funcs=["cc_static_pool_reset", "cc_static_pool_malloc", "cc_static_pool_calloc", "cc_static_pool_free",
                "cc_static_pool_used_bytes", "cc_static_pool_free_bytes"]),
]

NAT_BASES = {"size_t", "uint64_t", "uint32_t", "uint16_t", "uint8_t", "unsigned", "uintptr_t"}
BYTE_BASES = {"uint8_t", "void", "char"}
TYPEWORDS = NAT_BASES | {"int", "char", "bool", "void", "const", "enum", "struct", "long", "short", "signed"}
SIZE_MOD = 2 ** 64

# ---- lexer ----------------------------------------------------------------------------
TOK = re.compile(r"\s*(0[xX][0-9a-fA-F]+[uUlL]*|\d+[uUlL]*|[A-Za-z_]\w*|->|\+\+|--|&&|\|\||==|!=|<=|>=|\+=|-=|\*=|/=|%=|<<|>>"
                 r"|[-+*/%!=<>()\[\]{};,&.~?:^|])")


def tokenize(s):
    out, pos = [], 0
    s = s.rstrip()
    while pos < len(s):
        m = TOK.match(s, pos)
        if not m:
            if s[pos:].strip() == "":
                break
            raise TErr("cannot tokenize: " + s[pos:pos + 20].strip())
        out.append(m.group(1))
        pos = m.end()
    return out


def is_ident(t):
    return t is not None and re.match(r"[A-Za-z_]\w*$", t) is not None


# ---- parser -----------------------------------------------------------------------------
class Parser:
    def __init__(self, toks, typenames):
        self.t, self.i = toks, 0
        self.types = TYPEWORDS | set(typenames)

    def peek(self, k=0):
        return self.t[self.i + k] if self.i + k < len(self.t) else None

    def eat(self, x=None):
        t = self.peek()
        if t is None:
            raise TErr("unexpected end of function" + (f", expected {x}" if x else ""))
        if x is not None and t != x:
            raise TErr(f"expected `{x}` but found `{t}`")
        self.i += 1
        return t

    # types
    def type_tokens(self):
        """consumes base type words and stars; returns (base words, number of stars)"""
        words = []
        while self.peek() in self.types:
            w = self.eat()
            if w in ("enum", "struct"):
                words.append(w + " " + self.eat())
            elif w != "const":
                words.append(w)
        stars = 0
        while self.peek() in ("*", "const"):
            if self.eat() == "*":
                stars += 1
        return words, stars

    # statements
    def block_items(self):
        items = []
        while self.peek() is not None and self.peek() != "}":
            items.append(self.statement())
        return items

    def statement(self):
        t = self.peek()
        if t == "{":
            self.eat()
            items = self.block_items()
            self.eat("}")
            return ("block", items)
        if t == ";":
            self.eat()
            return ("block", [])
        if t == "if":
            self.eat()
            self.eat("(")
            c = self.expr()
            self.eat(")")
            s1 = self.statement()
            s2 = None
            if self.peek() == "else":
                self.eat()
                s2 = self.statement()
            return ("if", c, s1, s2)
        if t == "return":
            self.eat()
            e = None if self.peek() == ";" else self.expr()
            self.eat(";")
            return ("ret", e)
        if t in ("for", "while", "do", "switch", "goto", "break", "continue", "case", "default"):
            raise TErr(f"`{t}` statements are not translated")
        if t in self.types:
            words, stars = self.type_tokens()
            name = self.eat()
            if not is_ident(name):
                raise TErr(f"declarator expected, found `{name}`")
            init = None
            if self.peek() == "=":
                self.eat()
                init = self.assign()
            if self.peek() == ",":
                raise TErr("several declarators in one declaration")
            if self.peek() in ("[", "("):
                raise TErr("array / function declarator")
            self.eat(";")
            return ("decl", (tuple(words), stars), name, init)
        e = self.expr()
        self.eat(";")
        return ("expr", e)

    # expressions
    def expr(self):
        e = self.assign()
        if self.peek() == ",":
            raise TErr("comma operator")
        return e

    def assign(self):
        a = self.lor()
        if self.peek() in ("=", "+=", "-=", "*=", "/=", "%="):
            op = self.eat()
            b = self.assign()
            return ("assign", op, a, b)
        if self.peek() == "?":
            self.eat()
            x = self.expr()
            self.eat(":")
            y = self.assign()
            return ("cond", a, x, y)
        return a

    def binlevel(self, ops, sub):
        a = sub()
        while self.peek() in ops:
            op = self.eat()
            a = ("bin", op, a, sub())
        return a

    def lor(self):
        return self.binlevel(("||",), self.land)

    def land(self):
        return self.binlevel(("&&",), self.bitlevel)

    def bitlevel(self):
        a = self.equality()
        if self.peek() in ("&", "|", "^"):
            raise TErr(f"bit operator `{self.peek()}`")
        return a

    def equality(self):
        return self.binlevel(("==", "!="), self.relational)

    def relational(self):
        return self.binlevel(("<", ">", "<=", ">="), self.shift)

    def shift(self):
        a = self.additive()
        if self.peek() in ("<<", ">>"):
            raise TErr("shift operator")
        return a

    def additive(self):
        return self.binlevel(("+", "-"), self.multiplicative)

    def multiplicative(self):
        return self.binlevel(("*", "/", "%"), self.unary)

    def unary(self):
        t = self.peek()
        if t in ("!", "-", "*", "&", "~", "+"):
            self.eat()
            return ("un", t, self.unary())
        if t in ("++", "--"):
            self.eat()
            return ("pre", t, self.unary())
        if t == "sizeof":
            raise TErr("sizeof")
        if t == "(" and self.peek(1) in self.types:
            self.eat()
            words, stars = self.type_tokens()
            self.eat(")")
            return ("cast", (tuple(words), stars), self.unary())
        return self.postfix()

    def postfix(self):
        e = self.primary()
        while True:
            t = self.peek()
            if t == "->":
                self.eat()
                f = self.eat()
                if not is_ident(f):
                    raise TErr("field name expected after ->")
                e = ("arrow", e, f)
            elif t == "[":
                self.eat()
                i = self.expr()
                self.eat("]")
                e = ("index", e, i)
            elif t == "(":
                if e[0] != "id":
                    raise TErr("call through an expression")
                self.eat()
                args = []
                if self.peek() != ")":
                    args.append(self.assign())
                    while self.peek() == ",":
                        self.eat()
                        args.append(self.assign())
                self.eat(")")
                e = ("call", e[1], args)
            elif t in ("++", "--"):
                self.eat()
                e = ("post", t, e)
            elif t == ".":
                raise TErr("`.` member access")
            else:
                return e

    def primary(self):
        t = self.eat()
        if t == "(":
            e = self.expr()
            self.eat(")")
            return e
        if re.match(r"\d", t):
            return ("num", int(re.sub(r"[uUlL]+$", "", t), 0))
        if t == "NULL":
            return ("null",)
        if t in ("true", "false"):
            return ("boollit", t)
        if is_ident(t):
            return ("id", t)
        raise TErr(f"unexpected `{t}` in an expression")


# ---- types ----------------------------------------------------------------------------------
# "nat" "int" "bool" "ptr" "stat" "void" "self" ("out", t) "arr" "lit" (an integer literal, adapts)

def mk_type(words, stars, typedefs, where):
    words = tuple(w for w in words if w not in ("const",))
    base = " ".join(words)
    if words and words[0] in typedefs and len(words) == 1:
        if stars == 1:
            return "self"
        raise TErr(f"{base}{'*' * stars} ({where})")
    if base == "enum cc_stat" and stars == 0:
        return "stat"
    if base == "bool" and stars == 0:
        return "bool"
    if base == "int" and stars == 0:
        return "int"
    if base == "void" and stars == 0:
        return "void"
    if all(w in NAT_BASES or w in ("long", "short") for w in words) and words:
        if stars == 0:
            return "nat"
        if stars == 1 and base in BYTE_BASES:
            return "ptr"
        if stars == 1:
            return ("out", "nat")
    if base in BYTE_BASES and stars == 1:
        return "ptr"
    if base in BYTE_BASES and stars == 2:
        return ("out", "ptr")
    raise TErr(f"type `{base}{'*' * stars}` is not translated ({where})")


LEAN_TY = {"nat": "Nat", "int": "Int", "bool": "Bool", "ptr": "Ptr", "stat": "Nat"}


def lean_ident(n):
    return gg.lean_ident(n)


class Sig:
    def __init__(self, name, ret, params, body, cfg):
        self.name, self.ret, self.params, self.body, self.cfg = name, ret, params, body, cfg
        self.lean = name        # file-local helpers get the struct tag as a prefix (one_file)
        self.helper = False
        selfs = [n for n, t in params if t == "self"]
        if len(selfs) > 1:
            raise TErr("more than one container parameter")
        self.state = selfs[0] if selfs else None
        self.outs = [(n, t[1]) for n, t in params if isinstance(t, tuple) and t[0] == "out"]
        self.mutates = False
        self.calls = set()

    def components(self, record):
        """[(kind, lean type)] of the returned tuple"""
        c = []
        if self.ret != "void":
            c.append(("ret", LEAN_TY[self.ret]))
        for n, t in self.outs:
            c.append(("out:" + n, f"Option {LEAN_TY[t]}"))
        if self.mutates:
            c.append(("state", record))
        return c


def proj(r, i, n):
    if n == 1:
        return r
    return r + ".2" * i + (".1" if i < n - 1 else "")


# ---- static analysis ---------------------------------------------------------------------------

def walk_exprs(node, f):
    """calls f on every expression node of a statement / expression tree"""
    if not isinstance(node, tuple) or not node:
        return
    k = node[0]
    if k in ("block",):
        for s in node[1]:
            walk_exprs(s, f)
    elif k == "if":
        walk_exprs(node[1], f)
        walk_exprs(node[2], f)
        if node[3]:
            walk_exprs(node[3], f)
    elif k == "ret":
        if node[1]:
            walk_exprs(node[1], f)
    elif k == "decl":
        if node[3]:
            walk_exprs(node[3], f)
    elif k == "expr":
        walk_exprs(node[1], f)
    else:
        f(node)
        if k in ("un", "pre", "post"):
            walk_exprs(node[2], f)
        elif k == "bin":
            walk_exprs(node[2], f)
            walk_exprs(node[3], f)
        elif k == "assign":
            walk_exprs(node[2], f)
            walk_exprs(node[3], f)
        elif k == "call":
            for a in node[2]:
                walk_exprs(a, f)
        elif k == "index":
            walk_exprs(node[1], f)
            walk_exprs(node[2], f)
        elif k == "arrow":
            walk_exprs(node[1], f)
        elif k == "cast":
            walk_exprs(node[2], f)
        elif k == "cond":
            walk_exprs(node[1], f)
            walk_exprs(node[2], f)
            walk_exprs(node[3], f)


def has_return(s):
    if s is None:
        return False
    if s[0] == "ret":
        return True
    if s[0] == "block":
        return any(has_return(x) for x in s[1])
    if s[0] == "if":
        return has_return(s[2]) or has_return(s[3])
    return False


def root_var(lhs):
    """the variable an lvalue belongs to"""
    if lhs[0] == "id":
        return lhs[1]
    if lhs[0] == "arrow":
        return root_var(lhs[1])
    if lhs[0] == "index":
        return root_var(lhs[1])
    if lhs[0] == "un" and lhs[1] == "*":
        return root_var(lhs[2])
    raise TErr("assignment to something that is not a variable, a field, an array slot or `*out`")


# ---- emitter ---------------------------------------------------------------------------------------
class Emit:
    def __init__(self, sig, sigs, cfg, record, fields, status):
        self.sig, self.sigs, self.cfg, self.record, self.fields, self.status = sig, sigs, cfg, record, fields, status
        self.tmp = 0

    def fresh(self, env):
        while True:
            self.tmp += 1
            n = f"r_{self.tmp}"
            if n not in env:
                return n

    # -- expressions (pure) --
    def E(self, e, env, want=None):
        """-> (lean text, type); `want` lets an integer literal adapt"""
        k = e[0]
        if k == "num":
            if want == "int":
                return str(e[1]), "int"
            if want == "ptr":
                if e[1] == 0:
                    return "none", "ptr"
                raise TErr("integer used as a pointer")
            return str(e[1]), ("nat" if want in ("nat", "bool", "stat") else "lit")
        if k == "null":
            return "none", "ptr"
        if k == "boollit":
            return e[1], "bool"
        if k == "id":
            if e[1] in env:
                t = env[e[1]]
                if isinstance(t, tuple):
                    raise TErr(f"out-parameter `{e[1]}` used as a value")
                return lean_ident(e[1]), t
            if e[1] in self.status:
                return str(self.status[e[1]]), "stat"
            raise TErr(f"unknown identifier `{e[1]}`")
        if k == "arrow":
            b, bt = self.E(e[1], env)
            if bt != "self":
                raise TErr(f"`->{e[2]}` on something that is not the container")
            if e[2] not in self.fields:
                raise TErr(f"`{e[2]}` is not a data field of struct {self.cfg['struct']}")
            return f"{b}.{lean_ident(e[2])}", self.fields[e[2]]
        if k == "index":
            a, at = self.E(e[1], env)
            if at != "arr":
                raise TErr("indexing something that is not an array field")
            i, it = self.E(e[2], env, "nat")
            if it == "int":
                i = f"(Int.toNat {i})"
            elif it not in ("nat", "lit"):
                raise TErr("array index is not an integer")
            return f"(Buf.get {a} {i})", "nat"
        if k == "cast":
            t = mk_type(e[1][0], e[1][1], self.cfg["typedefs"], "cast")
            if t == "nat":
                v = const_int(e[2])
                if v is not None:
                    return str(v % SIZE_MOD), "nat"
                x, xt = self.E(e[2], env, "nat")
                if xt in ("nat", "lit"):
                    return x, "nat"
                if xt == "int":
                    return f"(castSizeT {x})", "nat"
            if t == "ptr":
                x, xt = self.E(e[2], env, "ptr")
                if xt == "ptr":
                    return x, "ptr"
            if t == "int":
                x, xt = self.E(e[2], env, "int")
                if xt in ("int", "lit"):
                    return x, "int"
            raise TErr(f"cast to `{' '.join(e[1][0])}{'*' * e[1][1]}` of this operand")
        if k == "un":
            op = e[1]
            if op == "!":
                return f"!({self.cond(e[2], env)})", "bool"
            if op == "-":
                v = const_int(e)
                if v is not None and want in (None, "int"):
                    return f"({v})", "int"
                x, xt = self.E(e[2], env, want)
                if xt == "int":
                    return f"(-{x})", "int"
                raise TErr("unary minus on an unsigned operand")
            if op == "+":
                return self.E(e[2], env, want)
            if op == "*":
                raise TErr("reading through a pointer")
            raise TErr(f"unary `{op}`")
        if k == "bin":
            return self.binop(e, env)
        if k == "cond":
            c = self.cond(e[1], env)
            ta, tya = self.E(e[2], env, want)
            tb, tyb = self.E(e[3], env, want if tya == "lit" else tya)
            if tya == "lit" and tyb != "lit":
                ta, tya = self.E(e[2], env, tyb)
            if tya != tyb:
                raise TErr("the two branches of `?:` are of different kinds")
            return f"(if {c} then {ta} else {tb})", tya
        if k == "call":
            f = e[1]
            if f in self.sigs and not isinstance(self.sigs[f], str):
                s = self.sigs[f]
                if s.mutates or s.outs:
                    raise TErr(f"call of `{f}` (which modifies its arguments) inside an expression")
                if s.ret == "void":
                    raise TErr(f"value of the void function `{f}`")
                return "(" + self.call_text(s, e[2], env) + ")", s.ret
            raise TErr(f"call of `{f}` is not translated")
        if k in ("assign", "pre", "post"):
            raise TErr("side effect inside an expression")
        raise TErr(f"expression form `{k}`")

    def binop(self, e, env):
        op, a, b = e[1], e[2], e[3]
        if op in ("&&", "||"):
            return f"({self.cond(a, env)} {op} {self.cond(b, env)})", "bool"
        ta, tya = self.E(a, env)
        tb, tyb = self.E(b, env, tya if tya != "lit" else None)
        if tya == "lit" and tyb != "lit":
            ta, tya = self.E(a, env, tyb)
        if tya == "lit" and tyb == "lit":
            tya = tyb = "nat"
        if tyb == "lit":
            tyb = tya
        if op in gg.CMP:
            if tya != tyb or tya not in ("nat", "int", "ptr", "bool", "stat"):
                raise TErr(f"comparison `{op}` of different kinds of operands")
            if tya == "ptr" and op not in ("==", "!="):
                raise TErr("ordering comparison of pointers")
            return f"decide ({ta} {gg.CMP[op]} {tb})", "bool"
        if tya == "nat" and tyb == "nat":
            fn = {"+": "wadd", "-": "wsub", "*": "wmul"}.get(op)
            if fn:
                return f"({fn} {ta} {tb})", "nat"
            if op in ("/", "%"):
                return f"({ta} {op} {tb})", "nat"
        if tya == "int" and tyb == "int" and op in ("+", "-", "*"):
            return f"({ta} {op} {tb})", "int"
        if tya == "ptr" and tyb == "nat" and op == "+":
            return f"(padd {ta} {tb})", "ptr"
        if tya == "ptr" and tyb == "ptr" and op == "-":
            return f"(pdiff {ta} {tb})", "nat"
        raise TErr(f"`{op}` on operands of kind {tya} and {tyb}")

    def cond(self, e, env):
        t, ty = self.E(e, env)
        if ty == "bool":
            return t
        if ty in ("nat", "lit", "int", "stat"):
            return f"decide ({t} ≠ 0)"
        if ty == "ptr":
            return f"decide ({t} ≠ none)"
        raise TErr("condition is not a truth value")

    def coerce(self, e, env, ty):
        t, got = self.E(e, env, ty)
        if got == "lit" and ty in ("nat", "stat"):
            got = ty
        if got == "lit" and ty == "bool":
            return f"decide ({t} ≠ 0)"
        if got != ty:
            raise TErr(f"a value of kind {got} where {ty} is expected")
        return t

    def call_text(self, s, args, env):
        if len(args) != len(s.params):
            raise TErr(f"`{s.name}` called with {len(args)} arguments")
        out = [s.lean]
        for (pn, pt), a in zip(s.params, args):
            if pt == "self":
                if a[0] != "id" or env.get(a[1]) != "self":
                    raise TErr(f"`{s.name}` is not called on the container itself")
                out.append(lean_ident(a[1]))
            elif isinstance(pt, tuple):
                continue        # out-parameters are results
            else:
                out.append(self.atom(self.coerce(a, env, pt)))
        return " ".join(out)

    @staticmethod
    def atom(t):
        return t if re.match(r"^[\w.]+$", t) or (t.startswith("(") and t.endswith(")")) else f"({t})"

    # -- statements --
    def result(self, retval, env):
        comps = []
        if self.sig.ret != "void":
            comps.append(retval)
        for n, _ in self.sig.outs:
            comps.append(lean_ident(n))
        if self.sig.mutates:
            comps.append(lean_ident(self.sig.state))
        if not comps:
            return "()"
        return comps[0] if len(comps) == 1 else "(" + ", ".join(comps) + ")"

    def fall(self, k, env):
        if k[0] == "fn":
            if self.sig.ret != "void":
                raise TErr("control reaches the end of a non-void function")
            return self.result(None, env)
        vs = [lean_ident(v) for v in k[1]]
        return vs[0] if len(vs) == 1 else "(" + ", ".join(vs) + ")"

    def store(self, lhs, val_of, env):
        """lines that perform `lhs = <value>`; val_of(type) gives the lean text of the value"""
        if lhs[0] == "id":
            if lhs[1] not in env:
                raise TErr(f"assignment to unknown `{lhs[1]}`")
            t = env[lhs[1]]
            if t == "self" or isinstance(t, tuple):
                raise TErr(f"assignment to the pointer `{lhs[1]}` itself")
            return [f"let {lean_ident(lhs[1])} := {val_of(t)}"]
        if lhs[0] == "arrow":
            b, bt = self.E(lhs[1], env)
            if bt != "self" or lhs[1][0] != "id":
                raise TErr("assignment to a field of something that is not the container")
            if lhs[2] not in self.fields or self.fields[lhs[2]] == "arr":
                raise TErr(f"assignment to `{lhs[2]}`")
            return [f"let {b} := {{ {b} with {lean_ident(lhs[2])} := {val_of(self.fields[lhs[2]])} }}"]
        if lhs[0] == "index":
            a = lhs[1]
            if a[0] != "arrow" or a[1][0] != "id" or env.get(a[1][1]) != "self" or self.fields.get(a[2]) != "arr":
                raise TErr("array write to something that is not an array field of the container")
            b = lean_ident(a[1][1])
            i, it = self.E(lhs[2], env, "nat")
            if it == "int":
                i = f"(Int.toNat {i})"
            elif it not in ("nat", "lit"):
                raise TErr("array index is not an integer")
            f = lean_ident(a[2])
            return [f"let {b} := {{ {b} with {f} := Buf.put {b}.{f} {i} {self.atom(val_of('nat'))} }}"]
        if lhs[0] == "un" and lhs[1] == "*" and lhs[2][0] == "id":
            t = env.get(lhs[2][1])
            if isinstance(t, tuple) and t[0] == "out":
                return [f"let {lean_ident(lhs[2][1])} := some {self.atom(val_of(t[1]))}"]
        raise TErr("assignment to something that is not a variable, a field, an array slot or `*out`")

    def lhs_type(self, lhs, env):
        if lhs[0] == "id":
            return env.get(lhs[1])
        if lhs[0] == "arrow":
            return self.fields.get(lhs[2])
        if lhs[0] == "index":
            return "nat"
        if lhs[0] == "un" and lhs[2][0] == "id":
            t = env.get(lhs[2][1])
            return t[1] if isinstance(t, tuple) else None
        return None

    def mutating_call(self, e):
        return (e[0] == "call" and e[1] in self.sigs and not isinstance(self.sigs[e[1]], str)
                and (self.sigs[e[1]].mutates or self.sigs[e[1]].outs))

    def do_call(self, e, env, bind):
        """lines for a call of a sibling that modifies the container; bind = lvalue for the return value or None"""
        s = self.sigs[e[1]]
        if s.outs:
            raise TErr(f"call of `{e[1]}` with out-parameters")
        comps = s.components(self.record)
        r = self.fresh(env)
        lines = [f"let {r} := {self.call_text(s, e[2], env)}"]
        n = len(comps)
        for i, (kind, _) in enumerate(comps):
            if kind == "ret" and bind is not None:
                lines += self.store(bind, lambda ty, i=i: self.expect(s.ret, ty, proj(r, i, n)), env)
            elif kind == "state":
                st = [a for (pn, pt), a in zip(s.params, e[2]) if pt == "self"][0]
                lines.append(f"let {lean_ident(st[1])} := {proj(r, i, n)}")
        return lines

    @staticmethod
    def expect(got, want, text):
        if got != want:
            raise TErr(f"a value of kind {got} where {want} is expected")
        return text

    def effect(self, e, env):
        """lines for an expression statement"""
        k = e[0]
        if k == "assign":
            op, lhs, rhs = e[1], e[2], e[3]
            if op != "=":
                rhs = ("bin", op[0], lhs, rhs)
            if self.mutating_call(rhs):
                return self.do_call(rhs, env, lhs)
            return self.store(lhs, lambda ty: self.coerce(rhs, env, ty), env)
        if k in ("pre", "post"):
            lhs = e[2]
            one = ("bin", "+" if e[1] == "++" else "-", lhs, ("num", 1))
            return self.store(lhs, lambda ty: self.coerce(one, env, ty), env)
        if k == "call":
            if e[1] == "memset":
                mem = self.cfg["memory"]
                if not mem or self.sig.state is None:
                    raise TErr("memset in a container without a byte region")
                if len(e[2]) != 3:
                    raise TErr("memset with other than 3 arguments")
                p = self.coerce(e[2][0], env, "ptr")
                v = self.coerce(e[2][1], env, "nat")
                n = self.coerce(e[2][2], env, "nat")
                b = lean_ident(self.sig.state)
                return [f"let {b} := {{ {b} with {mem} := memsetBytes {b}.{mem} {self.atom(p)} {self.atom(v)} {self.atom(n)} }}"]
            if self.mutating_call(e):
                return self.do_call(e, env, None)
            self.E(e, env)       # a pure call: type-check it, no effect
            return []
        self.E(e, env)
        return []

    def assigned(self, s, env, acc):
        """variables of env assigned somewhere in s (declaration order of env)"""
        def visit(x):
            if x[0] == "assign":
                acc.add(root_var(x[2]))
            elif x[0] in ("pre", "post"):
                acc.add(root_var(x[2]))
            elif x[0] == "call":
                if x[1] == "memset" and self.sig.state:
                    acc.add(self.sig.state)
                elif self.mutating_call(x):
                    for (pn, pt), a in zip(self.sigs[x[1]].params, x[2]):
                        if pt == "self" and a[0] == "id":
                            acc.add(a[1])
        walk_exprs(s, visit)
        return acc

    def seq(self, stmts, env, k, ind):
        """lean lines (already indented) for a statement list followed by the continuation k"""
        pad = "  " * ind
        if not stmts:
            return [pad + self.fall(k, env)]
        s, rest = stmts[0], stmts[1:]
        kind = s[0]
        if kind == "block":
            # flattened: a block-local declaration stays visible, shadowing an outer name is refused below
            return self.seq(list(s[1]) + rest, env, k, ind)
        if kind == "decl":
            t = mk_type(s[1][0], s[1][1], self.cfg["typedefs"], f"declaration of {s[2]}")
            if t in ("self", "void") or isinstance(t, tuple):
                raise TErr(f"local `{s[2]}` of this type")
            if s[2] in env:
                raise TErr(f"`{s[2]}` is declared twice")
            env = dict(env)
            env[s[2]] = t
            if s[3] is None:
                dflt = {"nat": "0", "int": "0", "bool": "false", "ptr": "none", "stat": "0"}[t]
                lines = [f"let {lean_ident(s[2])} : {LEAN_TY[t]} := {dflt}"]
            elif self.mutating_call(s[3]):
                env0 = dict(env)
                lines = [f"let {lean_ident(s[2])} : {LEAN_TY[t]} := {({'nat': '0', 'int': '0', 'bool': 'false', 'ptr': 'none', 'stat': '0'})[t]}"]
                lines += self.do_call(s[3], env0, ("id", s[2]))
            else:
                lines = [f"let {lean_ident(s[2])} : {LEAN_TY[t]} := {self.coerce(s[3], env, t)}"]
            return [pad + l for l in lines] + self.seq(rest, env, k, ind)
        if kind == "expr":
            return [pad + l for l in self.effect(s[1], env)] + self.seq(rest, env, k, ind)
        if kind == "ret":
            if s[1] is None:
                if self.sig.ret != "void":
                    raise TErr("`return;` in a non-void function")
                return [pad + self.result(None, env)]
            if self.sig.ret == "void":
                raise TErr("`return <value>;` in a void function")
            if self.mutating_call(s[1]):
                r = self.fresh(env)
                env2 = dict(env)
                env2[r] = self.sig.ret
                pre = [f"let {r} : {LEAN_TY[self.sig.ret]} := {({'nat': '0', 'int': '0', 'bool': 'false', 'ptr': 'none', 'stat': '0'})[self.sig.ret]}"]
                pre += self.do_call(s[1], env2, ("id", r))
                return [pad + l for l in pre] + [pad + self.result(r, env2)]
            if k[0] != "fn":
                raise TErr("internal: return inside a joined branch")
            return [pad + self.result(self.coerce(s[1], env, self.sig.ret), env)]
        if kind == "if":
            c, s1, s2 = s[1], s[2], s[3]
            if c[0] == "assign":
                return self.seq([("expr", c), ("if", c[2], s1, s2)] + rest, env, k, ind)
            ctext = self.cond(c, env)
            if has_return(s1) or has_return(s2):
                if k[0] != "fn":
                    raise TErr("internal: return inside a joined branch")
                a = self.seq([s1] + rest, dict(env), k, ind + 1)
                b = self.seq(([s2] if s2 else []) + rest, dict(env), k, ind + 1)
                return [pad + f"if {ctext} then"] + a + [pad + "else"] + b
            acc = set()
            self.assigned(s1, env, acc)
            if s2:
                self.assigned(s2, env, acc)
            vs = [v for v in env if v in acc]
            unknown = sorted(acc - set(env) - self.local_decls(s1) - (self.local_decls(s2) if s2 else set()))
            if unknown:
                raise TErr(f"assignment to unknown `{unknown[0]}`")
            if not vs:
                # nothing visible changes; still type-check the branches
                self._check(s1, env)
                if s2:
                    self._check(s2, env)
                return self.seq(rest, env, k, ind)
            kk = ("vars", vs)
            a = self.seq([s1], dict(env), kk, ind + 2)
            b = self.seq([s2] if s2 else [], dict(env), kk, ind + 2)
            if len(vs) == 1:
                head = [pad + f"let {lean_ident(vs[0])} :="]
                tail = []
            else:
                j = self.fresh(env)
                head = [pad + f"let {j} :="]
                tail = [pad + f"let {lean_ident(v)} := {proj(j, i, len(vs))}" for i, v in enumerate(vs)]
            return (head + [pad + "  " + f"if {ctext} then"] + a + [pad + "  else"] + b + tail
                    + self.seq(rest, env, k, ind))
        raise TErr(f"statement form `{kind}`")

    def _check(self, s, env):
        # translate with a dummy continuation to surface unsupported syntax
        try_env = dict(env)
        try_env["__dummy"] = "nat"
        self.seq([s], try_env, ("vars", ["__dummy"]), 0)

    @staticmethod
    def local_decls(s):
        out = set()

        def go(x):
            if x is None:
                return
            if x[0] == "decl":
                out.add(x[2])
            elif x[0] == "block":
                for y in x[1]:
                    go(y)
            elif x[0] == "if":
                go(x[2])
                go(x[3])
        go(s)
        return out


def const_int(e):
    if e[0] == "num":
        return e[1]
    if e[0] == "un" and e[1] == "-":
        v = const_int(e[2])
        return None if v is None else -v
    if e[0] == "un" and e[1] == "+":
        return const_int(e[2])
    return None


# ---- per file --------------------------------------------------------------------------------------------

def parse_struct(txt, tag, cfg):
    """data fields of `struct tag { ... };` -> ordered {name: type}"""
    m = re.search(r"\bstruct\s+" + re.escape(tag) + r"\s*\{", txt)
    if not m:
        raise TErr(f"struct {tag} not found")
    ob = m.end() - 1
    cb = gg.match_close(txt, ob, "{", "}")
    fields = {}
    for decl in txt[ob + 1:cb].split(";"):
        decl = " ".join(decl.split())
        if not decl:
            continue
        if "(" in decl:
            continue            # function pointer (the allocator triple): not data
        mm = re.match(r"^((?:const\s+)?(?:enum\s+\w+|struct\s+\w+|\w+)(?:\s+\w+)*?)\s*((?:\**\s*\w+\s*,\s*)*\**\s*\w+)$", decl)
        if not mm:
            raise TErr(f"field declaration `{decl}`")
        words = tuple(w for w in mm.group(1).split() if w != "const")
        for d in mm.group(2).split(","):
            d = d.strip()
            stars = d.count("*")
            name = d.replace("*", "").strip()
            if name in cfg["arrays"]:
                if stars != 1 or not all(w in NAT_BASES for w in words):
                    raise TErr(f"array field `{name}` is not a pointer to unsigned integers")
                fields[name] = "arr"
            else:
                t = mk_type(words, stars, cfg["typedefs"], f"field {name}")
                if t not in ("nat", "ptr", "int", "bool"):
                    raise TErr(f"field `{name}` of this type")
                fields[name] = t
    for a in cfg["arrays"]:
        if a not in fields:
            raise TErr(f"array field `{a}` not found in struct {tag}")
    if cfg["memory"]:
        if cfg["memory"] in fields:
            raise TErr(f"struct {tag} has a field called `{cfg['memory']}`")
    return fields


def typedef_names(repo, tag):
    names = set()
    inc = Path(repo, "src", "include")
    if inc.is_dir():
        for p in sorted(inc.rglob("*.h")):
            try:
                t = gg.strip_comments(p.read_text(errors="replace"))
            except OSError:
                continue
            names.update(re.findall(r"\btypedef\s+struct\s+" + re.escape(tag) + r"\s+(\w+)\s*;", t))
    return names


def return_type_text(txt, fname):
    for m in re.finditer(r"\b" + re.escape(fname) + r"\s*\(", txt):
        op = m.end() - 1
        cp = gg.match_close(txt, op, "(", ")")
        rest = txt[cp + 1:].lstrip()
        if rest.startswith("{"):
            before = txt[:m.start()]
            cut = max(before.rfind(";"), before.rfind("}"), before.rfind(")"))
            seg = "\n".join(l for l in before[cut + 1:].split("\n") if not l.strip().startswith("#"))
            return " ".join(seg.split())
    raise TErr(f"definition of {fname} not found")


def split_type(text):
    stars = text.count("*")
    words = [w for w in text.replace("*", " ").split() if w not in ("const", "static", "inline", "extern")]
    out, i = [], 0
    while i < len(words):
        if words[i] in ("enum", "struct") and i + 1 < len(words):
            out.append(words[i] + " " + words[i + 1])
            i += 2
        else:
            out.append(words[i])
            i += 1
    return tuple(out), stars


LEAN_FIELD_TY = {"nat": "Nat", "int": "Int", "bool": "Bool", "ptr": "Ptr", "arr": "List Nat"}


def one_file(repo, cfg, status):
    """-> (lean lines, problems)"""
    lines, problems = [], []
    f, tag = cfg["file"], cfg["struct"]
    record = lean_ident(tag)
    fields = None
    try:
        p = Path(repo, f)
        if not p.exists():
            raise TErr(f"{f} does not exist")
        txt = gg.strip_comments(p.read_text(errors="replace"))
        cfg = dict(cfg, typedefs=typedef_names(repo, tag))
        if not cfg["typedefs"]:
            raise TErr(f"no `typedef struct {tag} X;` in src/include")
        fields = parse_struct(txt, tag, cfg)
    except TErr as ex:
        problems.append(f"gen_funcs: struct {tag} ({f}): {ex}")
    except Exception as ex:
        problems.append(f"gen_funcs: struct {tag} ({f}): internal error {type(ex).__name__}: {ex}")
    if fields is None:
        lines.append(f"/-- NOT TRANSLATED — {problems[-1].replace('-/', '- /')} -/")
        lines.append(f"structure {record} where\n  untranslated : Unit := ()")
        for fn in cfg["funcs"]:
            problems.append(f"gen_funcs: {fn} ({f}): struct {tag} was not translated")
            lines += [f"/-- NOT TRANSLATED -/", f"def {fn} : Unit := ()"]
        return lines, problems
    lines.append(f"/-- `struct {tag}` (`{f}`): the data fields" + (f"; `{cfg['memory']}` is the byte region the pointers point into (ghost)" if cfg["memory"] else "") + " -/")
    lines.append(f"structure {record} where")
    for n, t in fields.items():
        lines.append(f"  {lean_ident(n)} : {LEAN_FIELD_TY[t]}")
    if cfg["memory"]:
        lines.append(f"  {cfg['memory']} : List Nat")
    # pass 1: parse the table's functions and, transitively, the file-local helpers they call
    sigs, order = {}, []

    def parse_fn(fn):
        ptxt, body = gg.find_function(txt, fn)
        rw, rs = split_type(return_type_text(txt, fn))
        ret = mk_type(rw, rs, cfg["typedefs"], "return type")
        if ret in ("self",) or isinstance(ret, tuple):
            raise TErr("return type")
        params = []
        for part in gg.split_top(ptxt, ","):
            part = " ".join(part.split())
            if part in ("", "void"):
                continue
            mm = re.match(r"^(.*?)(\w+)$", part)
            if not mm or not mm.group(1).strip():
                raise TErr(f"parameter `{part}`")
            w, s_ = split_type(mm.group(1))
            params.append((mm.group(2), mk_type(w, s_, cfg["typedefs"], f"parameter {mm.group(2)}")))
        ps = Parser(tokenize(body), cfg["typedefs"])
        items = ps.block_items()
        if ps.peek() is not None:
            raise TErr(f"unexpected `{ps.peek()}`")
        return Sig(fn, ret, params, items, cfg)

    work = list(cfg["funcs"])
    while work:
        fn = work.pop(0)
        if fn in sigs:
            continue
        try:
            sg = parse_fn(fn)
            if fn not in cfg["funcs"]:
                sg.helper = True
                sg.lean = lean_ident(f"{tag}__{fn}")
            sigs[fn] = sg
            order.append(fn)
            called = []

            def visit(x, called=called):
                if x[0] == "call":
                    called.append(x[1])
            for st in sg.body:
                walk_exprs(st, visit)
            for c in called:
                if c not in sigs and c != "memset" and c not in work:
                    try:
                        gg.find_function(txt, c)     # defined in this file: a helper
                        work.append(c)
                    except TErr:
                        pass
        except TErr as ex:
            sigs[fn] = str(ex)
        except Exception as ex:
            sigs[fn] = f"internal error {type(ex).__name__}: {ex}"
    # pass 2: who modifies the container (fixpoint over sibling calls)
    for fn in order:
        s = sigs[fn]

        def visit(x, s=s):
            if x[0] == "call":
                s.calls.add(x[1])
        for st in s.body:
            walk_exprs(st, visit)
    changed = True
    for fn in order:
        s = sigs[fn]
        direct = [False]

        def visit(x, s=s, direct=direct):
            if x[0] in ("assign", "pre", "post"):
                try:
                    if root_var(x[2]) == s.state:
                        direct[0] = True
                except TErr:
                    pass
            if x[0] == "call" and x[1] == "memset":
                direct[0] = True
        for st in s.body:
            walk_exprs(st, visit)
        s.mutates = direct[0] and s.state is not None
    while changed:
        changed = False
        for fn in order:
            s = sigs[fn]
            if not s.mutates and s.state is not None and any(
                    c in sigs and not isinstance(sigs[c], str) and sigs[c].mutates for c in s.calls):
                s.mutates = True
                changed = True
    # pass 3: emit, callees first
    done, emitted = set(), []

    def emit(fn, stack):
        if fn in done:
            return
        if fn in stack:
            sigs[fn] = "recursion"
            return
        s = sigs[fn]
        if not isinstance(s, str):
            for c in sorted(s.calls):
                if c in sigs and c != fn:
                    emit(c, stack + [fn])
        done.add(fn)
        s = sigs[fn]
        text = None
        if not isinstance(s, str):
            try:
                bad = [c for c in sorted(s.calls) if c in sigs and isinstance(sigs[c], str)]
                if bad:
                    raise TErr(f"calls `{bad[0]}` which was not translated")
                em = Emit(s, sigs, cfg, record, fields, status)
                env = {}
                for n, t in s.params:
                    env[n] = t
                pre = [f"  let {lean_ident(n)} : Option {LEAN_TY[t]} := none" for n, t in s.outs]
                body = em.seq(list(s.body), env, ("fn",), 1)
                comps = s.components(record)
                rty = " × ".join(t for _, t in comps) if comps else "Unit"
                args = "".join(f" ({lean_ident(n)} : {record if t == 'self' else LEAN_TY[t]})"
                               for n, t in s.params if not isinstance(t, tuple))
                what = ", ".join(("the return value" if k == "ret" else f"`*{k[4:]}`" if k.startswith("out:") else "the container")
                                 for k, _ in comps) or "nothing"
                if s.helper:
                    text = [f"/-- file-local helper `{fn}` (`{f}`); `simp` unfolds it, so the agreement proofs see through it -/",
                            f"@[simp] def {s.lean}{args} : {rty} :="] + pre + body
                else:
                    text = [f"/-- `{fn}` (`{f}`), translated statement by statement; returns {what} -/",
                            f"def {fn}{args} : {rty} :="] + pre + body
            except TErr as ex:
                sigs[fn] = str(ex)
            except Exception as ex:
                sigs[fn] = f"internal error {type(ex).__name__}: {ex}"
        if text is None:
            why = str(sigs[fn]).replace("-/", "- /").replace("\n", " ")
            problems.append(f"gen_funcs: {fn} ({f}): {why}")
            text = [f"/-- NOT TRANSLATED — {why} -/", f"def {lean_ident(tag + '__' + fn) if fn not in cfg['funcs'] else fn} : Unit := ()"]
        emitted.append((fn, text))
    for fn in cfg["funcs"]:
        emit(fn, [])
    for fn, text in emitted:
        lines += text
    return lines, problems


HEADER = """-- GENERATED by tools/gen_funcs.py from the current /repo sources. Do not edit.
import CollectionsC.Base.Buf
/-! Whole functions of the two smallest containers, translated from the C text statement by statement
(see tools/gen_funcs.py).  The state is a record with the data fields of the struct; a function takes the
record where the C function takes the struct pointer and returns (return value, out-parameters as
`Option`, the record if the function can modify it).  `Properties/C19Gen.lean` and `C12Gen.lean` prove
that each definition agrees with the hand-written model. -/
set_option linter.unusedVariables false
namespace CC.GenF
/-- `a - b` on `size_t` (unsigned wrap-around; the convention of `Generated/Guards.lean`) -/
def wsub (a b : Nat) : Nat := if b ≤ a then a - b else 2^64 + a - b
/-- `a + b` on `size_t` -/
def wadd (a b : Nat) : Nat := (a + b) % 2^64
/-- `a * b` on `size_t` -/
def wmul (a b : Nat) : Nat := (a * b) % 2^64
/-- `(size_t) i` for an `int` -/
def castSizeT (i : Int) : Nat := (i % 2^64).toNat
/-- a byte pointer: `none` is NULL, `some k` points `k` bytes above the start of the region -/
abbrev Ptr := Option Nat
/-- `p + n` -/
def padd : Ptr → Nat → Ptr
  | some a, n => some (a + n)
  | none, _ => none
/-- `p - q` as a `size_t` -/
def pdiff : Ptr → Ptr → Nat
  | some a, some b => wsub a b
  | _, _ => 0
/-- `memset(p, v, n)` on the byte region (positions outside the region are ignored) -/
def memsetBytes (bytes : List Nat) (p : Ptr) (v n : Nat) : List Nat :=
  match p with
  | some off => (List.range bytes.length).map fun j => if off ≤ j ∧ j < off + n then v else bytes.getD j 0
  | none => bytes
"""


def generate(repo, constants_path=None):
    repo = str(repo)
    status = gg.status_values(repo, constants_path or "/nonexistent")
    lines, problems = [HEADER.rstrip("\n")], []
    for cfg in TABLE:
        try:
            l, p = one_file(repo, cfg, status)
        except Exception as ex:      # never crash the build step
            l = [f"def {fn} : Unit := ()" for fn in cfg["funcs"]]
            p = [f"gen_funcs: {cfg['file']}: internal error {type(ex).__name__}: {ex}"]
        lines += l
        problems += p
    lines.append("end CC.GenF")
    return "\n".join(lines) + "\n", problems


def write(repo, path):
    path = Path(path)
    try:
        txt, problems = generate(repo, path.parent / "Constants.lean")
    except Exception as ex:
        return [f"gen_funcs: internal error {type(ex).__name__}: {ex}"]
    if not path.exists() or path.read_text() != txt:
        path.write_text(txt)
    return problems


if __name__ == "__main__":
    repo = sys.argv[1] if len(sys.argv) > 1 else "/repo"
    txt, problems = generate(repo, Path(__file__).resolve().parent.parent / "lean" / "CollectionsC" / "Generated" / "Constants.lean")
    print(txt)
    for p in problems:
        print("PROBLEM:", p, file=sys.stderr)
