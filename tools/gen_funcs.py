"""The function translator: regenerates lean/CollectionsC/Generated/Funcs<Name>.lean (one module per C file of
TABLE: ring buffer, static pool, pqueue, array, deque, stack, queue) from the CURRENT text of those files
(constructors and destructors included), so that the theorems of Properties/C19Gen, C12Gen, C10Gen, C01Gen,
C05Gen and C09Gen ("under the invariant the translated C function is free of undefined behaviour and agrees
with the hand-written model function") are re-checked against what the code says now.  Editing a statement changes the generated definition and the theorem stops building.

Route: comment-stripped C text -> tokens -> recursive-descent parser -> a small type checker -> Lean.

 * Every struct of the file that the functions touch becomes a record with ALL its fields: `size_t` /
   `uint64_t` fields are `Nat`, an array field (`uint64_t *buf`) is a `List Nat`, byte pointers are
   `Ptr = Option Nat` (`none` = NULL, `some a` = address `a`), function pointers (the allocator triple) are
   `Option Triple` (which allocator the pointer denotes; `none` = NULL).  For the static pool the memory the
   byte pointers point into is the ghost field `bytes` (indexed by address; `memset` writes it).
 * A function takes a record where the C function takes a struct pointer and returns
   (return value, out-parameters as `Option`, every struct parameter it may modify, the allocation ledger
   `Mem` if it calls through an allocator pointer, `fault`), components that do not exist are left out.
   `p->mem_calloc(..)`/`p->mem_alloc(..)` is `Mem.allocT`, `p->mem_free(..)` is `Mem.freeT` (Base/Mem.lean).
 * UNDEFINED BEHAVIOUR IS CHECKED, not totalised: `fault` becomes true when an array is indexed outside its
   length, on `/ 0` and `% 0`, on `int` overflow, on pointer arithmetic with NULL or past the region, on
   `memset` of NULL / outside the region, on a call through a NULL function pointer and on a dereference
   of a local object pointer that may be NULL.  `&&`, `||` and `?:` check their right operands only when C
   evaluates them.  A function without any such operation has no `fault` component.
 * INTEGER WIDTHS: only the 64-bit unsigned types `size_t`, `uint64_t`, `uintptr_t` (-> `Nat`, arithmetic
   `wadd`/`wsub`/`wmul` mod 2^64) and `int` (-> `Int`, overflow is a fault) are translated; `uint8_t` and
   `void` only as the target of a byte pointer.  Any other integer type (uint32_t, unsigned, long, a
   narrowing cast, ...) is refused.  Mixed `int`/`size_t` operands follow C: the `int` is converted
   (`castSizeT`, i.e. mod 2^64).  `<f>_range` states the declared ranges of the scalar parameters.
 * BLOCK IDENTITY: the container records carry ghost ids of the allocator blocks they live in (`id_`, `<array>_id`);
   an allocation takes the next id from the supply `nid` (a parameter and a result of every function that
   allocates), `mem_free(x)` consumes the id of `x` (functions that release return the list `dead` of the ids they
   released).  Releasing a possibly-NULL pointer, releasing a block twice, and touching an object or array whose
   block was released earlier in the same call are faults.  (The hand-written models count blocks only; the
   agreement theorems say which ids the resulting object owns and which were released.)
 * `*out = obj` for an object pointer is an ALIAS: the result holds the object as it is when the function returns.
 * An uninitialised local that may be read before it is assigned is the parameter `<f>_<x>_uninit` (an arbitrary
   value); one that is assigned first on every path starts as 0 (never observed).  `u`-suffixed literals do not
   adapt to `int` operands (refused), `l`-suffixed ones are refused.
 * `memmove`/`memcpy(dst, src, n)` on arrays (`a`, `&a[i]`) are `Buf.memmove`/`Buf.memcpy`; the byte count must be a
   multiple of the slot width 8, the ranges must lie inside the blocks, and `memcpy` inside one block needs
   disjoint ranges.
 * An `if` with a `return` inside of which both branches can fall through does not duplicate what follows: that part
   becomes the definition `<f>_k<n>`.  One generated module per C file (`Generated/Funcs<Name>.lean`), on top of the
   hand-written `Base/GenPrelude.lean`; a function may call translated functions of an earlier file (`cc_stack.c` ->
   `cc_array.c`) and embeds the object a pointer field owns (`stack->v`).
 * Statements become a chain of `let`s; an `if` whose branches do not return is a joined `let`, an `if`
   with a `return` continues both ways; file-local helper functions are translated as `@[simp]` definitions.

 * LOOPS AND RECURSION: `while` / `for` / `do-while` become a fuel-bounded recursive definition
   `<f>_loop<k>` over the variables the body assigns (`break` / `continue` supported, `return` inside a loop
   refused); a directly recursive function takes `fuel` itself; running out of fuel sets `fault`.  A function
   that loops, recurses or calls such a function has the extra parameter `fuel`.
 * MACROS of the translated file (`#define X v`, `#define F(x) body`) are expanded textually, exactly as the
   preprocessor does (no parentheses added); other directives than `#include` are refused.
 * BIT OPERATIONS on the 64-bit unsigned types: `&`, `|`, `^`, `>>` are the `Nat` operations `&&&`, `|||`, `^^^`,
   `>>>` (they cannot leave the range), `<<` is `wshl` (mod 2^64), `~` is `wnot`; a shift count of 64 or more is a
   fault; the compound forms `&= |= ^= <<= >>=` are written out.  `#ifdef X` / `#ifndef X` / `#else` / `#endif`
   blocks are resolved with the macro set of the build (`gcc -E -dM`, as Constants.lean: `ARCH_64` is undefined,
   so `upper_pow_two` is the 32-bit smear).  `if (A && f(x) != OK) S` with an effectful call `f` is translated as
   the nested `if`s C evaluates.  A parameter `void *(*cp)(void*)` is `Option (Nat → Nat)` (NULL test, call through
   NULL is a fault); a `T **` parameter that is indexed or copied into is an array that is returned.
 * `float` is `Float32` (IEEE single, as on the target): conversions `Float32.ofNat` / `toUInt64`, the
   operators as they are; no property of floating point is assumed anywhere.  A comparator pointer
   `int (*cmp)(const void*, const void*)` is `Option (Nat → Nat → Int)`; with `elem=True` in TABLE a `void *`
   is an element handle (`Nat`), `void **` an array of them.  `mem_alloc(n * sizeof(elem))` yields a block of
   `(n * 8 mod 2^64) / 8` slots whose contents are taken to be 0 (unspecified in C; as in the models).

STILL IGNORED (said here so that nobody assumes otherwise): macros from headers beyond what Constants.lean
lists; struct layout and `sizeof` values other than 8 for pointers and 64-bit integers (LP64); the byte size
product of `calloc(n, size)` (the allocator's business); aliasing between different pointers; reads of
uninitialised locals (they read as 0); `(size_t) <float>` outside the range of size_t (undefined in C,
saturating here).
NOT TRANSLATED: in `cc_deque.c` `replace_at`, the copies,
filters, `index_of`, `contains`, `reverse`, `trim_capacity`, the iterators; in `cc_queue.c` `destroy_cb`,
`foreach`, the iterator wrappers; in `cc_array.c` / `cc_stack.c` everything that takes a callback, builds a derived container or iterates
(`destroy_cb`, `remove_all_free`, `subarray`, the copies, the filters, `contains_value`, `sort`, `map`, `reduce`,
iterators); `src/memory/cc_dynamic_pool.c` (its `PageInfo` headers live inside raw allocator blocks and are
reached by casts such as `(PageInfo*) pool->page` and `new_page + sizeof(PageInfo)`; `destroy`, `reset` and
`used_bytes` walk the `previous` chain through them — this needs a typed heap of header+payload blocks and an
abstraction relation to the model's page list instead of a conversion function); `cc_pqueue_destroy_cb`,
`cc_rbuf` has nothing left out.

Unsupported syntax gives a problem string and `def <f> : Unit := ()`; the translator never raises.
The output is deterministic."""
import re, sys
from pathlib import Path
import gen_guards as gg
from gen_guards import GuardError as TErr

TABLE = [
    dict(file="src/cc_ring_buffer.c", struct="ring_buffer", arrays=["buf"], memory=None, out="FuncsRbuf",
         funcs=["cc_rbuf_conf_init", "cc_rbuf_conf_new", "cc_rbuf_new", "cc_rbuf_destroy",
                "cc_rbuf_is_empty", "cc_rbuf_size", "cc_rbuf_enqueue", "cc_rbuf_dequeue", "cc_rbuf_peek"]),
    dict(file="src/memory/cc_static_pool.c", struct="cc_static_pool_s", arrays=[], memory="bytes", out="FuncsSpool",
         funcs=["cc_static_pool_new", "cc_static_pool_reset", "cc_static_pool_malloc", "cc_static_pool_calloc",
                "cc_static_pool_free", "cc_static_pool_used_bytes", "cc_static_pool_free_bytes"]),
    # elem=True: `void *` is an element handle (a Nat), `void **` an array of them / an out-parameter
    dict(file="src/cc_pqueue.c", struct="cc_pqueue_s", arrays=["buffer"], memory=None, elem=True, out="FuncsPQueue",
         funcs=["cc_pqueue_conf_init", "cc_pqueue_new_conf", "cc_pqueue_new", "cc_pqueue_destroy",
                "cc_pqueue_push", "cc_pqueue_top", "cc_pqueue_pop"]),
    # out=...: the generated module (Generated/<out>.lean); the default is Funcs
    dict(file="src/cc_array.c", struct="cc_array_s", arrays=["buffer"], memory=None, elem=True, out="FuncsArray",
         funcs=["cc_array_conf_init", "cc_array_new_conf", "cc_array_new", "cc_array_destroy",
                "cc_array_add", "cc_array_add_at", "cc_array_replace_at", "cc_array_swap_at",
                "cc_array_remove_at", "cc_array_remove_last", "cc_array_remove_all",
                "cc_array_get_at", "cc_array_get_last", "cc_array_size", "cc_array_capacity",
                "cc_array_trim_capacity", "cc_array_reverse", "cc_array_index_of", "cc_array_contains",
                "cc_array_remove"]),
    dict(file="src/cc_deque.c", struct="cc_deque_s", arrays=["buffer"], memory=None, elem=True, out="FuncsDeque",
         funcs=["cc_deque_conf_init", "cc_deque_new_conf", "cc_deque_new", "cc_deque_destroy",
                "cc_deque_add_first", "cc_deque_add_last", "cc_deque_remove_first", "cc_deque_remove_last",
                "cc_deque_get_at", "cc_deque_get_first", "cc_deque_get_last", "cc_deque_size", "cc_deque_capacity",
                "cc_deque_add_at", "cc_deque_remove_at"]),
    dict(file="src/cc_stack.c", struct="cc_stack_s", arrays=[], memory=None, elem=True, out="FuncsStack",
         imports=["FuncsArray"],
         funcs=["cc_stack_conf_init", "cc_stack_new_conf", "cc_stack_new", "cc_stack_destroy",
                "cc_stack_push", "cc_stack_peek", "cc_stack_pop", "cc_stack_size"]),
    dict(file="src/cc_queue.c", struct="cc_queue_s", arrays=[], memory=None, elem=True, out="FuncsQueue",
         imports=["FuncsDeque"],
         funcs=["cc_queue_conf_init", "cc_queue_new_conf", "cc_queue_new", "cc_queue_destroy",
                "cc_queue_peek", "cc_queue_poll", "cc_queue_enqueue", "cc_queue_size"]),
]

NAT64 = {"size_t", "uint64_t", "uintptr_t"}
BYTE_BASES = {"uint8_t", "void", "char"}
FUEL = "fuel"
TYPEWORDS = NAT64 | {"uint8_t", "uint16_t", "uint32_t", "unsigned", "int", "char", "bool", "void", "const", "enum",
                     "struct", "long", "short", "signed", "int8_t", "int16_t", "int32_t", "int64_t", "float", "double"}
SIZE_MOD = 2 ** 64
LIBC = {"malloc": "alloc", "calloc": "calloc", "free": "free"}

# ---- lexer ----------------------------------------------------------------------------
TOK = re.compile(r"\s*(0[xX][0-9a-fA-F]+[uUlL]*|\d+[uUlL]*|[A-Za-z_]\w*|->|\+\+|--|&&|\|\||==|!=|<<=|>>=|<=|>=|\+=|-=|\*=|/=|%=|&=|\|=|\^=|<<|>>"
                 r"|[-+*/%!=<>()\[\]{};,&.~?:^|])")


def tokenize(s):
    out, pos = [], 0
    s = s.rstrip()
    while pos < len(s):
        m = TOK.match(s, pos)
        if not m:
            if s[pos:].strip() == "":
                break
            raise TErr("cannot tokenize: " + s[pos:pos + 20].strip())
        out.append(m.group(1))
        pos = m.end()
    return out


def is_ident(t):
    return t is not None and re.match(r"[A-Za-z_]\w*$", t) is not None


# ---- parser -----------------------------------------------------------------------------
class Parser:
    def __init__(self, toks, typenames):
        self.t, self.i = toks, 0
        self.types = TYPEWORDS | set(typenames)

    def peek(self, k=0):
        return self.t[self.i + k] if self.i + k < len(self.t) else None

    def eat(self, x=None):
        t = self.peek()
        if t is None:
            raise TErr("unexpected end of function" + (f", expected {x}" if x else ""))
        if x is not None and t != x:
            raise TErr(f"expected `{x}` but found `{t}`")
        self.i += 1
        return t

    def type_tokens(self):
        """consumes base type words and stars; returns (base words, number of stars)"""
        words = []
        while self.peek() in self.types:
            w = self.eat()
            if w in ("enum", "struct"):
                words.append(w + " " + self.eat())
            elif w != "const":
                words.append(w)
        stars = 0
        while self.peek() in ("*", "const"):
            if self.eat() == "*":
                stars += 1
        return tuple(words), stars

    def block_items(self):
        items = []
        while self.peek() is not None and self.peek() != "}":
            items.append(self.statement())
        return items

    def statement(self):
        t = self.peek()
        if t == "{":
            self.eat()
            items = self.block_items()
            self.eat("}")
            return ("block", items)
        if t == ";":
            self.eat()
            return ("block", [])
        if t == "if":
            self.eat()
            self.eat("(")
            c = self.expr()
            self.eat(")")
            s1 = self.statement()
            s2 = None
            if self.peek() == "else":
                self.eat()
                s2 = self.statement()
            return ("if", c, s1, s2)
        if t == "return":
            self.eat()
            e = None if self.peek() == ";" else self.expr()
            self.eat(";")
            return ("ret", e)
        if t == "while":
            self.eat()
            self.eat("(")
            c = self.expr()
            self.eat(")")
            return ("while", c, self.statement())
        if t == "do":
            self.eat()
            body = self.statement()
            self.eat("while")
            self.eat("(")
            c = self.expr()
            self.eat(")")
            self.eat(";")
            return ("block", [body, ("while", c, body)])
        if t == "for":
            self.eat()
            self.eat("(")
            if self.peek() in self.types:
                inits = [self.statement()]    # a declaration, eats the `;`
            else:
                inits = []
                while self.peek() != ";":
                    inits.append(("expr", self.assign()))
                    if self.peek() == ",":
                        self.eat()
                self.eat(";")
            c = ("boollit", "true") if self.peek() == ";" else self.expr()
            self.eat(";")
            steps = []
            while self.peek() != ")":
                steps.append(("expr", self.assign()))
                if self.peek() == ",":
                    self.eat()
            self.eat(")")
            body = self.statement()
            if steps and has_jump(body, ("continue",)):
                raise TErr("`continue` inside a `for` loop with a step expression")
            return ("block", inits + [("while", c, ("block", [body] + steps))])
        if t in ("break", "continue"):
            self.eat()
            self.eat(";")
            return (t,)
        if t in ("switch", "goto", "case", "default"):
            raise TErr(f"`{t}` statements are not translated")
        if t in self.types:
            ty = self.type_tokens()
            name = self.eat()
            if not is_ident(name):
                raise TErr(f"declarator expected, found `{name}`")
            init = None
            if self.peek() == "=":
                self.eat()
                init = self.assign()
            if self.peek() == ",":
                raise TErr("several declarators in one declaration")
            if self.peek() in ("[", "("):
                raise TErr("array / function declarator")
            self.eat(";")
            return ("decl", ty, name, init)
        e = self.expr()
        self.eat(";")
        return ("expr", e)

    def expr(self):
        e = self.assign()
        if self.peek() == ",":
            raise TErr("comma operator")
        return e

    def assign(self):
        a = self.lor()
        if self.peek() in ("=", "+=", "-=", "*=", "/=", "%=", "&=", "|=", "^=", "<<=", ">>="):
            op = self.eat()
            b = self.assign()
            return ("assign", op, a, b)
        if self.peek() == "?":
            self.eat()
            x = self.expr()
            self.eat(":")
            y = self.assign()
            return ("cond", a, x, y)
        return a

    def binlevel(self, ops, sub):
        a = sub()
        while self.peek() in ops:
            op = self.eat()
            a = ("bin", op, a, sub())
        return a

    def lor(self):
        return self.binlevel(("||",), self.land)

    def land(self):
        return self.binlevel(("&&",), self.bor)

    def bor(self):
        return self.binlevel(("|",), self.bxor)

    def bxor(self):
        return self.binlevel(("^",), self.band)

    def band(self):
        return self.binlevel(("&",), self.equality)

    def equality(self):
        return self.binlevel(("==", "!="), self.relational)

    def relational(self):
        return self.binlevel(("<", ">", "<=", ">="), self.shift)

    def shift(self):
        return self.binlevel(("<<", ">>"), self.additive)

    def additive(self):
        return self.binlevel(("+", "-"), self.multiplicative)

    def multiplicative(self):
        return self.binlevel(("*", "/", "%"), self.unary)

    def unary(self):
        t = self.peek()
        if t in ("!", "-", "*", "&", "~", "+"):
            self.eat()
            return ("un", t, self.unary())
        if t in ("++", "--"):
            self.eat()
            return ("pre", t, self.unary())
        if t == "sizeof":
            self.eat()
            self.eat("(")
            if self.peek() not in self.types:
                raise TErr("sizeof of an expression")
            ty = self.type_tokens()
            self.eat(")")
            return ("sizeof", ty)
        if t == "(" and self.peek(1) in self.types:
            self.eat()
            ty = self.type_tokens()
            self.eat(")")
            return ("cast", ty, self.unary())
        return self.postfix()

    def postfix(self):
        e = self.primary()
        while True:
            t = self.peek()
            if t == "->":
                self.eat()
                f = self.eat()
                if not is_ident(f):
                    raise TErr("field name expected after ->")
                e = ("arrow", e, f)
            elif t == "[":
                self.eat()
                i = self.expr()
                self.eat("]")
                e = ("index", e, i)
            elif t == "(":
                self.eat()
                args = []
                if self.peek() != ")":
                    args.append(self.assign())
                    while self.peek() == ",":
                        self.eat()
                        args.append(self.assign())
                self.eat(")")
                e = ("call", e[1], args) if e[0] == "id" else ("callp", e, args)
            elif t in ("++", "--"):
                self.eat()
                e = ("post", t, e)
            elif t == ".":
                raise TErr("`.` member access")
            else:
                return e

    def primary(self):
        t = self.eat()
        if t == "(":
            e = self.expr()
            self.eat(")")
            return e
        if re.match(r"\d", t):
            body = re.sub(r"[uUlL]+$", "", t)
            suf = t[len(body):].lower()
            if "l" in suf and "u" not in suf:
                raise TErr(f"literal `{t}` of type long")
            if re.match(r"^0[0-7]+$", body):
                val = int(body, 8)
            elif re.match(r"^0\d+$", body):
                raise TErr(f"malformed octal literal `{t}`")
            else:
                val = int(body, 0)
            return ("num", val, "u") if "u" in suf else ("num", val)
        if t == "NULL":
            return ("null",)
        if t in ("true", "false"):
            return ("boollit", t)
        if is_ident(t):
            return ("id", t)
        raise TErr(f"unexpected `{t}` in an expression")


# ---- types ----------------------------------------------------------------------------------
# "nat" "int" "bool" "ptr" "stat" "void" "lit" (an integer literal, adapts) "arr" (array of uint64_t)
# ("sp", tag) pointer to a translated struct   ("sv", tag) a struct value (local)
# ("out", t) out-parameter                     ("fn", role) allocator function pointer
# pseudo: "mem" (the ledger variable), "flag"

def mk_type(ty, tdefs, where, ctx):
    """ctx: "param" | "local" | "field" | "ret" | "cast"; tdefs: {typedef name: struct tag}"""
    words, stars = ty
    words = tuple(w for w in words if w != "const")
    base = " ".join(words)
    shown = f"`{base}{'*' * stars}`"
    tag = None
    if len(words) == 1 and words[0] in tdefs:
        tag = tdefs[words[0]]
    elif len(words) == 1 and words[0].startswith("struct ") and words[0][7:] in tdefs.values():
        tag = words[0][7:]
    if tag is not None:
        if stars == 1:
            return ("sp", tag)
        if stars == 0 and ctx == "local":
            return ("sv", tag)
        if stars == 2 and ctx == "param":
            return ("out", ("sp", tag))
        raise TErr(f"type {shown} ({where})")
    if base == "enum cc_stat" and stars == 0:
        return "stat"
    if base == "bool" and stars == 0:
        return "bool"
    if base == "int" and stars == 0:
        return "int"
    if base == "float" and stars == 0:
        return "float"
    if base == "void" and stars == 0 and ctx == "ret":
        return "void"
    if tdefs.get("__elem__") and base == "void":
        if stars == 1:
            return "nat"                     # an element handle
        if stars == 2:
            return ("out", "nat") if ctx == "param" else "arr"
    if base in NAT64:
        if stars == 0:
            return "nat"
        if stars == 1 and base == "uint64_t" and not tdefs.get("__elem__"):
            return ("out", "nat") if ctx == "param" else "arr"
        if stars == 1 and ctx == "param":
            return ("out", "nat")
    if base in BYTE_BASES and stars == 1:
        return "ptr"
    if base in BYTE_BASES and stars == 2 and ctx == "param":
        return ("out", "ptr")
    if stars == 0 and words and all(w in TYPEWORDS for w in words):
        raise TErr(f"integer type {shown} ({where}): only size_t / uint64_t / uintptr_t and int are translated, "
                   f"other widths are refused")
    raise TErr(f"type {shown} is not translated ({where})")


def lean_ident(n):
    return gg.lean_ident(n)


def lean_ty(t):
    if isinstance(t, tuple):
        if t[0] in ("sp", "sv"):
            return lean_ident(t[1])
        if t[0] == "out":
            return f"Option {atomty(lean_ty(t[1]))}"
        if t[0] == "fn":
            return "Option Triple"
        if t[0] == "cmp":
            return "Option (Nat → Nat → Int)"
        if t[0] == "cb1":
            return "Option (Nat → Nat)"
        if t[0] == "opt":
            return "Option Unit" if t[1] == "void" else f"Option {atomty(lean_ty(t[1]))}"
    return {"nat": "Nat", "int": "Int", "bool": "Bool", "ptr": "Ptr", "stat": "Nat", "arr": "List Nat",
            "mem": "Mem", "flag": "Bool", "float": "Float32", "fuelt": "Nat", "idt": "Nat", "deadt": "List Nat"}[t]


def atomty(s):
    return s if " " not in s else f"({s})"


def zero_of(t):
    if isinstance(t, tuple):
        if t[0] in ("sp", "sv"):
            return f"{lean_ident(t[1])}.zero"
        return "none"
    return {"nat": "0", "int": "0", "bool": "false", "ptr": "none", "stat": "0", "arr": "[]", "float": "(0 : Float32)"}[t]


# what earlier entries of TABLE translated: later files may call those functions and embed those records
REG = {"structs": {}, "sigs": {}}


class Sig:
    external = False

    def __init__(self, name, ret, params, body):
        self.name, self.ret, self.params, self.body = name, ret, params, body
        self.lean = name        # file-local helpers get the struct tag as a prefix (one_file)
        self.helper = False
        self.outs = [(n, t[1]) for n, t in params if isinstance(t, tuple) and t[0] == "out"]
        self.mut = []           # struct-pointer parameters the function may modify
        self.mem = False        # calls through an allocator pointer
        self.faults = False     # has a `fault` component
        self.extras = []        # [(lean name, lean type)]: arbitrary initial contents of uninitialised objects
        self.calls = set()
        self.fuel = False       # has a loop / is recursive / calls such a function: takes `fuel`
        self.recursive = False
        self.out_nn = []        # out-parameters the function tests for NULL: extra Bool parameters
        self.nid = False        # allocates: takes and returns the supply of block ids
        self.frees = False      # releases blocks: returns the ids it released

    def components(self):
        c = []
        if self.ret != "void":
            c.append(("ret", lean_ty(self.ret)))
        for n, t in self.outs:
            c.append(("out:" + n, lean_ty(("out", t))))
        for n in self.mut:
            c.append(("state:" + n, lean_ty(dict(self.params)[n])))
        if self.mem:
            c.append(("mem", "Mem"))
        if self.nid:
            c.append(("nid", "Nat"))
        if self.frees:
            c.append(("dead", "List Nat"))
        if self.faults:
            c.append(("fault", "Bool"))
        return c


def proj(r, i, n):
    if n == 1:
        return r
    return r + ".2" * i + (".1" if i < n - 1 else "")


# ---- static analysis ---------------------------------------------------------------------------

def walk_exprs(node, f):
    """calls f on every expression node of a statement / expression tree"""
    if not isinstance(node, tuple) or not node:
        return
    k = node[0]
    if k == "block":
        for s in node[1]:
            walk_exprs(s, f)
    elif k == "if":
        walk_exprs(node[1], f)
        walk_exprs(node[2], f)
        if node[3]:
            walk_exprs(node[3], f)
    elif k == "while":
        walk_exprs(node[1], f)
        walk_exprs(node[2], f)
    elif k == "ret":
        if node[1]:
            walk_exprs(node[1], f)
    elif k == "decl":
        if node[3]:
            walk_exprs(node[3], f)
    elif k == "expr":
        walk_exprs(node[1], f)
    else:
        f(node)
        if k in ("un", "pre", "post"):
            walk_exprs(node[2], f)
        elif k == "bin":
            walk_exprs(node[2], f)
            walk_exprs(node[3], f)
        elif k == "assign":
            walk_exprs(node[2], f)
            walk_exprs(node[3], f)
        elif k == "call":
            for a in node[2]:
                walk_exprs(a, f)
        elif k == "callp":
            walk_exprs(node[1], f)
            for a in node[2]:
                walk_exprs(a, f)
        elif k == "index":
            walk_exprs(node[1], f)
            walk_exprs(node[2], f)
        elif k == "arrow":
            walk_exprs(node[1], f)
        elif k == "cast":
            walk_exprs(node[2], f)
        elif k == "cond":
            walk_exprs(node[1], f)
            walk_exprs(node[2], f)
            walk_exprs(node[3], f)


def has_return(s):
    if s is None:
        return False
    if s[0] == "ret":
        return True
    if s[0] == "block":
        return any(has_return(x) for x in s[1])
    if s[0] == "if":
        return has_return(s[2]) or has_return(s[3])
    if s[0] == "while":
        return has_return(s[2])
    return False


def always_returns(s):
    """every path through the statement ends in a `return`"""
    if s is None:
        return False
    if s[0] == "ret":
        return True
    if s[0] == "block":
        return any(always_returns(x) for x in s[1])
    if s[0] == "if":
        return always_returns(s[2]) and always_returns(s[3])
    return False


def reads_var(e, x):
    """the expression reads variable x (an assignment `x = ..` does not read its left side)"""
    if not isinstance(e, tuple) or not e:
        return False
    k = e[0]
    if k == "id":
        return e[1] == x
    if k == "assign":
        lhs_reads = False if (e[2] == ("id", x) and e[1] == "=") else reads_var(e[2], x)
        return lhs_reads or reads_var(e[3], x)
    return any(reads_var(c, x) for c in e[1:] if isinstance(c, (tuple, list))) or \
        any(reads_var(c, x) for l in e[1:] if isinstance(l, list) for c in l)


def first_use(stmts, x):
    """'A' the variable is assigned before it is read on every path through stmts, 'R' it may be read first,
    'U' neither happens for sure"""
    for s in stmts:
        k = s[0]
        if k == "block":
            r = first_use(s[1], x)
        elif k in ("expr", "ret", "decl"):
            e = s[1] if k != "decl" else s[3]
            if e is None:
                r = "U"
            elif e[0] == "assign" and e[1] == "=" and e[2] == ("id", x):
                r = "R" if reads_var(e[3], x) else "A"
            else:
                r = "R" if reads_var(e, x) else "U"
        elif k == "if":
            c = s[1]
            inner = c[2] if (c[0] == "un" and c[1] == "!") else (c[2] if c[0] == "bin" else c)
            if isinstance(inner, tuple) and inner[0] == "assign" and inner[1] == "=" and inner[2] == ("id", x) \
                    and not reads_var(inner[3], x) and not (c[0] == "bin" and reads_var(c[3], x)):
                r = "A"
            elif reads_var(c, x):
                r = "R"
            else:
                branches = [(s[2], first_use([s[2]], x))] + ([(s[3], first_use([s[3]], x))] if s[3] else [(None, "U")])
                if any(b == "R" for _, b in branches):
                    r = "R"
                else:
                    through = [b for st, b in branches if not always_returns(st)]
                    r = "A" if (not through or all(b == "A" for b in through)) else "U"
        elif k == "while":
            r = "R" if (reads_var(s[1], x) or first_use([s[2]], x) == "R") else "U"
        else:
            r = "U"
        if r in ("A", "R"):
            return r
    return "U"


def has_jump(s, kinds=("break", "continue")):
    """a `break` / `continue` that belongs to the enclosing loop"""
    if s is None:
        return False
    if s[0] in kinds:
        return True
    if s[0] == "block":
        return any(has_jump(x, kinds) for x in s[1])
    if s[0] == "if":
        return has_jump(s[2], kinds) or has_jump(s[3], kinds)
    return False


def has_loop(s):
    if s is None:
        return False
    if s[0] == "while":
        return True
    if s[0] == "block":
        return any(has_loop(x) for x in s[1])
    if s[0] == "if":
        return has_loop(s[2]) or has_loop(s[3])
    return False


def root_var(lhs):
    """the variable an lvalue belongs to"""
    if lhs[0] == "id":
        return lhs[1]
    if lhs[0] in ("arrow", "index"):
        return root_var(lhs[1])
    if lhs[0] == "un" and lhs[1] in ("*", "&"):
        return root_var(lhs[2])
    raise TErr("assignment to something that is not a variable, a field, an array slot or `*out`")


def const_int(e):
    if e[0] == "num":
        return e[1]
    if e[0] == "un" and e[1] == "-":
        v = const_int(e[2])
        return None if v is None else -v
    if e[0] == "un" and e[1] == "+":
        return const_int(e[2])
    return None


def conj(a, b):
    if a is None:
        return b
    if b is None or a == b:
        return a
    return f"({a} && {b})"


def guard(c, ok):
    """ok is only required when c holds"""
    return None if ok is None else f"(!({c}) || {ok})"


FAULT, MEM, RET, NID, DEAD = "fault_", "m", "ret_", "nid", "dead_"


# ---- emitter ---------------------------------------------------------------------------------------
class Emit:
    def __init__(self, sig, sigs, cfg, structs, consts):
        self.sig, self.sigs, self.cfg, self.structs, self.consts = sig, sigs, cfg, structs, consts
        self.tmp = 0
        self.nn = {}            # lvalue key -> lean Bool text: "this pointer is not NULL"
        self.fault_used = False
        self.extras = []
        self.alias = {}         # out-parameter -> the object variable `*out = obj` made it point to (an alias)
        self.maydead = False    # a block may have been released earlier on this path: liveness is checked
        self.aux = []           # auxiliary definitions (loops), emitted in front of the function
        self.nloops = 0

    def fresh(self, env, stem="r"):
        while True:
            self.tmp += 1
            n = f"{stem}_{self.tmp}"
            if n not in env:
                return n

    def fields_of(self, t):
        return self.structs[t[1]]["fields"]

    def memvar(self, env):
        """(lean text of the byte region, or None)"""
        mem = self.cfg["memory"]
        if not mem:
            return None
        for v, t in env.items():
            if isinstance(t, tuple) and t[0] in ("sp", "sv") and t[1] == self.cfg["struct"]:
                return f"{lean_ident(v)}.{mem}"
        return None

    # -- expressions (pure) --
    def E(self, e, env, want=None):
        """-> (lean text, type, ok) ; ok = None or a lean Bool that is false when evaluating e is undefined"""
        k = e[0]
        if k == "num" and len(e) > 2:
            # an unsigned literal (`0u`): it does not adapt; next to an `int` C converts the int to unsigned
            # int (32 bit) - that is refused rather than translated
            if want in ("int", "float", "ptr"):
                raise TErr("an unsigned literal next to an operand that is not an unsigned 64-bit integer")
            return str(e[1]), "ulit", None
        if k == "num":
            if want == "int":
                return str(e[1]), "int", None
            if want == "float":
                return f"(Float32.ofNat {e[1]})", "float", None
            if want == "ptr":
                if e[1] == 0:
                    return "none", "ptr", None
                raise TErr("integer used as a pointer")
            return str(e[1]), ("nat" if want in ("nat", "bool", "stat") else "lit"), None
        if k == "null":
            if want == "nat" and self.cfg["tdefs"].get("__elem__"):
                return "0", "nat", None          # the NULL element handle
            return "none", (want if isinstance(want, tuple) and want[0] in ("fn", "cmp", "cb1") else "ptr"), None
        if k == "boollit":
            return e[1], "bool", None
        if k == "id":
            if e[1] in env:
                t = env[e[1]]
                if isinstance(t, tuple) and t[0] == "out":
                    raise TErr(f"out-parameter `{e[1]}` used as a value")
                if t in ("mem", "flag", "fuelt", "idt", "deadt"):
                    raise TErr(f"`{e[1]}` clashes with a name the translation uses")
                return lean_ident(e[1]), t, None
            if e[1] in LIBC and isinstance(want, tuple) and want[0] == "fn":
                if LIBC[e[1]] != want[1]:
                    raise TErr(f"`{e[1]}` stored in a function pointer of another kind")
                return "(some Triple.libc)", want, None
            if e[1] in self.consts:
                return str(self.consts[e[1]]), ("stat" if e[1].startswith("CC_") and want == "stat" else "nat"), None
            raise TErr(f"unknown identifier `{e[1]}`")
        if k == "arrow":
            b, bt, ok = self.E(e[1], env)
            if not (isinstance(bt, tuple) and bt[0] in ("sp", "sv")):
                raise TErr(f"`->{e[2]}` on something that is not a translated struct")
            fs = self.fields_of(bt)
            if e[2] not in fs:
                raise TErr(f"`{e[2]}` is not a field of struct {bt[1]}")
            if e[1][0] == "id" and e[1][1] + "_nn" in env:
                ok = conj(ok, lean_ident(e[1][1] + "_nn"))
            ok = conj(ok, self.live(e[1], env))
            return f"{b}.{lean_ident(e[2])}", fs[e[2]], ok
        if k == "index":
            a, at, ok = self.E(e[1], env)
            if at != "arr":
                raise TErr("indexing something that is not an array")
            i, ok2 = self.index(e[2], env, a)
            return f"(Buf.get {a} {i})", "nat", conj(conj(ok, self.live(e[1], env)), ok2)
        if k == "cast":
            t = mk_type(e[1], self.cfg["tdefs"], "cast", "cast")
            if t == "nat":
                v = const_int(e[2])
                if v is not None:
                    return str(v % SIZE_MOD), "nat", None
                x, xt, ok = self.E(e[2], env, "nat")
                if xt in ("nat", "lit"):
                    return x, "nat", ok
                if xt == "int":
                    return f"(castSizeT {x})", "nat", ok
                if xt == "float":
                    return f"(Float32.toUInt64 {x}).toNat", "nat", ok
            if t == "ptr":
                x, xt, ok = self.E(e[2], env, "ptr")
                if xt == "ptr":
                    return x, "ptr", ok
            if t == "int":
                x, xt, ok = self.E(e[2], env, "int")
                if xt in ("int", "lit"):
                    return x, "int", ok
            raise TErr(f"cast to `{' '.join(e[1][0])}{'*' * e[1][1]}` of this operand")
        if k == "un":
            op = e[1]
            if op == "!":
                c, ok = self.cond(e[2], env)
                return f"!({c})", "bool", ok
            if op == "-":
                v = const_int(e)
                if v is not None and want in (None, "int"):
                    return f"({v})", "int", None
                x, xt, ok = self.E(e[2], env, want)
                if xt == "int":
                    return f"(-{x})", "int", conj(ok, f"intOk (-{x})")
                raise TErr("unary minus on an unsigned operand")
            if op == "+":
                return self.E(e[2], env, want)
            if op == "*":
                raise TErr("reading through a pointer")
            if op == "~":
                x, xt, ok = self.E(e[2], env, "nat")
                if xt in ("nat", "lit", "ulit"):
                    return f"(wnot {x})", "nat", ok
                raise TErr("`~` on an operand that is not an unsigned 64-bit integer")
            raise TErr(f"unary `{op}`")
        if k == "bin":
            return self.binop(e, env)
        if k == "cond":
            c, okc = self.cond(e[1], env)
            ta, tya, oka = self.E(e[2], env, want)
            tb, tyb, okb = self.E(e[3], env, want if tya == "lit" else tya)
            if tya == "lit" and tyb != "lit":
                ta, tya, oka = self.E(e[2], env, tyb)
            if tya != tyb:
                raise TErr("the two branches of `?:` are of different kinds")
            ok = conj(okc, conj(guard(c, oka), guard(f"!({c})", okb)))
            return f"(if {c} then {ta} else {tb})", tya, ok
        if k == "call" and env.get(e[1]) == ("cb1",):
            if len(e[2]) != 1:
                raise TErr("callback called with other than 1 argument")
            a, oka = self.coerce(e[2][0], env, "nat")
            f = lean_ident(e[1])
            return f"(({f}.getD id) {self.atom(a)})", "nat", conj(oka, f"{f}.isSome")
        if k == "call":
            f = e[1]
            s = self.sigs.get(f)
            if isinstance(s, Sig):
                if s.mut or s.outs or s.mem or s.fuel:
                    raise TErr(f"call of `{f}` (which modifies its arguments, allocates or loops) inside an expression")
                if s.ret == "void":
                    raise TErr(f"value of the void function `{f}`")
                text, ok = self.call_text(s, e[2], env)
                if s.faults:
                    return f"({text}).1", s.ret, conj(ok, f"!({text}).2")
                return f"({text})", s.ret, ok
            raise TErr(f"call of `{f}` is not translated")
        if k in ("assign", "pre", "post"):
            raise TErr("side effect inside an expression")
        if k == "callp":
            f, ft, ok = self.E(e[1], env)
            if ft == ("cmp",):
                if len(e[2]) != 2:
                    raise TErr("comparator called with other than 2 arguments")
                a, oka = self.coerce(e[2][0], env, "nat")
                b, okb = self.coerce(e[2][1], env, "nat")
                return (f"(({f}.getD (fun _ _ => 0)) {self.atom(a)} {self.atom(b)})", "int",
                        conj(conj(ok, f"{f}.isSome"), conj(oka, okb)))
            raise TErr("call through an allocator pointer inside an expression")
        if k == "sizeof":
            words, stars = e[1]
            if stars >= 1 or (len(words) == 1 and words[0] in NAT64):
                return "8", "nat", None          # LP64: pointers and the 64-bit integers
            raise TErr("sizeof of this type as a number")
        raise TErr(f"expression form `{k}`")

    def id_of(self, e, env):
        """lean text of the id of the block an object / array expression denotes, or None"""
        if e[0] == "id":
            t = env.get(e[1])
            if isinstance(t, tuple) and t[0] in ("sp", "sv"):
                return f"{lean_ident(e[1])}.id_" if self.structs[t[1]].get("has_id") else None
            if t == "arr" and e[1] + "_id" in env:
                return lean_ident(e[1] + "_id")
            return None
        if e[0] == "arrow" and e[1][0] in ("id", "arrow"):
            try:
                b, bt, _ = self.E(e[1], env)
            except TErr:
                return None
            if isinstance(bt, tuple) and bt[0] in ("sp", "sv"):
                ft = self.fields_of(bt).get(e[2])
                if ft == "arr":
                    return f"{b}.{lean_ident(e[2])}_id"
                if isinstance(ft, tuple) and ft[0] == "sp" and self.structs[ft[1]].get("has_id"):
                    return f"{b}.{lean_ident(e[2])}.id_"
        return None

    def live(self, e, env):
        """ok-condition: the block of e has not been released earlier in this call (only in functions that
        release blocks, directly or through a callee)"""
        if DEAD not in env or not self.maydead:
            return None
        i = self.id_of(e, env)
        return None if i is None else f"!(isDead {DEAD} {i})"

    def index(self, ie, env, arr):
        i, it, ok = self.E(ie, env, "nat")
        if it == "int":
            return f"(Int.toNat {i})", conj(ok, f"(decide (0 ≤ {i}) && decide (Int.toNat {i} < List.length {arr}))")
        if it in ("nat", "lit", "ulit"):
            return i, conj(ok, f"decide ({i} < List.length {arr})")
        raise TErr("array index is not an integer")

    def binop(self, e, env):
        op, a, b = e[1], e[2], e[3]
        if op in ("&&", "||"):
            ca, oka = self.cond(a, env)
            cb, okb = self.cond(b, env)
            ok = conj(oka, guard(ca if op == "&&" else f"!({ca})", okb))
            return f"({ca} {op} {cb})", "bool", ok
        ta, tya, oka = self.E(a, env)
        tb, tyb, okb = self.E(b, env, tya if tya != "lit" else None)
        if tya == "ptr" and ta == "none" and isinstance(tyb, tuple):
            ta, tya, oka = self.E(a, env, tyb)
        if tya == "lit" and tyb != "lit":
            ta, tya, oka = self.E(a, env, tyb)
        if "ulit" in (tya, tyb):
            other = tyb if tya == "ulit" else tya
            if other not in ("nat", "lit", "ulit"):
                raise TErr("an unsigned literal next to an operand that is not an unsigned 64-bit integer")
            tya = tyb = "nat"
        if tya == "lit" and tyb == "lit":
            tya = tyb = "nat"
        if tyb == "lit":
            tyb = tya
        # C's usual arithmetic conversions: int meets size_t -> the int is converted to size_t
        if {tya, tyb} == {"nat", "int"}:
            if tya == "int":
                ta, tya = f"(castSizeT {ta})", "nat"
            else:
                tb, tyb = f"(castSizeT {tb})", "nat"
        ok = conj(oka, okb)
        if op in ("==", "!=") and any(isinstance(t, tuple) and t[0] in ("cb1", "cmp") for t in (tya, tyb)):
            # a callback pointer compared with NULL
            x = ta if tb == "none" else tb if ta == "none" else None
            if x is None:
                raise TErr("comparison of two function pointers")
            return (f"{x}.isNone" if op == "==" else f"{x}.isSome"), "bool", ok
        if "float" in (tya, tyb):
            if tya == "nat":
                ta, tya = f"(Float32.ofNat {ta})", "float"
            if tyb == "nat":
                tb, tyb = f"(Float32.ofNat {tb})", "float"
            if tya != "float" or tyb != "float":
                raise TErr(f"`{op}` on a float and an operand of kind {self.show(tya if tya != 'float' else tyb)}")
            if op in gg.CMP:
                return f"decide ({ta} {gg.CMP[op]} {tb})", "bool", ok
            if op in ("+", "-", "*", "/"):
                return f"({ta} {op} {tb})", "float", ok
            raise TErr(f"`{op}` on floats")
        if op in gg.CMP:
            if tya != tyb or not (tya in ("nat", "int", "ptr", "bool", "stat") or (isinstance(tya, tuple) and tya[0] == "fn")):
                raise TErr(f"comparison `{op}` of different kinds of operands")
            if tya not in ("nat", "int") and op not in ("==", "!="):
                raise TErr("ordering comparison of pointers / truth values")
            return f"decide ({ta} {gg.CMP[op]} {tb})", "bool", ok
        if tya == "nat" and tyb == "nat":
            fn = {"+": "wadd", "-": "wsub", "*": "wmul"}.get(op)
            if fn:
                return f"({fn} {ta} {tb})", "nat", ok
            if op in ("/", "%"):
                nz = None if re.match(r"^[1-9]\d*$", tb) else f"decide ({tb} ≠ 0)"
                return f"({ta} {op} {tb})", "nat", conj(ok, nz)
            if op in ("&", "|", "^"):
                return f"({ta} {dict(zip('&|^', ('&&&', '|||', '^^^')))[op]} {tb})", "nat", ok
            if op in ("<<", ">>"):
                # a shift count of 64 or more is undefined
                small = None if (re.match(r"^\d+$", tb) and int(tb) < 64) else f"decide ({tb} < 64)"
                return (f"(wshl {ta} {tb})" if op == "<<" else f"({ta} >>> {tb})"), "nat", conj(ok, small)
        if tya == "int" and tyb == "int" and op in ("+", "-", "*"):
            r = f"({ta} {op} {tb})"
            return r, "int", conj(ok, f"intOk {r}")
        if tya == "ptr" and tyb == "nat" and op == "+":
            reg = self.memvar(env)
            chk = f"paddOk {ta} {tb} (List.length {reg})" if reg else f"decide ({ta} ≠ none)"
            return f"(padd {ta} {tb})", "ptr", conj(ok, chk)
        if tya == "ptr" and tyb == "ptr" and op == "-":
            return f"(pdiff {ta} {tb})", "nat", conj(ok, f"pdiffOk {ta} {tb}")
        raise TErr(f"`{op}` on operands of kind {tya} and {tyb}")

    def key(self, e):
        return repr(e)

    def cond(self, e, env):
        """-> (lean Bool text, ok)"""
        if self.key(e) in self.nn:
            return self.nn[self.key(e)], None
        if e[0] == "id" and e[1] + "_nn" in env:
            return lean_ident(e[1] + "_nn"), None
        t, ty, ok = self.E(e, env)
        if ty == "bool":
            return t, ok
        if ty in ("nat", "lit", "ulit", "int", "stat"):
            return f"decide ({t} ≠ 0)", ok
        if ty == "ptr" or (isinstance(ty, tuple) and ty[0] == "fn"):
            return f"decide ({t} ≠ none)", ok
        if ty in (("cmp",), ("cb1",)):
            return f"{t}.isSome", ok
        raise TErr("truth value of this expression (a struct or array pointer whose NULL-ness is not tracked)")

    def coerce(self, e, env, ty):
        t, got, ok = self.E(e, env, ty)
        if got == "ulit":
            got = "lit" if ty in ("nat", "bool") else "ulit"
        if got == "lit" and ty in ("nat", "stat"):
            got = ty
        if got == "nat" and ty == "stat" and e[0] == "id" and e[1] in self.consts:
            got = "stat"
        if got == "lit" and ty == "bool":
            return f"decide ({t} ≠ 0)", ok
        if got == "nat" and ty == "float":
            return f"(Float32.ofNat {t})", ok
        if got != ty:
            raise TErr(f"a value of kind {self.show(got)} where {self.show(ty)} is expected "
                       f"(implicit conversions are not translated; write the cast)")
        return t, ok

    @staticmethod
    def show(t):
        return t if isinstance(t, str) else "/".join(str(x) for x in t)

    def call_text(self, s, args, env, outs_to=None):
        """-> (lean application text, ok of the arguments)"""
        if len(args) != len(s.params):
            raise TErr(f"`{s.name}` called with {len(args)} arguments")
        out, ok = [s.lean], None
        for (pn, pt), a in zip(s.params, args):
            if isinstance(pt, tuple) and pt[0] == "sp":
                if a[0] == "arrow" and a[1][0] == "id":
                    # the object a pointer field of a variable points to (`stack->v`)
                    t, ty, o = self.E(a, env)
                    if ty != pt:
                        raise TErr(f"argument `{pn}` of `{s.name}` is not a {pt[1]}")
                    ok = conj(conj(ok, o), self.live(a, env))
                    out.append(t)
                    continue
                v = a[2] if a[0] == "un" and a[1] == "&" else a
                if v[0] != "id" or v[1] not in env:
                    raise TErr(f"argument `{pn}` of `{s.name}` is not a variable")
                vt = env[v[1]]
                good = (vt == pt and a[0] == "id") or (vt == ("sv", pt[1]) and a[0] == "un")
                if not good:
                    raise TErr(f"argument `{pn}` of `{s.name}` is not a {pt[1]}")
                if a[0] == "id" and a[1] + "_nn" in env:
                    ok = conj(ok, lean_ident(a[1] + "_nn"))
                ok = conj(ok, self.live(v, env))
                out.append(lean_ident(v[1]))
            elif pt == "arr":
                t, ty, o = self.E(a, env)
                if ty != "arr" or not (a[0] == "id" or (a[0] == "arrow" and a[1][0] == "id")):
                    raise TErr(f"argument `{pn}` of `{s.name}` is not an array variable or field")
                if a[0] == "id" and a[1] + "_nn" in env:
                    o = conj(o, lean_ident(a[1] + "_nn"))
                ok = conj(conj(ok, o), self.live(a, env))
                out.append(t)
            elif isinstance(pt, tuple) and pt[0] == "out":
                if outs_to is not None and a[0] == "un" and a[1] == "&" and a[2][0] == "id" and env.get(a[2][1]) == pt[1]:
                    outs_to[pn] = ("local", a[2][1])       # `&x` of a local: written only when the callee stores
                elif outs_to is None or a[0] != "id" or env.get(a[1]) != pt:
                    raise TErr(f"out-argument `{pn}` of `{s.name}` is neither the caller's own out-parameter nor `&local`")
                else:
                    outs_to[pn] = a[1]
            else:
                t, o = self.coerce(a, env, pt)
                ok = conj(ok, o)
                out.append(self.atom(t))
        for n, ty in s.extras:
            if (n, ty) not in self.extras:
                self.extras.append((n, ty))
            out.append(n)
        for n in s.out_nn:
            a = dict(zip([pn for pn, _ in s.params], args))[n]
            if a[0] != "id" or a[1] + "_nn" not in env:
                raise TErr(f"`{s.name}` tests its out-parameter `{n}` for NULL; the argument is not an out-parameter of the caller")
            out.append(lean_ident(a[1] + "_nn"))
        if s.mem:
            out.append(MEM)
        if s.nid:
            out.append(NID)
        if s.fuel:
            out.append(FUEL)
        return " ".join(out), ok

    @staticmethod
    def atom(t):
        return t if re.match(r"^[\w.]+$", t) or (t.startswith("(") and t.endswith(")")) else f"({t})"

    # -- statements --
    def chk(self, ok):
        if ok is None:
            return []
        self.fault_used = True
        return [f"let {FAULT} := {FAULT} || !{self.atom(ok)}"] if self.sig.faults else []

    def result(self, retval, env):
        comps = []
        if self.sig.ret != "void":
            comps.append(retval)
        for n, _ in self.sig.outs:
            # `*out = obj` stores a pointer: what the caller sees is the object as it is when the function returns
            comps.append(f"(some {lean_ident(self.alias[n])})" if n in self.alias else lean_ident(n))
        for n in self.sig.mut:
            comps.append(lean_ident(n))
        if self.sig.mem:
            comps.append(MEM)
        if self.sig.nid:
            comps.append(NID)
        if self.sig.frees:
            comps.append(DEAD)
        if self.sig.faults:
            comps.append(FAULT)
        if not comps:
            return "()"
        return comps[0] if len(comps) == 1 else "(" + ", ".join(comps) + ")"

    def fall(self, k, env):
        if k[0] == "fn":
            if self.sig.ret != "void":
                raise TErr("control reaches the end of a non-void function")
            return self.result(None, env)
        if k[0] == "text":
            return k[1]
        vs = [lean_ident(v) for v in k[1]]
        return vs[0] if len(vs) == 1 else "(" + ", ".join(vs) + ")"

    def store(self, lhs, val_of, env, whole_array=False):
        """lines that perform `lhs = <value>`; val_of(type) gives (lean text, ok) of the value;
        whole_array: the contents of an array are replaced (memcpy/memmove), not the pointer"""
        if lhs[0] == "id":
            if lhs[1] not in env:
                raise TErr(f"assignment to unknown `{lhs[1]}`")
            t = env[lhs[1]]
            if t == "arr" and whole_array:
                v, ok = val_of(t)
                return self.chk(ok) + [f"let {lean_ident(lhs[1])} : List Nat := {v}"]
            if isinstance(t, tuple) or t in ("mem", "flag", "arr", "fuelt"):
                raise TErr(f"assignment to the pointer / object `{lhs[1]}` itself")
            v, ok = val_of(t)
            return self.chk(ok) + [f"let {lean_ident(lhs[1])} := {v}"]
        if lhs[0] == "arrow":
            if lhs[1][0] != "id":
                raise TErr("assignment to a field of something that is not a variable")
            b, bt, ok0 = self.E(lhs[1], env)
            if not (isinstance(bt, tuple) and bt[0] in ("sp", "sv")):
                raise TErr("assignment to a field of something that is not a translated struct")
            fs = self.fields_of(bt)
            if lhs[2] not in fs:
                raise TErr(f"assignment to `{lhs[2]}`")
            if lhs[1][1] + "_nn" in env:
                ok0 = conj(ok0, lean_ident(lhs[1][1] + "_nn"))
            ok0 = conj(ok0, self.live(lhs[1], env))
            v, ok = val_of(fs[lhs[2]])
            return self.chk(conj(ok0, ok)) + [f"let {b} : {lean_ty(bt)} := {{ {b} with {lean_ident(lhs[2])} := {v} }}"]
        if lhs[0] == "index" and lhs[1][0] == "id" and env.get(lhs[1][1]) == "arr":
            d = lean_ident(lhs[1][1])
            i, ok1 = self.index(lhs[2], env, d)
            if lhs[1][1] + "_nn" in env:
                ok1 = conj(ok1, lean_ident(lhs[1][1] + "_nn"))
            ok1 = conj(ok1, self.live(lhs[1], env))
            v, ok = val_of("nat")
            return self.chk(conj(ok1, ok)) + [f"let {d} : List Nat := Buf.put {d} {i} {self.atom(v)}"]
        if lhs[0] == "index":
            a = lhs[1]
            if a[0] != "arrow" or a[1][0] != "id":
                raise TErr("array write to something that is not an array field of a variable")
            arr, at, ok0 = self.E(a, env)
            bt = env[a[1][1]]
            if at != "arr":
                raise TErr("array write to something that is not an array field")
            b, f = lean_ident(a[1][1]), lean_ident(a[2])
            i, ok1 = self.index(lhs[2], env, arr)
            ok1 = conj(ok1, self.live(a, env))
            v, ok = val_of("nat")
            return self.chk(conj(ok0, conj(ok1, ok))) + [f"let {b} : {lean_ty(bt)} := {{ {b} with {f} := Buf.put {b}.{f} {i} {self.atom(v)} }}"]
        if lhs[0] == "un" and lhs[1] == "*" and lhs[2][0] == "id":
            t = env.get(lhs[2][1])
            if isinstance(t, tuple) and t[0] == "out":
                v, ok = val_of(t[1])
                if lhs[2][1] + "_nn" in env:
                    ok = conj(ok, lean_ident(lhs[2][1] + "_nn"))
                return self.chk(ok) + [f"let {lean_ident(lhs[2][1])} := some {self.atom(v)}"]
        raise TErr("assignment to something that is not a variable, a field, an array slot or `*out`")

    def is_alias_store(self, e):
        """`*out = obj` with `out` an out-parameter of object-pointer type"""
        if e[0] == "assign" and e[1] == "=" and e[2][0] == "un" and e[2][1] == "*" and e[2][2][0] == "id":
            return any(n == e[2][2][1] and isinstance(t, tuple) and t[0] == "sp" for n, t in self.sig.outs)
        return False

    def has_alias_store(self, s):
        found = [False]

        def visit(x):
            if self.is_alias_store(x):
                found[0] = True
        walk_exprs(s, visit)
        return found[0]

    def contains_effect(self, e):
        found = [False]

        def visit(x):
            if self.sibling_effect(x) or x[0] in ("assign", "pre", "post", "callp"):
                found[0] = True
        walk_exprs(e, visit)
        return found[0]

    def sibling_effect(self, e):
        s = self.sigs.get(e[1]) if e[0] == "call" else None
        return isinstance(s, Sig) and bool(s.mut or s.outs or s.mem or s.fuel)

    def do_call(self, e, env, bind):
        """lines for a call of a sibling that modifies / allocates; bind = lvalue for the return value or None"""
        s = self.sigs[e[1]]
        outs_to = {}
        text, ok = self.call_text(s, e[2], env, outs_to)
        comps = s.components()
        r = self.fresh(env)
        lines = self.chk(ok) + [f"let {r} := {text}"]
        n = len(comps)
        argof = {pn: a for (pn, pt), a in zip(s.params, e[2])}
        for i, (kind, _) in enumerate(comps):
            p = proj(r, i, n)
            if kind == "ret":
                if bind is not None:
                    lines += self.store(bind, lambda ty, p=p: (self.expect(s.ret, ty, p), None), env)
            elif kind.startswith("out:"):
                tgt = outs_to[kind[4:]]
                if isinstance(tgt, tuple):
                    if tgt[1] + "_nn" in env:      # a local object pointer: non-NULL once the callee stored one
                        lines.append(f"let {lean_ident(tgt[1])}_nn := {lean_ident(tgt[1])}_nn || ({p}).isSome")
                    lines.append(f"let {lean_ident(tgt[1])} := ({p}).getD {lean_ident(tgt[1])}")
                else:
                    lines.append(f"let {lean_ident(tgt)} := {p}")
            elif kind.startswith("state:"):
                a = argof[kind[6:]]
                if a[0] == "arrow":
                    lines += self.store(a, lambda ty, p=p: (p, None), env)
                else:
                    v = a[2] if a[0] == "un" else a
                    lines.append(f"let {lean_ident(v[1])} := {p}")
            elif kind == "mem":
                lines.append(f"let {MEM} := {p}")
            elif kind == "nid":
                lines.append(f"let {NID} := {p}")
            elif kind == "dead":
                lines.append(f"let {DEAD} := {p} ++ {DEAD}")
                self.maydead = True
            elif kind == "fault":
                self.fault_used = True
                if self.sig.faults:
                    lines.append(f"let {FAULT} := {FAULT} || {p}")
        return lines

    def expect(self, got, want, text):
        if got != want:
            raise TErr(f"a value of kind {self.show(got)} where {self.show(want)} is expected")
        return text

    # allocator calls through a function pointer field
    def fnptr(self, e, env):
        """e = callp: -> (role, lean Option Triple text, ok, args)"""
        f, ft, ok = self.E(e[1], env)
        if not (isinstance(ft, tuple) and ft[0] == "fn"):
            raise TErr("call through something that is not an allocator function pointer")
        return ft[1], f, conj(ok, f"decide ({f} ≠ none)"), e[2]

    def alloc_lines(self, e, env):
        """e = callp of an alloc/calloc pointer: -> (lines, success flag var, role, args)"""
        role, f, ok, args = self.fnptr(e, env)
        if role not in ("alloc", "calloc"):
            raise TErr("value of a call to the release function")
        a = self.fresh(env, "a")
        lines = self.chk(ok) + [f"let {a} := Mem.allocT {MEM} ({f}.getD Triple.conf)", f"let {MEM} := {a}.2"]
        return lines, f"{a}.1", role, args

    def bump(self, flag):
        """the block just obtained has the id `nid`; the supply advances when the allocation succeeded"""
        return [f"let {NID} := if {flag} then {NID} + 1 else {NID}"]

    def set_id(self, lhs, idtext, env):
        """lines that record the block id of the array `lhs` now denotes"""
        if lhs[0] == "id":
            return [f"let {lean_ident(lhs[1])}_id := {idtext}"]
        if lhs[0] == "arrow" and lhs[1][0] == "id":
            b, bt, _ = self.E(lhs[1], env)
            return [f"let {b} : {lean_ty(bt)} := {{ {b} with {lean_ident(lhs[2])}_id := {idtext} }}"]
        raise TErr("an array pointer is stored in something that is neither a variable nor a field of a variable")

    def alloc_into(self, lhs, lty, e, env, declare=None):
        """lines for `lhs = p->mem_calloc(..)` / a declaration initialised with it"""
        lines, flag, role, args = self.alloc_lines(e, env)
        if isinstance(lty, tuple) and lty[0] == "sp":
            # a fresh object of a translated struct
            tdn = [n for n, tg in self.cfg["tdefs"].items() if tg == lty[1]] + ["struct " + lty[1]]
            if role != "calloc" or len(args) != 2 or const_int(args[0]) != 1 or args[1][0] != "sizeof" \
                    or " ".join(args[1][1][0]) not in tdn or args[1][1][1] != 0:
                raise TErr(f"an object of struct {lty[1]} must come from `mem_calloc(1, sizeof(<that struct>))`")
            if declare is None:
                raise TErr("re-assignment of an object pointer")
            if not self.structs[lty[1]].get("has_id"):
                raise TErr(f"allocation of a struct {lty[1]} (only the container struct of a file is allocated)")
            return lines + [f"let {lean_ident(declare)} : {lean_ty(lty)} := {{ {zero_of(lty)} with id_ := {NID} }}",
                            f"let {lean_ident(declare)}_nn := {flag}"] + self.bump(flag)
        if lty == "arr":
            elem = (("void",), 1) if self.cfg["tdefs"].get("__elem__") else (("uint64_t",), 0)
            if role == "calloc" and len(args) == 2 and args[1] == ("sizeof", elem):
                n, ok = self.coerce(args[0], env, "nat")
                ln = self.atom(n)
            elif role == "alloc" and len(args) == 1 and args[0][0] == "bin" and args[0][1] == "*" and args[0][3] == ("sizeof", elem):
                # `mem_alloc(n * sizeof(elem))`: the byte size is a size_t product (it may wrap); the block
                # holds as many elements as fit.  Its contents are unspecified in C; like the models the
                # translation takes them to be 0 (a read before the first write is not detected).
                n, ok = self.coerce(args[0][2], env, "nat")
                ln = f"((wmul {self.atom(n)} 8) / 8)"
            else:
                raise TErr("an array must come from `mem_calloc(n, sizeof(elem))` or `mem_alloc(n * sizeof(elem))`")
            val = f"(if {flag} then Buf.mk {ln} else [])"
            if declare is not None:
                return lines + self.chk(ok) + [f"let {lean_ident(declare)} : List Nat := {val}",
                                               f"let {lean_ident(declare)}_nn := {flag}",
                                               f"let {lean_ident(declare)}_id := {NID}"] + self.bump(flag)
            out = lines + self.chk(ok) + self.store(lhs, lambda ty: (val, None), env) + self.set_id(lhs, NID, env) + self.bump(flag)
            self.nn[self.key(lhs)] = flag
            return out
        raise TErr("the result of an allocator call is stored in something that is neither an object nor an array")

    def slot_ref(self, e, env):
        """an argument of memcpy/memmove: `arr`, `&arr[i]` -> (array lvalue, lean array text, lean offset text, ok)"""
        off, base = None, e
        if e[0] == "un" and e[1] == "&" and e[2][0] == "index":
            base, off = e[2][1], e[2][2]
        ok_base = (base[0] == "id") or (base[0] == "arrow" and base[1][0] == "id")
        if not ok_base:
            raise TErr("memcpy/memmove on something that is not an array variable or an array field of a variable")
        t, ty, ok = self.E(base, env)
        if ty != "arr":
            raise TErr("memcpy/memmove on something that is not an array")
        if base[0] == "id" and base[1] + "_nn" in env:
            ok = conj(ok, lean_ident(base[1] + "_nn"))
        if self.key(base) in self.nn:
            ok = conj(ok, self.nn[self.key(base)])
        ok = conj(ok, self.live(base, env))
        if off is None:
            return base, t, "0", ok
        o, ot, ok2 = self.E(off, env, "nat")
        if ot not in ("nat", "lit"):
            raise TErr("array offset is not an unsigned integer")
        return base, t, self.atom(o), conj(ok, ok2)

    def effect(self, e, env):
        """lines for an expression statement"""
        k = e[0]
        if k == "assign":
            op, lhs, rhs = e[1], e[2], e[3]
            if op != "=":
                rhs = ("bin", op[:-1], lhs, rhs)
            if self.sibling_effect(rhs):
                return self.do_call(rhs, env, lhs)
            if rhs[0] == "callp":
                return self.alloc_into(lhs, self.ltype(lhs, env), rhs, env)
            # array pointer copies carry their NULL-ness
            if rhs[0] == "id" and rhs[1] + "_nn" in env and env.get(rhs[1]) == "arr":
                self.nn[self.key(lhs)] = lean_ident(rhs[1] + "_nn")
            lines = self.store(lhs, lambda ty: self.coerce(rhs, env, ty), env)
            if self.is_alias_store(e):
                if rhs[0] != "id":
                    raise TErr("`*out = <expression>` for an object pointer")
                self.alias[lhs[2][1]] = rhs[1]
            if self.ltype(lhs, env) == "arr":
                rid = self.id_of(rhs, env)
                if rid is None:
                    raise TErr("an array pointer of unknown block identity is stored")
                lines += self.set_id(lhs, rid, env)
            return lines
        if k in ("pre", "post"):
            lhs = e[2]
            one = ("bin", "+" if e[1] == "++" else "-", lhs, ("num", 1))
            return self.store(lhs, lambda ty: self.coerce(one, env, ty), env)
        if k == "callp":
            role, f, ok, args = self.fnptr(e, env)
            if role != "free":
                raise TErr("result of an allocation is discarded")
            if len(args) != 1:
                raise TErr("release function called with other than 1 argument")
            a = args[0]
            if a[0] == "id":
                at, oka = env.get(a[1]), None
            else:
                _, at, oka = self.E(a, env)
            if not (at == "arr" or (isinstance(at, tuple) and at[0] == "sp")):
                raise TErr("release of something that is not an object or an array of the container")
            bid = self.id_of(a, env)
            if bid is None:
                raise TErr("release of a block of unknown identity")
            nn = None
            if a[0] == "id" and a[1] + "_nn" in env:
                nn = lean_ident(a[1] + "_nn")      # releasing a possibly-NULL pointer is reported
            elif self.key(a) in self.nn:
                nn = self.nn[self.key(a)]
            # the block must not have been released before (double free / wrong block)
            ok = conj(conj(ok, oka), conj(nn, f"!(isDead {DEAD} {bid})" if self.maydead else None))
            self.maydead = True
            return self.chk(ok) + [f"let {DEAD} := {bid} :: {DEAD}", f"let {MEM} := Mem.freeT {MEM} ({f}.getD Triple.conf)"]
        if k == "call":
            if e[1] == "memset":
                reg = self.memvar(env)
                if not reg:
                    raise TErr("memset in a container without a byte region")
                if len(e[2]) != 3:
                    raise TErr("memset with other than 3 arguments")
                p, ok1 = self.coerce(e[2][0], env, "ptr")
                v, ok2 = self.coerce(e[2][1], env, "nat")
                n, ok3 = self.coerce(e[2][2], env, "nat")
                b = reg.split(".")[0]
                ok = conj(conj(ok1, conj(ok2, ok3)), f"memsetOk {reg} {self.atom(p)} {self.atom(n)}")
                return self.chk(ok) + [f"let {b} : {lean_ident(self.cfg['struct'])} := {{ {b} with {self.cfg['memory']} := memsetBytes {reg} {self.atom(p)} {self.atom(v)} {self.atom(n)} }}"]
            if e[1] in ("memcpy", "memmove"):
                a = e[2]
                if len(a) != 3:
                    raise TErr(f"{e[1]} with other than 3 arguments")
                dl, dtext, doff, okd = self.slot_ref(a[0], env)
                _, stext, soff, oks = self.slot_ref(a[1], env)
                nb, okn = self.coerce(a[2], env, "nat")
                cnt = f"({nb} / 8)"          # a byte count; the slots are 8 bytes wide (LP64)
                ok = conj(conj(okd, oks), conj(okn,
                          f"(decide ({nb} % 8 = 0) && decide ({doff} + {cnt} ≤ List.length {dtext}) && decide ({soff} + {cnt} ≤ List.length {stext}))"))
                if dtext == stext and e[1] == "memmove":
                    val = f"Buf.memmove {dtext} {doff} {soff} {cnt}"
                elif dtext == stext:
                    # memcpy inside one block: the ranges must not overlap (undefined otherwise)
                    ok = conj(ok, f"(decide ({doff} + {cnt} ≤ {soff}) || decide ({soff} + {cnt} ≤ {doff}))")
                    val = f"Buf.memmove {dtext} {doff} {soff} {cnt}"
                else:
                    # different blocks (a memmove between different blocks is a memcpy)
                    val = f"Buf.memcpy {dtext} {doff} {stext} {soff} {cnt}"
                return self.chk(ok) + self.store(dl, lambda ty: (val, None), env, whole_array=True)
            if self.sibling_effect(e):
                return self.do_call(e, env, None)
            _, _, ok = self.E(e, env)       # a pure call: type-check it, keep its checks
            return self.chk(ok)
        _, _, ok = self.E(e, env)
        return self.chk(ok)

    def ltype(self, lhs, env):
        if lhs[0] == "id":
            return env.get(lhs[1])
        if lhs[0] == "arrow":
            _, bt, _ = self.E(lhs[1], env)
            if isinstance(bt, tuple) and bt[0] in ("sp", "sv"):
                return self.fields_of(bt).get(lhs[2])
        return None

    def assigned(self, s, env, acc):
        def visit(x):
            if x[0] == "assign" or x[0] in ("pre", "post"):
                acc.add(root_var(x[2]))
            elif x[0] == "call":
                if x[1] in ("memcpy", "memmove") and x[2]:
                    try:
                        acc.add(root_var(x[2][0]))
                    except TErr:
                        pass
                if x[1] == "memset":
                    reg = self.memvar(env)
                    if reg:
                        acc.add(next(v for v in env if lean_ident(v) == reg.split(".")[0]))
                elif self.sibling_effect(x):
                    sg = self.sigs[x[1]]
                    for (pn, pt), a in zip(sg.params, x[2]):
                        v = a[2] if a[0] == "un" and a[1] == "&" else a
                        if v[0] == "id" and (pn in sg.mut or (isinstance(pt, tuple) and pt[0] == "out")):
                            acc.add(v[1])
        walk_exprs(s, visit)
        return acc

    def seq(self, stmts, env, k, ind):
        """lean lines (already indented) for a statement list followed by the continuation k"""
        pad = "  " * ind
        if not stmts:
            return [pad + self.fall(k, env)]
        s, rest = stmts[0], stmts[1:]
        kind = s[0]
        if kind == "block":
            # flattened: a block-local declaration stays visible, shadowing an outer name is refused below
            return self.seq(list(s[1]) + rest, env, k, ind)
        if kind == "decl":
            t = mk_type(s[1], self.cfg["tdefs"], f"declaration of {s[2]}", "local")
            if t == "void" or (isinstance(t, tuple) and t[0] not in ("sp", "sv")):
                raise TErr(f"local `{s[2]}` of this type")
            if s[2] in env or s[2] + "_nn" in env or s[2] in (FAULT, MEM):
                raise TErr(f"`{s[2]}` is declared twice (or clashes with a name the translation uses)")
            env = dict(env)
            env[s[2]] = t
            x, init = lean_ident(s[2]), s[3]
            if isinstance(t, tuple) and t[0] == "sv":
                if init is not None:
                    raise TErr("struct value with an initialiser")
                ex = (f"{self.sig.name}_{s[2]}_uninit", lean_ty(t))
                if ex not in self.extras:
                    self.extras.append(ex)
                lines = [f"let {x} : {lean_ty(t)} := {ex[0]}"]
            elif isinstance(t, tuple) and t[0] == "sp":
                if init is not None and init[0] == "callp":
                    lines = self.alloc_into(None, t, init, env, declare=s[2])
                    env[s[2] + "_nn"] = "flag"
                elif init is not None and init[0] == "cast" and mk_type(init[1], self.cfg["tdefs"], "cast", "param") == t:
                    # placement: the object lives in caller-provided memory with arbitrary contents
                    p, ok = self.coerce(init[2], env, "ptr")
                    ex = (f"{self.sig.name}_{s[2]}_uninit", lean_ty(t))
                    if ex not in self.extras:
                        self.extras.append(ex)
                    lines = self.chk(ok) + [f"let {x} : {lean_ty(t)} := {ex[0]}", f"let {x}_nn := decide ({p} ≠ none)"]
                    env[s[2] + "_nn"] = "flag"
                elif init is None:
                    # an object pointer that an out-argument of a call fills in later (`f(.., &p)`)
                    lines = [f"let {x} : {lean_ty(t)} := {zero_of(t)}", f"let {x}_nn := false"]
                    env[s[2] + "_nn"] = "flag"
                else:
                    raise TErr(f"object pointer `{s[2]}` is not initialised by an allocation or a placement cast")
            elif t == "arr":
                if init is not None and init[0] == "callp":
                    lines = self.alloc_into(None, t, init, env, declare=s[2])
                    env[s[2] + "_nn"] = "flag"
                    env[s[2] + "_id"] = "idt"
                else:
                    raise TErr(f"array pointer `{s[2]}` is not initialised by an allocation")
            elif init is None and first_use(rest, s[2]) != "R":
                # uninitialised, but assigned before it is read on every path: the initial value is never seen
                lines = [f"let {x} : {lean_ty(t)} := {zero_of(t)}"]
            elif init is None:
                # an uninitialised local that may be read: its value is arbitrary, i.e. a parameter of the translation
                ex = (f"{self.sig.name}_{s[2]}_uninit", lean_ty(t))
                if ex not in self.extras:
                    self.extras.append(ex)
                lines = [f"let {x} : {lean_ty(t)} := {ex[0]}"]
            elif self.sibling_effect(init):
                lines = [f"let {x} : {lean_ty(t)} := {zero_of(t)}"] + self.do_call(init, env, ("id", s[2]))
            else:
                v, ok = self.coerce(init, env, t)
                lines = self.chk(ok) + [f"let {x} : {lean_ty(t)} := {v}"]
            return [pad + l for l in lines] + self.seq(rest, env, k, ind)
        if kind == "expr":
            return [pad + l for l in self.effect(s[1], env)] + self.seq(rest, env, k, ind)
        if kind == "while":
            return self.loop(s, rest, env, k, ind)
        if kind == "kcall":
            return [pad + s[1]]
        if kind in ("break", "continue"):
            if k[0] != "text":
                raise TErr(f"`{kind}` outside a loop")
            return [pad + (k[2] if kind == "break" else k[1])]
        if kind == "ret" and k[0] == "text":
            if len(k) < 4 or RET not in k[3]:
                raise TErr("internal: `return` inside a loop without a return slot")
            if s[1] is None:
                v, ok = "()", None
            elif self.sig.ret == "void":
                raise TErr("`return <value>;` in a void function")
            elif self.sibling_effect(s[1]):
                raise TErr("`return <call that modifies>` inside a loop")
            else:
                v, ok = self.coerce(s[1], env, self.sig.ret)
            vals = [f"some {self.atom(v)}" if x == RET else lean_ident(x) for x in k[3]]
            return [pad + l for l in self.chk(ok)] + [pad + (vals[0] if len(vals) == 1 else "(" + ", ".join(vals) + ")")]
        if kind == "ret":
            if k[0] != "fn":
                raise TErr("internal: return inside a joined branch")
            if s[1] is None:
                if self.sig.ret != "void":
                    raise TErr("`return;` in a non-void function")
                return [pad + self.result(None, env)]
            if self.sig.ret == "void":
                raise TErr("`return <value>;` in a void function")
            if self.sibling_effect(s[1]):
                r = self.fresh(env, "v")
                env2 = dict(env)
                env2[r] = self.sig.ret
                pre = [f"let {r} : {lean_ty(self.sig.ret)} := {zero_of(self.sig.ret)}"] + self.do_call(s[1], env2, ("id", r))
                return [pad + l for l in pre] + [pad + self.result(r, env2)]
            v, ok = self.coerce(s[1], env, self.sig.ret)
            return [pad + l for l in self.chk(ok)] + [pad + self.result(v, env)]
        if kind == "if":
            c, s1, s2 = s[1], s[2], s[3]
            if c[0] == "assign":
                return self.seq([("expr", c), ("if", c[2], s1, s2)] + rest, env, k, ind)
            if c[0] == "un" and c[1] == "!" and c[2][0] == "assign":
                return self.seq([("expr", c[2]), ("if", ("un", "!", c[2][2]), s1, s2)] + rest, env, k, ind)
            if c[0] == "bin" and c[1] in gg.CMP and c[2][0] == "assign":
                return self.seq([("expr", c[2]), ("if", ("bin", c[1], c[2][2], c[3]), s1, s2)] + rest, env, k, ind)
            if c[0] == "bin" and c[1] == "&&" and s2 is None and self.contains_effect(c[3]) and not self.contains_effect(c[2]):
                # `if (A && f(x) != OK) S` with a call that has effects: C evaluates it only when A holds
                return self.seq([("if", c[2], ("if", c[3], s1, None), None)] + rest, env, k, ind)
            if c[0] == "bin" and c[1] in gg.CMP and self.sibling_effect(c[2]):
                rt = self.sigs[c[2][1]].ret
                tyw = {"stat": (("enum cc_stat",), 0), "nat": (("size_t",), 0), "bool": (("bool",), 0), "int": (("int",), 0)}.get(rt)
                if tyw is None:
                    raise TErr("comparison with the result of a call that has effects")
                tmp = self.fresh(env, "t")
                return self.seq([("decl", tyw, tmp, c[2]), ("if", ("bin", c[1], ("id", tmp), c[3]), s1, s2)] + rest, env, k, ind)
            ctext, cok = self.cond(c, env)
            head = [pad + l for l in self.chk(cok)]
            if has_jump(s1) or has_jump(s2):
                if k[0] != "text":
                    raise TErr("`break` / `continue` outside a loop")
                nn0 = dict(self.nn)
                a = self.seq([s1] + rest, dict(env), k, ind + 1)
                self.nn = dict(nn0)
                b = self.seq(([s2] if s2 else []) + rest, dict(env), k, ind + 1)
                self.nn = nn0
                return head + [pad + f"if {ctext} then"] + a + [pad + "else"] + b
            if has_return(s1) or has_return(s2) or (k[0] == "fn" and (self.has_alias_store(s1) or (s2 and self.has_alias_store(s2)))):
                if k[0] not in ("fn", "text"):
                    raise TErr("internal: return inside a joined branch")
                nn0, al0, md0 = dict(self.nn), dict(self.alias), self.maydead
                rest = self.share_continuation(s1, s2, rest, env, k)
                a = self.seq([s1] + rest, dict(env), k, ind + 1)
                mda = self.maydead
                self.nn, self.alias, self.maydead = dict(nn0), dict(al0), md0
                b = self.seq(([s2] if s2 else []) + rest, dict(env), k, ind + 1)
                self.nn, self.alias, self.maydead = nn0, al0, (mda or self.maydead)
                return head + [pad + f"if {ctext} then"] + a + [pad + "else"] + b
            acc = set()
            self.assigned(s1, env, acc)
            if s2:
                self.assigned(s2, env, acc)
            unknown = sorted(acc - set(env) - self.local_decls(s1) - (self.local_decls(s2) if s2 else set()))
            if unknown:
                raise TErr(f"assignment to unknown `{unknown[0]}`")
            vs = [v for v in env if v in acc]
            # the ledger and the fault flag are joined when a branch touches them
            trial = self.seq([s1], dict(env), ("vars", ["_"]), 0) + (self.seq([s2], dict(env), ("vars", ["_"]), 0) if s2 else [])
            for pseudo in (MEM, NID, DEAD, FAULT):
                if pseudo in env and any(re.match(rf"\s*let {pseudo} :=", l) for l in trial):
                    vs.append(pseudo)
            if not vs:
                return head + self.seq(rest, env, k, ind)
            kk = ("vars", vs)
            a = self.seq([s1], dict(env), kk, ind + 2)
            b = self.seq([s2] if s2 else [], dict(env), kk, ind + 2)
            jty = " × ".join(atomty(lean_ty(env[v])) for v in vs)
            if len(vs) == 1:
                top = [pad + f"let {lean_ident(vs[0])} : {jty} :="]
                tail = []
            else:
                j = self.fresh(env, "j")
                top = [pad + f"let {j} : {jty} :="]
                tail = [pad + f"let {lean_ident(v)} := {proj(j, i, len(vs))}" for i, v in enumerate(vs)]
            return (head + top + [pad + "  " + f"if {ctext} then"] + a + [pad + "  else"] + b + tail
                    + self.seq(rest, env, k, ind))
        raise TErr(f"statement form `{kind}`")

    def share_continuation(self, s1, s2, rest, env, k):
        """`rest` follows an `if` with a `return` inside of which both branches may also fall through: instead
        of translating `rest` twice it becomes the definition `<f>_k<n>`, called from both branches"""
        if (k[0] != "fn" or not rest or self.sig.recursive or always_returns(s1) or (s2 is not None and always_returns(s2))
                or (len(rest) == 1 and rest[0][0] in ("kcall", "ret"))):
            return rest
        # the branches must not change what is known about NULL-ness / aliases
        nn0, al0, aux0, nl0, ex0 = dict(self.nn), dict(self.alias), list(self.aux), self.nloops, list(self.extras)
        fu0, md0, lc0 = self.fault_used, self.maydead, dict(getattr(self, "loopcache", {}))
        md = md0
        try:
            for br in (s1, s2):
                if br is not None:
                    self.maydead = md0
                    self.seq([br, ("kcall", "_")], dict(env), k, 0)
                    md = md or self.maydead
                    if self.nn != nn0 or self.alias != al0:
                        return rest
                    self.nn, self.alias = dict(nn0), dict(al0)
        finally:
            self.nn, self.alias, self.aux, self.nloops, self.extras = dict(nn0), dict(al0), aux0, nl0, ex0
            self.fault_used, self.maydead, self.loopcache = fu0, md0, lc0
        self.maydead = md       # the shared part is reached with what either branch may have released
        self.nconts = getattr(self, "nconts", 0) + 1
        name = f"{self.sig.lean}_k{self.nconts}"
        body = self.seq(rest, dict(env), k, 1)
        words = set(re.findall(r"[A-Za-z_][\w']*", " ".join(body)))
        vs = [v for v in env if lean_ident(v) in words]
        exs = [(n, ty) for n, ty in self.extras if n in words]
        comps = self.sig.components()
        rty = " × ".join(t for _, t in comps) if comps else "Unit"
        d = [f"/-- the part of `{self.sig.name}` behind its {'first second third fourth fifth'.split()[min(self.nconts, 5) - 1]} "
             f"`if` that may either return or fall through (shared by both branches) -/",
             f"def {name}" + "".join(f" ({lean_ident(v)} : {lean_ty(env[v])})" for v in vs)
             + "".join(f" ({n} : {ty})" for n, ty in exs) + f" : {rty} :="] + body
        self.aux.append(d)
        self.maydead = md0
        return [("kcall", " ".join([name] + [lean_ident(v) for v in vs] + [n for n, _ in exs]))]

    def loop(self, s, rest, env, k, ind):
        """`while (c) body` as a fuel-bounded recursive definition over the variables the body assigns"""
        pad = "  " * ind
        c, body = s[1], s[2]
        if FUEL not in env:
            raise TErr("internal: loop in a function without fuel")
        acc = set()
        self.assigned(body, env, acc)
        unknown = sorted(acc - set(env) - self.local_decls(body))
        if unknown:
            raise TErr(f"assignment to unknown `{unknown[0]}`")
        vs = [v for v in env if v in acc]
        if MEM in env or DEAD in env:
            trial = self.seq([body], dict(env), ("text", "_", "_", vs + [RET]), 0)
            for pseudo in (MEM, NID, DEAD):
                if pseudo in env and any(re.match(rf"\s*let {pseudo} :=", l) for l in trial):
                    vs.append(pseudo)
        early = has_return(body)
        pre_lines = []
        if early:
            if k[0] != "fn":
                raise TErr("a loop with a `return` nested in another loop or in a joined branch")
            env = dict(env)
            env[RET] = ("opt", self.sig.ret)
            pre_lines = [pad + f"let {RET} : {lean_ty(env[RET])} := none"]
            vs.append(RET)
        if FAULT in env:
            vs.append(FAULT)        # running out of fuel is reported as a fault
        self.fault_used = True
        if not vs:
            raise TErr("a loop that assigns nothing")
        tys = [atomty(lean_ty(env[v])) for v in vs]
        rty = " × ".join(tys)
        tup = lambda xs: xs[0] if len(xs) == 1 else "(" + ", ".join(xs) + ")"
        names = [lean_ident(v) for v in vs]
        ctext, cok = self.cond(c, env)
        # the read-only variables the loop mentions become parameters of its definition
        probe = " ".join(self.seq([body], dict(env), ("text", "_", "__exit__", vs), 0) + [ctext, cok or ""])
        words = set(re.findall(r"[A-Za-z_][\w']*", probe))
        ro = [v for v in env if v not in vs and v != FUEL and lean_ident(v) in words]
        exs = [(n, ty) for n, ty in self.extras if n in words]
        key = (tuple(ro), tuple(vs), probe)
        if key in getattr(self, "loopcache", {}):
            name = self.loopcache[key]
            call = " ".join([name] + [lean_ident(v) for v in ro] + [n for n, _ in exs] + [FUEL] + names)
            j = self.fresh(env, "j")
            out = pre_lines + [pad + f"let {j} : {rty} := {call}"]
            out += [pad + f"let {n} := {proj(j, i, len(vs))}" for i, n in enumerate(names)]
            return out + self.after_loop(early, rest, env, k, ind)
        self.nloops += 1
        name = f"{self.sig.lean}_loop{self.nloops}"
        self.loopcache = dict(getattr(self, "loopcache", {}))
        self.loopcache[key] = name
        call = " ".join([name] + [lean_ident(v) for v in ro] + [n for n, _ in exs] + [FUEL] + names)
        inner = self.seq([body], dict(env), ("text", call, tup(names), vs), 3)
        exhausted = tup([("true" if v == FAULT else lean_ident(v)) for v in vs])
        d = [f"/-- the {'first second third fourth fifth'.split()[min(self.nloops, 5) - 1]} loop of `{self.sig.name}`: `{FUEL}` bounds the number of iterations, running out of it is a fault -/",
             f"def {name}" + "".join(f" ({lean_ident(v)} : {lean_ty(env[v])})" for v in ro)
             + "".join(f" ({n} : {ty})" for n, ty in exs) + f" : Nat → " + " → ".join(tys) + f" → {rty}",
             f"  | 0, " + ", ".join(names) + f" => {exhausted}",
             f"  | {FUEL} + 1, " + ", ".join(names) + " =>"]
        d += ["    " + l for l in self.chk(cok)]
        d += [f"    if {ctext} then"] + inner + ["    else", "      " + tup(names)]
        self.aux.append(d)
        j = self.fresh(env, "j")
        out = pre_lines + [pad + f"let {j} : {rty} := {call}"]
        out += [pad + f"let {n} := {proj(j, i, len(vs))}" for i, n in enumerate(names)]
        return out + self.after_loop(early, rest, env, k, ind)

    def after_loop(self, early, rest, env, k, ind):
        pad = "  " * ind
        if not early:
            return self.seq(rest, env, k, ind)
        rv = None if self.sig.ret == "void" else f"({RET}.getD {zero_of(self.sig.ret)})"
        return ([pad + f"if {RET}.isSome then", pad + "  " + self.result(rv, env), pad + "else"]
                + self.seq(rest, env, k, ind + 1))

    @staticmethod
    def local_decls(s):
        out = set()

        def go(x):
            if x is None:
                return
            if x[0] == "decl":
                out.add(x[2])
            elif x[0] == "block":
                for y in x[1]:
                    go(y)
            elif x[0] == "if":
                go(x[2])
                go(x[3])
        go(s)
        return out


# ---- per file --------------------------------------------------------------------------------------------

def resolve_ifdefs(repo, f, txt):
    """`#ifdef X` / `#ifndef X` / `#else` / `#endif` (not nested): keeps the branch the compiler takes with the
    preprocessor configuration of the harness (`gcc -E -dM` on the file says whether X is defined)"""
    if not re.search(r"^[ \t]*#[ \t]*if(n?)def\b", txt, re.M):
        return txt
    import gen_constants
    out, state = [], None          # state: None outside, else [keep_now, seen_else, keep_if]
    for line in txt.split("\n"):
        m = re.match(r"^[ \t]*#[ \t]*(ifdef|ifndef|else|endif)\b[ \t]*(\w*)", line)
        if m:
            d, name = m.group(1), m.group(2)
            if d in ("ifdef", "ifndef"):
                if state is not None:
                    raise TErr("nested conditional compilation")
                defined = gen_constants.macro_text(str(repo), f, name) is not None
                keep = defined if d == "ifdef" else not defined
                state = [keep, False, keep]
            elif d == "else":
                if state is None or state[1]:
                    raise TErr("`#else` without `#ifdef`")
                state = [not state[2], True, state[2]]
            else:
                if state is None:
                    raise TErr("`#endif` without `#ifdef`")
                state = None
            out.append("")
            continue
        out.append(line if (state is None or state[0]) else "")
    if state is not None:
        raise TErr("unterminated `#ifdef`")
    return "\n".join(out)


def file_macros(txt):
    """`#define`s of the file: {name: (params or None, body tokens)}; other directives than #include are refused"""
    txt = re.sub(r"\\\n", " ", txt)
    macros = {}
    for m in re.finditer(r"^[ \t]*#[ \t]*(\w+)(.*)$", txt, re.M):
        d, restl = m.group(1), m.group(2)
        if d == "include":
            continue
        if d != "define":
            raise TErr(f"preprocessor directive `#{d}` inside a translated file")
        mm = re.match(r"^[ \t]+(\w+)(\([^)]*\))?(.*)$", restl)
        if not mm:
            raise TErr(f"`#define{restl[:30]}`")
        params = None
        if mm.group(2) is not None:
            params = [x.strip() for x in mm.group(2)[1:-1].split(",") if x.strip()]
        macros[mm.group(1)] = (params, tokenize(mm.group(3)))
    return macros


def expand(toks, macros, hide=frozenset()):
    """textual macro expansion, as the preprocessor does it (no parentheses are added)"""
    out, i = [], 0
    while i < len(toks):
        t = toks[i]
        if t in macros and t not in hide:
            params, body = macros[t]
            if params is None:
                out += expand(body, macros, hide | {t})
                i += 1
                continue
            if i + 1 < len(toks) and toks[i + 1] == "(":
                depth, j, args, cur = 0, i + 1, [], []
                while j < len(toks):
                    x = toks[j]
                    if x == "(":
                        depth += 1
                        if depth > 1:
                            cur.append(x)
                    elif x == ")":
                        depth -= 1
                        if depth == 0:
                            break
                        cur.append(x)
                    elif x == "," and depth == 1:
                        args.append(cur)
                        cur = []
                    else:
                        cur.append(x)
                    j += 1
                if depth != 0:
                    raise TErr(f"unbalanced arguments of macro {t}")
                if cur or args:
                    args.append(cur)
                if len(args) != len(params):
                    raise TErr(f"macro {t} used with {len(args)} arguments")
                amap = {pn: expand(a, macros, hide) for pn, a in zip(params, args)}
                sub = []
                for b in body:
                    sub += amap[b] if b in amap else [b]
                out += expand(sub, macros, hide | {t})
                i = j + 1
                continue
        out.append(t)
        i += 1
    return out


def struct_text(repo, txt, tag):
    """the text that defines `struct tag {`: the .c file, else a header of src/include"""
    if re.search(r"\bstruct\s+" + re.escape(tag) + r"\s*\{", txt):
        return txt
    inc = Path(repo, "src", "include")
    if inc.is_dir():
        for p in sorted(inc.rglob("*.h")):
            t = gg.strip_comments(p.read_text(errors="replace"))
            if re.search(r"\bstruct\s+" + re.escape(tag) + r"\s*\{", t):
                return t
    return txt


def parse_struct(txt, tag, cfg, tdefs, main):
    """all fields of `struct tag { ... };` -> ordered {name: type}"""
    m = re.search(r"\bstruct\s+" + re.escape(tag) + r"\s*\{", txt)
    if not m:
        raise TErr(f"struct {tag} not found")
    ob = m.end() - 1
    cb = gg.match_close(txt, ob, "{", "}")
    fields = {}
    for decl in txt[ob + 1:cb].split(";"):
        decl = " ".join(decl.split())
        if not decl:
            continue
        fp = re.match(r"^(void\s*\*?)\s*\(\s*\*\s*(\w+)\s*\)\s*\((.*)\)$", decl)
        if fp:
            ret, name, ps = fp.group(1).replace(" ", ""), fp.group(2), [p for p in fp.group(3).split(",") if p.strip()]
            if ret == "void*" and len(ps) == 1 and "size_t" in ps[0]:
                fields[name] = ("fn", "alloc")
            elif ret == "void*" and len(ps) == 2 and all("size_t" in p for p in ps):
                fields[name] = ("fn", "calloc")
            elif ret == "void" and len(ps) == 1 and "*" in ps[0]:
                fields[name] = ("fn", "free")
            else:
                raise TErr(f"function pointer field `{name}` is not one of the allocator triple")
            continue
        cp = re.match(r"^int\s*\(\s*\*\s*(\w+)\s*\)\s*\(\s*const\s+void\s*\*\s*\w*\s*,\s*const\s+void\s*\*\s*\w*\s*\)$", decl)
        if cp:
            fields[cp.group(1)] = ("cmp",)
            continue
        if "(" in decl:
            raise TErr(f"field declaration `{decl}`")
        mm = re.match(r"^((?:const\s+)?(?:enum\s+\w+|struct\s+\w+|\w+)(?:\s+\w+)*?)\s*((?:\**\s*\w+\s*,\s*)*\**\s*\w+)$", decl)
        if not mm:
            raise TErr(f"field declaration `{decl}`")
        words = tuple(w for w in mm.group(1).split() if w != "const")
        for d in mm.group(2).split(","):
            d = d.strip()
            stars = d.count("*")
            name = d.replace("*", "").strip()
            t = mk_type((words, stars), tdefs, f"field {name}", "field")
            if main and name in cfg["arrays"]:
                if t != "arr":
                    raise TErr(f"array field `{name}` is not a `uint64_t *`")
            elif t == "arr":
                raise TErr(f"field `{name}`: a pointer to uint64_t that is not declared an array of the container")
            elif isinstance(t, tuple) and t[0] == "sp" and t[1] in REG["structs"]:
                pass        # a pointer to an object of an already translated struct: the object is embedded
            elif t not in ("nat", "ptr", "int", "bool", "float"):
                raise TErr(f"field `{name}` of this type")
            if name in fields:
                raise TErr(f"field `{name}` is declared twice")
            fields[name] = t
    if main:
        for a in cfg["arrays"]:
            if a not in fields:
                raise TErr(f"array field `{a}` not found in struct {tag}")
        if cfg["memory"] and cfg["memory"] in fields:
            raise TErr(f"struct {tag} has a field called `{cfg['memory']}`")
    return fields


def typedefs_of(repo, tags):
    """{typedef name: tag} from src/include"""
    out = {}
    inc = Path(repo, "src", "include")
    if inc.is_dir():
        for p in sorted(inc.rglob("*.h")):
            try:
                t = gg.strip_comments(p.read_text(errors="replace"))
            except OSError:
                continue
            for tag, name in re.findall(r"\btypedef\s+struct\s+(\w+)\s+(\w+)\s*;", t):
                if tags is None or tag in tags:
                    out[name] = tag
            for m in re.finditer(r"\btypedef\s+struct\s+(\w+)\s*\{", t):
                cb = gg.match_close(t, m.end() - 1, "{", "}")
                mm = re.match(r"\s*(\w+)\s*;", t[cb + 1:])
                if mm and (tags is None or m.group(1) in tags):
                    out[mm.group(1)] = m.group(1)
        # aliases: `typedef CC_ArrayConf CC_StackConf;`
        changed = True
        while changed:
            changed = False
            for p in sorted(inc.rglob("*.h")):
                t = gg.strip_comments(p.read_text(errors="replace"))
                for a, b in re.findall(r"\btypedef\s+(\w+)\s+(\w+)\s*;", t):
                    if a in out and b not in out:
                        out[b] = out[a]
                        changed = True
    return out


def return_type_text(txt, fname):
    for m in re.finditer(r"\b" + re.escape(fname) + r"\s*\(", txt):
        op = m.end() - 1
        cp = gg.match_close(txt, op, "(", ")")
        rest = txt[cp + 1:].lstrip()
        if rest.startswith("{"):
            before = txt[:m.start()]
            cut = max(before.rfind(";"), before.rfind("}"), before.rfind(")"))
            seg = "\n".join(l for l in before[cut + 1:].split("\n") if not l.strip().startswith("#"))
            return " ".join(seg.split())
    raise TErr(f"definition of {fname} not found")


def split_type(text):
    stars = text.count("*")
    words = [w for w in text.replace("*", " ").split()
             if w not in ("const", "static", "inline", "extern", "INLINE", "FORCE_INLINE")]
    out, i = [], 0
    while i < len(words):
        if words[i] in ("enum", "struct") and i + 1 < len(words):
            out.append(words[i] + " " + words[i + 1])
            i += 2
        else:
            out.append(words[i])
            i += 1
    return tuple(out), stars


def record_lines(tag, fields, cfg, main, f):
    rec = lean_ident(tag)
    ghost = cfg["memory"] if main and cfg["memory"] else None
    lines = [f"/-- `struct {tag}` (`{f}`)" + (f"; `{ghost}` is the memory the byte pointers point into, indexed by address (ghost)" if ghost else "") + " -/",
             f"structure {rec} where"]
    for n, t in fields.items():
        lines.append(f"  {lean_ident(n)} : {lean_ty(t)}")
    if ghost:
        lines.append(f"  {ghost} : List Nat")
    if main:
        lines.append("  /-- ghost: the id of the allocator block the struct lives in -/")
        lines.append("  id_ : Nat := 0")
    for n, t in fields.items():
        if t == "arr":
            lines.append(f"  /-- ghost: the id of the allocator block `{n}` points to -/")
            lines.append(f"  {lean_ident(n)}_id : Nat := 0")
    inits = [f"{lean_ident(n)} := {zero_of(t)}" for n, t in fields.items()] + ([f"{ghost} := []"] if ghost else [])
    lines.append(f"/-- a `struct {tag}` fresh from `calloc`: every field zero / NULL -/")
    lines.append(f"def {rec}.zero : {rec} := {{ " + ", ".join(inits) + " }")
    return lines


def range_of(t, x):
    if t == "nat":
        return f"{x} < 2 ^ 64"
    if t == "int":
        return f"-2 ^ 31 ≤ {x} ∧ {x} < 2 ^ 31"
    return None


def one_file(repo, cfg, consts):
    """-> (lean lines, problems)"""
    lines, problems = [], []
    f, tag = cfg["file"], cfg["struct"]
    structs = None
    try:
        p = Path(repo, f)
        if not p.exists():
            raise TErr(f"{f} does not exist")
        txt = resolve_ifdefs(repo, f, gg.strip_comments(p.read_text(errors="replace")))
        macros = file_macros(txt)
        alltd = typedefs_of(repo, None)
        # the structs the file works with: its own, and those whose typedef name it mentions
        tags = [tag] + [t for t in re.findall(r"\bstruct\s+(\w+)\s*\{", txt) if t != tag]
        tags += [tg for n, tg in sorted(alltd.items()) if tg not in tags and re.search(r"\b" + re.escape(n) + r"\b", txt)]
        tdefs = {n: tg for n, tg in alltd.items() if tg in tags}
        if tag not in tdefs.values():
            raise TErr(f"no `typedef struct {tag} X;` in src/include")
        if cfg.get("elem"):
            tdefs["__elem__"] = True
        cfg = dict(cfg, tdefs=tdefs)

        def stext(tg):
            t = struct_text(repo, txt, tg)
            m = re.search(r"\bstruct\s+" + re.escape(tg) + r"\s*\{", t)
            if m and macros:
                cb = gg.match_close(t, m.end() - 1, "{", "}")
                body = t[m.end():cb]
                if any(re.search(r"\b" + re.escape(k) + r"\b", body) for k in macros):
                    body = " ".join(expand(tokenize(body), macros))
                    t = t[:m.end()] + body + t[cb:]
            return t
        structs = {tag: dict(fields=parse_struct(stext(tag), tag, cfg, tdefs, True), has_id=True)}
    except TErr as ex:
        problems.append(f"gen_funcs: struct {tag} ({f}): {ex}")
    except Exception as ex:
        problems.append(f"gen_funcs: struct {tag} ({f}): internal error {type(ex).__name__}: {ex}")
    if structs is None:
        lines.append(f"/-- NOT TRANSLATED — {problems[-1].replace('-/', '- /')} -/")
        lines.append(f"structure {lean_ident(tag)} where\n  untranslated : Unit := ()")
        for fn in cfg["funcs"]:
            problems.append(f"gen_funcs: {fn} ({f}): struct {tag} was not translated")
            lines += [f"/-- NOT TRANSLATED -/", f"def {fn} : Unit := ()"]
        return lines, problems
    # the other structs of the file (configuration records) are translated when they can be
    for t in tags[1:]:
        if t in REG["structs"]:
            structs[t] = dict(REG["structs"][t], external=True)
            continue
        if t in tdefs.values():
            try:
                structs[t] = dict(fields=parse_struct(stext(t), t, cfg, tdefs, False))
            except TErr:
                for n in [n for n, tg in tdefs.items() if tg == t]:
                    del tdefs[n]
    for t in list(tdefs):
        if not t.startswith("__") and tdefs[t] not in structs:
            del tdefs[t]
    for t, d in structs.items():
        if not d.get("external"):
            lines += record_lines(t, d["fields"], cfg, t == tag, f)

    # pass 1: parse the table's functions and, transitively, the file-local helpers they call
    sigs, order = dict(REG["sigs"]), []

    def parse_fn(fn):
        ptxt, body = gg.find_function(txt, fn)
        ret = mk_type(split_type(return_type_text(txt, fn)), tdefs, "return type", "ret")
        if isinstance(ret, tuple) or ret == "arr":
            raise TErr("return type")
        params = []
        for part in gg.split_top(ptxt, ","):
            part = " ".join(part.split())
            if part in ("", "void"):
                continue
            cpm = re.match(r"^int\s*\(\s*\*\s*(\w+)\s*\)\s*\(\s*const\s+void\s*\*\s*\w*\s*,\s*const\s+void\s*\*\s*\w*\s*\)$", part)
            if cpm:
                params.append((cpm.group(1), ("cmp",)))
                continue
            cbm = re.match(r"^void\s*\*\s*\(\s*\*\s*(\w+)\s*\)\s*\(\s*void\s*\*\s*\w*\s*\)$", part)
            if cbm:
                params.append((cbm.group(1), ("cb1",)))
                continue
            mm = re.match(r"^(.*?)(\w+)$", part)
            if not mm or not mm.group(1).strip() or "(" in part:
                raise TErr(f"parameter `{part}`")
            params.append((mm.group(2), mk_type(split_type(mm.group(1)), tdefs, f"parameter {mm.group(2)}", "param")))
        if any(re.search(r"\b" + re.escape(k) + r"\b", ptxt) for k in macros):
            raise TErr("a macro of the file is used in the parameter list")
        ps = Parser(expand(tokenize(body), macros), [t for t in tdefs if not t.startswith("__")])
        items = ps.block_items()
        if ps.peek() is not None:
            raise TErr(f"unexpected `{ps.peek()}`")
        # a `T **x` parameter that is indexed or handed to memcpy/memmove is an array, not an out-parameter
        used_as_array = set()

        def visit(x):
            if x[0] == "index" and x[1][0] == "id":
                used_as_array.add(x[1][1])
            if x[0] == "call" and x[1] in ("memcpy", "memmove"):
                for a in x[2][:2]:
                    if a[0] == "id":
                        used_as_array.add(a[1])
        for st in items:
            walk_exprs(st, visit)
        params = [(n, "arr" if (t == ("out", "nat") and n in used_as_array) else t) for n, t in params]
        return Sig(fn, ret, params, items)

    work = list(cfg["funcs"])
    while work:
        fn = work.pop(0)
        if fn in sigs:
            continue
        try:
            sg = parse_fn(fn)
            if fn not in cfg["funcs"]:
                sg.helper = True
                sg.lean = lean_ident(f"{tag}__{fn}")
            sigs[fn] = sg
            order.append(fn)

            def visit(x, sg=sg):
                if x[0] == "call":
                    sg.calls.add(x[1])
            for st in sg.body:
                walk_exprs(st, visit)
            for c in sorted(sg.calls):
                if c not in sigs and c != "memset" and c not in work:
                    try:
                        gg.find_function(txt, c)     # defined in this file: a helper
                        work.append(c)
                    except TErr:
                        pass
        except TErr as ex:
            sigs[fn] = str(ex)
        except Exception as ex:
            sigs[fn] = f"internal error {type(ex).__name__}: {ex}"

    # pass 2: which struct parameters a function may modify / whether it allocates (fixpoint over calls)
    def direct(s):
        sp = [n for n, t in s.params if (isinstance(t, tuple) and t[0] == "sp") or t == "arr"]
        mut, mem = set(), [False]

        def visit(x):
            if x[0] in ("assign", "pre", "post"):
                try:
                    r = root_var(x[2])
                    if r in sp and x[2][0] != "id":
                        mut.add(r)
                except TErr:
                    pass
            if x[0] == "call" and x[1] == "memset":
                for n, t in s.params:
                    if t == ("sp", tag):
                        mut.add(n)
            if x[0] == "call" and x[1] in ("memcpy", "memmove") and x[2]:
                try:
                    r = root_var(x[2][0])
                    if r in sp:
                        mut.add(r)
                except TErr:
                    pass
            if x[0] == "callp" and x[1][0] == "arrow":
                roles = {d["fields"][x[1][2]][1] for d in structs.values()
                         if isinstance(d["fields"].get(x[1][2]), tuple) and d["fields"][x[1][2]][0] == "fn"}
                if roles:
                    mem[0] = True
                if roles & {"alloc", "calloc"}:
                    s.nid = True
                if "free" in roles:
                    s.frees = True
        for st in s.body:
            walk_exprs(st, visit)
        return mut, mem[0]

    def nn_tests(s):
        """out-parameters whose NULL-ness the function tests (`if (out)`)"""
        outs = [n for n, _ in s.outs]
        found = []

        def conds(st):
            if st is None:
                return
            if st[0] == "block":
                for y in st[1]:
                    conds(y)
            elif st[0] in ("if", "while"):
                def visit(x):
                    if x[0] == "id" and x[1] in outs and x[1] not in found:
                        found.append(x[1])
                walk_exprs(st[1], visit)
                conds(st[2])
                if st[0] == "if":
                    conds(st[3])
        for st in s.body:
            conds(st)
        return found
    for fn in order:
        s = sigs[fn]
        mut, s.mem = direct(s)
        s.mut = [n for n, _ in s.params if n in mut]
        s.recursive = fn in s.calls
        s.fuel = s.recursive or any(has_loop(st) for st in s.body)
        s.out_nn = nn_tests(s)
    changed = True
    while changed:
        changed = False
        for fn in order:
            s = sigs[fn]

            def visit(x, s=s):
                nonlocal changed
                c = sigs.get(x[1]) if x[0] == "call" else None
                if isinstance(c, Sig):
                    if c.mem and not s.mem:
                        s.mem = changed = True
                    if c.fuel and not s.fuel:
                        s.fuel = changed = True
                    if c.nid and not s.nid:
                        s.nid = changed = True
                    if c.frees and not s.frees:
                        s.frees = changed = True
                    for (pn, pt), a in zip(c.params, x[2]):
                        if pn in c.out_nn and a[0] == "id" and a[1] in [n for n, _ in s.outs] and a[1] not in s.out_nn:
                            s.out_nn = [n for n, _ in s.outs if n in s.out_nn or n == a[1]]
                            changed = True
                    for (pn, pt), a in zip(c.params, x[2]):
                        try:
                            rv = root_var(a)
                        except TErr:
                            continue
                        if pn in c.mut and a[0] in ("id", "arrow") and rv in dict(s.params) and rv not in s.mut \
                                and ((isinstance(dict(s.params)[rv], tuple) and dict(s.params)[rv][0] == "sp")
                                     or dict(s.params)[rv] == "arr"):
                            s.mut = [n for n, _ in s.params if n in s.mut or n == rv]
                            changed = True
            for st in s.body:
                walk_exprs(st, visit)

    # pass 3: emit, callees first
    done, emitted = set(), []

    def emit(fn, stack):
        if fn in done:
            return
        if isinstance(sigs.get(fn), Sig) and sigs[fn].external:
            done.add(fn)
            return
        if fn in stack:
            sigs[fn] = "recursion"
            return
        s = sigs[fn]
        if isinstance(s, Sig):
            for c in sorted(s.calls):
                if c in sigs and c != fn:
                    emit(c, stack + [fn])
        done.add(fn)
        s = sigs[fn]
        text = None
        if isinstance(s, Sig):
            try:
                bad = [c for c in sorted(s.calls) if c in sigs and isinstance(sigs[c], str)]
                if bad:
                    raise TErr(f"calls `{bad[0]}` which was not translated")
                body = None
                for attempt in (True, False):
                    s.faults = attempt
                    em = Emit(s, sigs, cfg, structs, consts)
                    env = {}
                    for n, t in s.params:
                        if n in (FAULT, MEM, NID, DEAD, RET) or n.endswith("_nn") or n.endswith("_id"):
                            raise TErr(f"parameter `{n}` clashes with a name the translation uses")
                        env[n] = t
                    for n in s.out_nn:
                        env[n + "_nn"] = "flag"
                    if s.mem:
                        env[MEM] = "mem"
                    if s.nid:
                        env[NID] = "idt"
                    if s.frees:
                        env[DEAD] = "deadt"
                    if s.fuel:
                        if FUEL in env:
                            raise TErr(f"parameter `{FUEL}` clashes with a name the translation uses")
                        env[FUEL] = "fuelt"
                    if s.faults:
                        env[FAULT] = "flag"
                    body = em.seq(list(s.body), env, ("fn",), 3 if s.recursive else 1)
                    if em.fault_used == s.faults:
                        break
                s.extras = em.extras
                ipad = "      " if s.recursive else "  "
                pre = [f"{ipad}let {lean_ident(n)} : {lean_ty(('out', t))} := none" for n, t in s.outs]
                if s.frees:
                    pre.append(f"{ipad}let {DEAD} : List Nat := []")
                if s.faults:
                    pre.append(f"{ipad}let {FAULT} : Bool := false")
                comps = s.components()
                rty = " × ".join(atomty(t) if " " in t and "×" not in t and not t.startswith("Option") else t for _, t in comps) if comps else "Unit"
                args = "".join(f" ({lean_ident(n)} : {lean_ty(t)})" for n, t in s.params if not (isinstance(t, tuple) and t[0] == "out"))
                args += "".join(f" ({n} : {ty})" for n, ty in s.extras)
                args += "".join(f" ({lean_ident(n)}_nn : Bool)" for n in s.out_nn)
                if s.mem:
                    args += f" ({MEM} : Mem)"
                if s.nid:
                    args += f" ({NID} : Nat)"
                if s.fuel:
                    args += f" ({FUEL} : Nat)"
                if s.recursive:
                    def exh(kd):
                        if kd == "ret":
                            return zero_of(s.ret)
                        if kd.startswith("out:"):
                            return "none"
                        if kd.startswith("state:"):
                            return lean_ident(kd[6:])
                        return {"mem": MEM, "fault": "true", "nid": NID, "dead": "[]"}[kd]
                    ex = [exh(kd) for kd, _ in comps]
                    pre = [f"  match {FUEL} with", f"  | 0 => " + (ex[0] if len(ex) == 1 else "(" + ", ".join(ex) + ")"),
                           f"  | {FUEL} + 1 =>"] + pre
                aux = [l for d in em.aux for l in d]

                def say(kd):
                    if kd == "ret":
                        return "the return value"
                    if kd.startswith("out:"):
                        return f"`*{kd[4:]}`"
                    if kd.startswith("state:"):
                        return f"`*{kd[6:]}`"
                    return {"mem": "the ledger", "fault": "`fault` (undefined behaviour happened)",
                            "nid": "the supply of block ids", "dead": "the ids of the blocks it released"}[kd]
                what = ", ".join(say(kd) for kd, _ in comps) or "nothing"
                note = (f"; `{FUEL}` bounds the recursion depth / the loop iterations, running out of it is a fault" if s.fuel else "")
                if s.helper and not s.fuel:
                    text = aux + [f"/-- file-local helper `{fn}` (`{f}`); `simp` unfolds it, so the agreement proofs see through it; returns {what} -/",
                                  f"@[simp] def {s.lean}{args} : {rty} :="] + pre + body
                elif s.helper:
                    text = aux + [f"/-- file-local helper `{fn}` (`{f}`); returns {what}{note} -/",
                                  f"def {s.lean}{args} : {rty} :="] + pre + body
                else:
                    text = aux + [f"/-- `{fn}` (`{f}`), translated statement by statement; returns {what}{note} -/",
                                  f"def {fn}{args} : {rty} :="] + pre + body
                    rng = [r for r in (range_of(t, lean_ident(n)) for n, t in s.params) if r]
                    sc = "".join(f" ({lean_ident(n)} : {lean_ty(t)})" for n, t in s.params if t in ("nat", "int"))
                    if rng:
                        text += [f"/-- `{fn}`: the declared ranges of its scalar parameters -/",
                                 f"def {fn}_range{sc} : Prop := " + " ∧ ".join(rng)]
            except TErr as ex:
                sigs[fn] = str(ex)
            except Exception as ex:
                sigs[fn] = f"internal error {type(ex).__name__}: {ex}"
        if text is None:
            why = str(sigs[fn]).replace("-/", "- /").replace("\n", " ")
            problems.append(f"gen_funcs: {fn} ({f}): {why}")
            text = [f"/-- NOT TRANSLATED — {why} -/", f"def {lean_ident(tag + '__' + fn) if fn not in cfg['funcs'] else fn} : Unit := ()"]
        emitted.append((fn, text))
    for fn in cfg["funcs"]:
        emit(fn, [])
    for fn, text in emitted:
        lines += text
    for t, d in structs.items():
        if not d.get("external"):
            REG["structs"][t] = dict(fields=d["fields"], has_id=d.get("has_id", False))
    for fn in cfg["funcs"]:
        if isinstance(sigs.get(fn), Sig) and not sigs[fn].external:
            sigs[fn].external = True
            REG["sigs"][fn] = sigs[fn]
    return lines, problems


HEADER = None   # the prelude is the hand-written lean/CollectionsC/Base/GenPrelude.lean


def all_constants(repo, constants_path):
    vals = dict(gg.status_values(repo, constants_path))
    p = Path(constants_path)
    if p.exists():
        for m in re.finditer(r"^def (\w+) : Nat := (\d+)$", p.read_text(), re.M):
            vals[m.group(1)] = int(m.group(2))
    return vals


SUBHEADER = """-- GENERATED by tools/gen_funcs.py from the current /repo sources. Do not edit.
import CollectionsC.Base.GenPrelude
{imports}/-! Translated functions of `{files}` (see tools/gen_funcs.py for the rules and for what is still ignored; the
arithmetic helpers `wadd`, `wsub`, … are those of the hand-written `Base/GenPrelude.lean`). -/
set_option linter.unusedVariables false
namespace CC.GenF
"""


def generate_all(repo, constants_path=None):
    """-> ({module name: text}, problems)"""
    repo = str(repo)
    consts = all_constants(repo, constants_path or "/nonexistent")
    REG["structs"].clear()
    REG["sigs"].clear()
    parts, problems = {}, []
    for cfg in TABLE:
        try:
            l, p = one_file(repo, cfg, consts)
        except Exception as ex:      # never crash the build step
            l = [f"def {fn} : Unit := ()" for fn in cfg["funcs"]]
            p = [f"gen_funcs: {cfg['file']}: internal error {type(ex).__name__}: {ex}"]
        parts.setdefault(cfg["out"], []).append((cfg["file"], l))
        problems += p
    out = {}
    for mod, chunks in parts.items():
        imps = sorted({i for c in TABLE if c["out"] == mod for i in c.get("imports", [])})
        head = SUBHEADER.format(
            files="`, `".join(f for f, _ in chunks),
            imports="".join(f"import CollectionsC.Generated.{i}\n" for i in imps))
        lines = [head.rstrip("\n")]
        for _, l in chunks:
            lines += l
        lines.append("end CC.GenF")
        out[mod] = "\n".join(lines) + "\n"
    return out, problems


def generate(repo, constants_path=None):
    """all generated modules concatenated (kept for callers of the first interface)"""
    out, problems = generate_all(repo, constants_path)
    return "".join(out[m] for m in sorted(out)), problems


def write(repo, path):
    """path = .../Generated/Funcs.lean; the other generated modules are written next to it"""
    path = Path(path)
    try:
        out, problems = generate_all(repo, path.parent / "Constants.lean")
    except Exception as ex:
        return [f"gen_funcs: internal error {type(ex).__name__}: {ex}"]
    for mod, txt in out.items():
        q = path.parent / f"{mod}.lean"
        if not q.exists() or q.read_text() != txt:
            q.write_text(txt)
    # one module per C file: the single module of the first versions is gone
    for stale in path.parent.glob("Funcs*.lean"):
        if stale.stem not in out:
            stale.unlink()
    return problems


if __name__ == "__main__":
    repo = sys.argv[1] if len(sys.argv) > 1 else "/repo"
    out, problems = generate_all(repo, Path(__file__).resolve().parent.parent / "lean" / "CollectionsC" / "Generated" / "Constants.lean")
    for mod in (sys.argv[2:] or out):
        print(out[mod])
    for p in problems:
        print("PROBLEM:", p, file=sys.stderr)
