#!/usr/bin/env python3
"""prints, for every `finding:` line of known_findings.txt, the signature its witnesses produce NOW on /repo
(`kind@line+…` per witness, witnesses joined by `|`) — to be copied BY HAND into the `sig=` field when a finding is
recorded or re-recorded.  Never run by a check; checks only read the file."""
import re, sys
from pathlib import Path
sys.path.insert(0, str(Path(__file__).resolve().parent))
import vlib, checklib, props
ROOT = Path(__file__).resolve().parent.parent
for line in (ROOT / "known_findings.txt").read_text().split("\n"):
    m = re.match(r"finding: property=(\S+) id=(\S+) container=(\S+) witness=(\S+) ", line)
    if not m:
        continue
    sigs = []
    for w in m.group(4).split(","):
        container, ops = vlib.read_replay(ROOT / w)
        r = vlib.Runner(container, props.container_opts(container))
        res = r.run([ops])
        sigs.append("+".join(checklib.witness_signature([d for _, ds in res for d in ds])))
    print(m.group(2), "sig=" + "|".join(sigs))
