#!/usr/bin/env python3
"""usage: mut_round.py <round-tag> <property-id>  -> /tmp/mut/prompt_<tag>_<pid>.txt and worktree /tmp/mut/<tag>_<pid>
The prompt shows a fresh sub-agent ONLY the property text, its scratch worktree and one-line summaries of the ideas
already used for that property (so that rounds do not repeat themselves); nothing from /verif is visible to it."""
import json, subprocess, sys
from pathlib import Path
tag, pid = sys.argv[1], sys.argv[2]
ROOT = Path(__file__).resolve().parent.parent
base = subprocess.run([sys.executable, str(ROOT / "tools" / "mut_prompt.py"), pid], stdout=subprocess.PIPE, text=True).stdout
base = base.replace(f"/tmp/mut/{pid}", f"/tmp/mut/{tag}_{pid}")
used = []
for d in sorted((ROOT / "seeded").glob(f"{pid}-*")):
    try:
        m = json.loads((d / "meta.json").read_text())
    except Exception:
        continue
    used.append(" - " + (str(m.get("title", "")) + ": " + str(m.get("what_it_breaks", "")))[:260].replace("\n", " "))
steer = f"""

This is a LATER round. Ideas already used for this property — do not repeat them or close variants:
{chr(10).join(used)}

For this round aim at what a randomized differential test harness with SMALL values, ONE object, DEFAULT callbacks and SHORT
histories would never exercise. Pick from (or invent in the same spirit):
 * latency: a field or link is left slightly wrong by one function and is only READ by a different, rarely used function much later
   (e.g. after a further resize, by a reverse/descending traversal, by destroy_cb, by a copy, by trim);
 * scale: narrowed locals or counters (int, unsigned, uint16_t, uint8_t) that only matter beyond 255 / 65535 elements or on the 3rd–9th
   resize; thresholds computed once and not refreshed; a batch path used only for large inputs;
 * element values: NULL elements, elements equal to an internal dummy/sentinel value, 64-bit values whose low 32 bits are equal,
   keys that are prefixes of each other, byte keys containing 0 bytes or with odd lengths, equal elements under the comparator that are not identical;
 * callbacks: comparators/hash functions/predicates with state or large-magnitude results, callbacks that are invoked a different NUMBER of
   times or in a different ORDER than before, callbacks receiving a different argument (pointer to slot vs element);
 * two objects: different allocators / comparators / capacities / element sizes on the two sides of add_all, splice, zip, copy, filter;
   the same object on both sides;
 * error paths: the operation AFTER a failed operation (failed allocation, rejected index), a second failure in a row, out-parameters that are NULL,
   status codes swapped between two error cases;
 * API corners: *_cb destructors, foreach/map/reduce/filter variants, contains_value, index_of, to_array, get_keys/get_values, copy_deep,
   zip and descending iterators, remove_all, trim, reverse, sub-range builders with b == e or b == 0 or e == size-1, struct_size helpers,
   conf_init defaults.
The change must still look like a plausible maintenance edit, keep the 16 tests green, and your demo must fail deterministically.
"""
out = Path(f"/tmp/mut/prompt_{tag}_{pid}.txt")
out.parent.mkdir(parents=True, exist_ok=True)
out.write_text(base + steer)
subprocess.run(["sh", str(ROOT / "tools" / "mk_mut_worktree.sh"), f"{tag}_{pid}"], check=False)
print(out)
