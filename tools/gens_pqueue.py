"""History generator for the priority queue (container `pqueue`, property C10).

Protocol:  new cap=N exp=F cmp=num|mod [fail=k] | new_default [cmp=..] | push v [fail=1] | top |
           pop [null=1] | destroy | destroy_cb
cmp=num: numeric order; cmp=mod: order of v % 10 (ties between distinguishable elements); cmp=diff: the
64-bit difference clamped to int.  Values include pairs exactly 2^31, 2^32, 2^63 apart and values near 2^64-1;
`pop null=1` (out == NULL) occurs in every focus.

focus=None: push/top/pop only (C10), all capacities/factors; "growth": push-dominated from small
capacities; "reject": empty pops/tops and invalid capacities; "fault": pushes that grow;
"all": everything, including fail= and destroy_cb and pop with a NULL out pointer.

The "reject" focus probes capacities 0, 2^61-1 (accepted by the checks, refused by the harness
allocator as a request above 2^40 bytes), 2^61, 2^62, 2^63 and SIZE_MAX (rejected: the byte size
capacity * sizeof(void*) would wrap; corpus/pqueue/capacity_byte_overflow.ops).

Sparse observation mode: `obs=sparse` on the constructor line suppresses the content sweep after every
operation (a third of the histories of every focus); `observe` prints it on demand.
"""
import itertools

FACTORS = ["2", "1.5", "1.1", "3", "1", "0.5", "2.5"]


def pick_value(rng, mode):
    r = rng.random()
    if r < 0.05:
        return 0
    if r < 0.45:
        return rng.randint(1, 9)        # duplicates likely
    if r < 0.8:
        return rng.randint(1, 99)
    # pairs that differ by exactly 2^31, 2^32, 2^63 (a comparator truncating a difference to int would
    # order them wrongly or call them equal) and values near 2^64 - 1
    v = rng.randint(1, 9)
    return rng.choice([v + 2**31, v + 2**32, v + 2**63, v + 2**31 + 2**32, 2**64 - 1 - v, 2**64 - 1, 2**63 - v,
                       2**32 - v, 2**31 - v, v])


def sparsify(hist, step):
    """the same history in sparse observation mode: obs=sparse on the constructor, an `observe`
    every `step` operations and one before the destructor"""
    out = [hist[0] + " obs=sparse"]
    body, last = hist[1:], []
    if body and body[-1].split()[0].startswith("destroy"):
        body, last = body[:-1], [hist[-1]]
    for i, op in enumerate(body, 1):
        out.append(op)
        if i % step == 0:
            out.append("observe")
    return out + ["observe"] + last


def mix_sparse(hists, rng=None):
    """roughly a third of the histories in sparse mode"""
    out = []
    for i, h in enumerate(hists):
        if (rng.random() < 1 / 3) if rng is not None else (i % 3 == 1):
            out.append(sparsify(h, rng.randint(5, 15) if rng is not None else 5 + i % 11))
        else:
            out.append(h)
    return out


class PqueueGen:
    name = "pqueue"

    def small_scope(self, tier, focus=None):
        return mix_sparse(self._small_scope(tier, focus))

    def random(self, rng, n, tier, focus=None):
        return mix_sparse(self._random(rng, n, tier, focus), rng)

    def scale(self, rng, tier):
        """few LONG histories: >= 1100 elements pushed in ascending / descending / random order with ties
        and NULL elements, interleaved pops, then a full drain (heaps of 11 levels: a sift-down that is
        cut short after a few levels leaves a non-maximal root).  Sparse observation and checksummed
        buffer (`phys=quiet`), an `observe` every few hundred operations."""
        out = []
        shapes = [("ascending", 1, "1.5", "num"), ("descending", 8, "2", "num"), ("random", 7, "3", "mod"),
                  ("random", 257, "1.01", "diff"), ("mixed", 1024, "2", "num"), ("ascending", 300, "1.5", "mod")]
        if tier != "quick":
            shapes = shapes * 4
        else:
            shapes = shapes[:4] + [rng.choice(shapes[4:])]
        for k, (shape, cap, exp, mode) in enumerate(shapes):
            n = rng.randint(1100, 1400)
            ops = [f"new cap={cap} exp={exp} cmp={mode} obs=sparse phys=quiet"]
            vals = []
            for i in range(n):
                if shape == "ascending":
                    v = 3 * i + rng.randint(0, 2)
                elif shape == "descending":
                    v = 3 * (n - i) + rng.randint(0, 2)
                else:
                    v = pick_value(rng, mode) if rng.random() < 0.3 else rng.randint(0, 5000)
                if rng.random() < 0.01:
                    v = 0                       # NULL element
                vals.append(v)
            held = 0
            for i, v in enumerate(vals):
                ops.append(f"push {v}")
                held += 1
                if shape == "mixed" and rng.random() < 0.25 and held:
                    ops.append("pop null=1" if rng.random() < 0.1 else "pop")
                    held -= 1
                if i % 400 == 399:
                    ops.append("observe")
            ops.append("top")
            ops.append("observe")
            # full drain, and one pop more
            for i in range(held + 1):
                ops.append("pop null=1" if rng.random() < 0.03 else "pop")
                if i % 500 == 250:
                    ops.append("observe")
            ops.append("observe")
            ops.append("destroy")
            out.append(ops)
        return out

    def _small_scope(self, tier, focus=None):
        out = []
        maxlen = 6 if tier == "quick" else 8
        # values chosen so that cmp=mod has ties between distinguishable elements
        vals = [3, 13, 7, 23, 5, 17, 33, 1, 27, 11]
        for cap, exp, cmpm in ((1, "2", "num"), (2, "1.5", "mod"), (3, "1.1", "mod"), (8, "2", "num")):
            for n in range(0, maxlen + 1):
                for seq in itertools.product("PpT" if n <= 4 else "Pp", repeat=n):
                    ops = [f"new cap={cap} exp={exp} cmp={cmpm}"]
                    k = 0
                    for s in seq:
                        if s == "P":
                            ops.append(f"push {vals[k % len(vals)]}")
                            k += 1
                        elif s == "p":
                            ops.append("pop")
                        else:
                            ops.append("top")
                    ops.append("destroy")
                    out.append(ops)
        # every permutation of 5 priorities pushed, then drained
        for perm in itertools.permutations([1, 2, 2, 3, 4] if tier == "quick" else [1, 2, 2, 3, 4, 5]):
            out.append(["new cap=2 exp=2 cmp=num"] + [f"push {v}" for v in perm] + ["pop"] * (len(perm) + 1) + ["destroy"])
        out.append(["new_default", "push 4", "push 9", "top", "pop", "pop", "pop", "destroy"])
        # values 2^31 / 2^32 / 2^63 apart under the three comparators, drained with and without out-pointer
        big = [5, 5 + 2**32, 5 + 2**31, 5 + 2**63, 2**64 - 1, 7, 7 + 2**32, 2**64 - 2]
        for cmpm in ("num", "diff", "mod"):
            out.append([f"new cap=2 exp=2 cmp={cmpm}"] + [f"push {v}" for v in big] +
                       ["top", "pop", "pop null=1", "pop", "pop", "pop null=1", "pop", "pop", "pop", "pop", "destroy"])
        out.append(["new cap=4 exp=2 cmp=num", "push 3", "push 8", "pop null=1", "top", "pop null=1", "pop null=1", "destroy"])
        if focus in ("reject", "all"):
            out.append(["new cap=0 exp=2", "destroy"])
            for cap in (2**61 - 1, 2**61, 2**62, 2**63, 2**64 - 1):
                out.append([f"new cap={cap} exp=2", "push 1", "destroy"])
            out.append(["new cap=4 exp=2", "pop", "top", "pop null=1", "push 1", "pop null=1", "pop", "destroy"])
        if focus in ("fault", "all"):
            out.append(["new cap=1 exp=2 fail=1", "destroy"])
            out.append(["new cap=1 exp=2 fail=2", "destroy"])
            out.append(["new cap=1 exp=2", "push 5", "push 7 fail=1", "push 7", "push 9 fail=1", "top", "pop", "pop", "pop", "destroy_cb"])
        if focus == "all":
            out.append(["new cap=2 exp=1.5 cmp=mod", "push 13", "push 3", "push 27", "push 7", "destroy_cb"])
        return out

    def _random(self, rng, n, tier, focus=None):
        out = []
        for _ in range(n):
            cap = rng.choice([1, 1, 2, 3, 4, 5, 8, 16])
            exp = rng.choice(FACTORS)
            mode = rng.choice(["num", "mod", "diff"])
            if focus == "growth":
                cap = rng.choice([1, 2, 3])
            ops = [f"new cap={cap} exp={exp} cmp={mode}"]
            if focus == "all" and rng.random() < 0.1:
                ops = [f"new_default cmp={mode}"]     # cc_pqueue_new: the C library triple
            if focus == "reject" and rng.random() < 0.1:
                ops = [f"new cap={rng.choice([0, 2**61 - 1, 2**61, 2**62, 2**63, 2**64 - 1])} exp={exp} cmp={mode}"]
            length = rng.randint(1, 70)
            p_push = rng.choice([0.4, 0.55, 0.7, 0.9])
            if focus == "growth":
                p_push = 0.9
            if focus == "reject":
                p_push = 0.35
            pattern = rng.choice(["random", "random", "ascending", "descending", "equal"])
            cur = rng.randint(1, 50)
            for _ in range(length):
                r = rng.random()
                if r < p_push:
                    if pattern == "ascending":
                        cur += rng.randint(0, 3); v = cur
                    elif pattern == "descending":
                        cur = max(cur - rng.randint(0, 3), 0); v = cur
                    elif pattern == "equal":
                        v = cur if mode == "num" else cur + 10 * rng.randint(0, 5)
                    else:
                        v = pick_value(rng, mode)
                    fail = " fail=1" if focus == "all" and rng.random() < 0.15 else ""
                    ops.append(f"push {v}{fail}")
                elif r < p_push + 0.08:
                    ops.append("top")
                else:
                    ops.append("pop null=1" if rng.random() < 0.12 else "pop")   # out == NULL in every focus
                if rng.random() < 0.04:
                    p_push = rng.choice([0.1, 0.5, 0.95])
            if rng.random() < 0.5:
                ops += ["pop"] * rng.randint(1, 12)   # drain
            ops.append("destroy_cb" if focus == "all" and rng.random() < 0.4 else "destroy")
            out.append(ops)
        return out


GEN = PqueueGen()
