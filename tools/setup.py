#!/usr/bin/env python3
"""MANIFEST.setup_cmd: regenerate lean/CollectionsC/Generated/*.lean and the driver targets from /repo's CURRENT
sources (tools/gen_constants.py, gen_guards.py, gen_funcs.py, regen.py) and build the Lean library and the drivers.
Every ./check does the same at its start; this command exists so that a fresh checkout is built from what /repo says
now and never from generated files that were committed earlier."""
import sys
from pathlib import Path
sys.path.insert(0, str(Path(__file__).resolve().parent))
import vlib

ok, out, failed, errs = vlib.build_lean()
print("\n".join(out.strip().split("\n")[-3:]))
for e in errs[:20]:
    print("setup:", e)
if not ok:
    print("setup: lake build FAILED in", ", ".join(failed[:10]) or "?")
sys.exit(0 if ok else 1)
