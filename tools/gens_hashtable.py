"""History generators for the hash table and the hash set (protocol: harness/shim_hashtable.c,
harness/shim_hashset.c).  All randomness comes from the `rng` argument.

Op vocabulary (table):   new cap= lf= hash= [seed=] [klen=] [keys=buf] | new_default | add k v | get k |
  contains_key k | remove k [noout=1] | remove_all | foreach_key | foreach_value |
  mk_keys to=s | mk_values to=s | arr_add v o=s | arr_destroy o=s | it_new | it_next |
  it_remove [noout=1] | destroy_table | observe | destroy   (constructor lines take obs=sparse and
  phys=sum: chains as checksums, in full on `observe`)
Op vocabulary (set):     new … | new_default | add e | contains e | remove e [noout=1] | remove_all |
  foreach | it_new | it_next | it_remove [noout=1] | destroy
Keys/elements are integers, 0 is the NULL key.

focus=None  : the operations C02 names (add-or-replace, get, contains, remove, remove_all,
              key/value enumeration, foreach, iterator next/remove); never `fail=`, never arr_add.
"iter"      : iterator programs dominate;   "reject": absent keys, empty enumerations, END;
"derived"   : mk_keys/mk_values + follow-up ops on both objects (arr_add, destroy_table first);
"growth"    : insert-dominated from tiny capacities;   "fault": ops that allocate (no fail=);
"all"       : everything mixed.
"scale"     : (method `scale`) few long histories: >= 1100 keys, several rehashes, sweeps, obs=sparse phys=sum.
Contract respected by construction: it_next/it_remove only on an iterator that is still valid.  A live
iterator survives get / contains_key always, add unless it rehashes, remove unless it frees the entry
prev_entry / next_entry points to (the shims and drivers decide that identically and answer `noiter`
afterwards); such direct calls are mixed into iterator programs with probability ~0.2 per step.  it_remove before the first it_next and a
repeated it_remove are legal calls (KEY_NOT_FOUND, inert) and are generated.
"""
import itertools

HARNESS_HASHES = ["const", "low", "mul", "id"]
LIB_HASHES = ["lib_str", "lib_gen", "lib_ptr"]
CAPS = [0, 1, 2, 3, 16, 17]
LFS = ["0.25", "0.5", "0.75", "1"]
ODD_LFS = ["0.3", "0.6", "0.9", "0.35"]
KLENS = [1, 2, 3, 5, 6, 7, 9, 13, 15, 16, 17, 23, 31, 32, 33, 4, 8, 8, 13, 16, 17]


def conf_line(rng, tier, growth=False, is_set=False):
    r = rng.random()
    h = rng.choice(HARNESS_HASHES) if r < 0.7 else rng.choice(LIB_HASHES)
    cap = rng.choice([0, 1, 2, 3] if growth else CAPS)
    lf = rng.choice(LFS) if rng.random() < 0.85 else rng.choice(ODD_LFS)
    # real buffer keys (a fresh copy of the bytes on every call in an exact-size block from the real malloc, at a
    # different offset 0..7 each time; comparator = memcmp/strcmp): a quarter of the histories
    buf = rng.random() < 0.25
    if buf:
        h = rng.choice(["lib_gen", "lib_gen", "lib_gen", "lib_str"])
    line = f"new cap={cap} lf={lf} hash={h}"
    klen = 4
    if h == "lib_gen":
        # lengths below / at / above the word and the 16-byte block, multiples and non-multiples of 4 and 16
        klen = rng.choice(KLENS)
        line += f" klen={klen}"
    if buf:
        line += " keys=buf"
    if h.startswith("lib_") and rng.random() < 0.5:
        line += f" seed={rng.choice([1, 7, 12345, 4294967295])}"
    return line, h, klen


BIG = [2**31, 2**32, 2**63]


def key_pool(rng, h, klen):
    """keys from a family that collides in the low hash bits, plus the NULL key; with some
    probability also partners that differ by exactly 2^31, 2^32, 2^63 and keys near 2^64 - 1
    (a comparator or hash that truncates to 32 bits makes them collide or compare equal)"""
    stride = rng.choice([1, 1, 2, 16, 32, 64])
    base = rng.randint(1, 9)
    n = rng.choice([3, 5, 8, 12, 20])
    pool = [base + stride * j for j in range(n)]
    limit = 2 ** (8 * klen) if (h == "lib_gen" and klen < 8) else 2 ** 64
    if rng.random() < 0.4:
        extra = []
        for k in rng.sample(pool, min(3, len(pool))):
            extra += [k + d for d in BIG]
        extra += [2 ** 64 - 1, 2 ** 64 - 2, 2 ** 32 - 1, 2 ** 31 - 1]
        pool += extra
    pool = [k for k in pool if 0 < k < limit] or [1, 2, 3]
    if rng.random() < 0.7:
        pool.append(0)
    return pool


def pick_val(rng):
    r = rng.random()
    if r < 0.05:
        return 0
    if r < 0.2:
        return rng.choice([5, 5 + 2**31, 5 + 2**32, 5 + 2**63, 2**64 - 1, 2**64 - 2])
    return rng.randint(1, 99)


class HashTableGen:
    name = "hashtable"
    is_set = False

    # ---------------------------------------------------------------- op emitters
    def _add(self, k, v):
        return f"add {k}" if self.is_set else f"add {k} {v}"

    def _contains(self, k):
        return f"contains {k}" if self.is_set else f"contains_key {k}"

    def _foreach(self, rng):
        return "foreach" if self.is_set else rng.choice(["foreach_key", "foreach_value"])

    def _tail(self, n_upper):
        """full observation battery at the end of a small-scope history"""
        t = [self._foreach_det(0)]
        if not self.is_set:
            t += [self._foreach_det(1), "mk_keys to=1", "mk_values to=2"]
        t += ["it_new"] + ["it_next"] * (n_upper + 1)
        return t

    def _foreach_det(self, i):
        return "foreach" if self.is_set else ["foreach_key", "foreach_value"][i]

    # ---------------------------------------------------------------- small scope
    def small_scope(self, tier, focus=None):
        out = []
        if tier == "quick":
            confs = [(h, cap, lf) for h in ("const", "id") for cap in (1, 2) for lf in ("0.5", "1")]
            maxlen = 3
        else:
            confs = [(h, cap, lf) for h in ("const", "low", "id", "mul") for cap in (0, 1, 2, 3) for lf in ("0.25", "0.5", "0.75", "1")]
            maxlen = 4   # length 4 only for the first 8 configurations (see below)
        alpha = ["a1", "a2", "a3", "a0", "r1", "r2", "r0", "g1", "g0", "ra"]
        for ci, (h, cap, lf) in enumerate(confs):
            for n in range(0, (maxlen if ci % 8 == 0 or maxlen <= 3 else 3) + 1):
                for seq in itertools.product(alpha, repeat=n):
                    if n and seq[0][0] in "rg" and seq[0] != "r1":
                        continue   # leading no-ops on the empty table: keep one representative
                    ops = [f"new cap={cap} lf={lf} hash={h}"]
                    v = 10
                    for s in seq:
                        k = s[1]
                        if s[0] == "a":
                            v += 1
                            ops.append(self._add(k, v))
                        elif s == "ra":
                            ops.append("remove_all")
                        elif s[0] == "r":
                            ops.append(f"remove {k}")
                        else:
                            ops.append(self._contains(k) if self.is_set else f"get {k}")
                    ops += self._tail(min(n, 4))
                    ops.append("destroy")
                    out.append(ops)
        # iterator-removal patterns over 4 colliding / spread keys
        for h in ("const", "id", "low"):
            for cap in (1, 4):
                for mask in range(16):
                    ops = [f"new cap={cap} lf=1 hash={h}"] + [self._add(k, 20 + k) for k in (1, 2, 3, 0)]
                    ops.append("it_new")
                    for i in range(4):
                        ops.append("it_next")
                        if mask >> i & 1:
                            ops.append("it_remove" + (" noout=1" if (mask + i) % 3 == 0 else ""))
                    ops += ["it_next", "it_next"] + self._tail(4) + ["destroy"]
                    out.append(ops)
                # it_remove before the first next, repeated it_remove, it_remove after END
                ops = [f"new cap={cap} lf=1 hash={h}"] + [self._add(k, 20 + k) for k in (1, 2, 0)]
                ops += ["it_new", "it_remove", "it_next", "it_remove", "it_remove", "it_next", "it_next", "it_next",
                        "it_remove", "it_remove", "it_next"] + self._tail(3) + ["destroy"]
                out.append(ops)
        # a direct get / contains / remove / add between two steps of a live iterator, at every position
        for h in ("const", "id", "low"):
            keys = (1, 2, 3, 0)
            direct = [self._contains(k) if self.is_set else f"get {k}" for k in keys] + [f"remove {k}" for k in keys] + \
                     [self._add(9, 99), self._add(2, 77), self._add(4, 44), self._contains(9)]
            for pos in range(0, 4):
                for d in direct:
                    ops = [f"new cap=8 lf=1 hash={h}"] + [self._add(k, 20 + k) for k in keys]
                    ops += ["it_new"] + ["it_next"] * pos + [d] + ["it_next", "it_remove", "it_next", "it_next", "it_next", "it_next"]
                    ops += self._tail(5) + ["destroy"]
                    out.append(ops)
        out.append(["new_default", self._add(1, 2), self._add(0, 3), self._add(1, 4), "remove 1", "remove 1", "destroy"])
        # real buffer keys: an equal key arrives from a different buffer on every call
        for conf in ["hash=lib_gen klen=%d" % kl for kl in sorted(set(KLENS))] + ["hash=lib_str"]:
            for cap in (1, 16):
                ops = [f"new cap={cap} lf=0.75 {conf} keys=buf"]
                ops += [self._add(5, 50), self._add(5, 51), self._add(300, 52), self._contains(5), self._contains(6)]
                ops += ([] if self.is_set else ["get 5", "get 300", "get 6"])
                ops += ["remove 5 noout=1", "remove 5", self._add(300, 53), self._add(0, 54), "remove 0 noout=1"] + self._tail(3) + ["destroy"]
                out.append([o.replace("300", "200") for o in ops] if "klen=1 " in ops[0] + " " else ops)
        import random as _r
        det = _r.Random(12345)
        out = [sparsify(det, h) if i % 3 == 2 else h for i, h in enumerate(out)]
        if focus in ("derived", "all"):
            for conf_first in (True, False):
                for n1 in (0, 1, 4):
                    for n2 in (1, 3):
                        h = self.recreate_history(det, conf_first, n1, n2, grow=2)
                        out += [h, [h[0] + " obs=sparse"] + h[1:]]
        return out

    def recreate_history(self, rng, conf_first=True, n1=3, n2=3, grow=3, tail=0):
        """a container on one allocator triple is destroyed and one on the other triple is created
        immediately afterwards (no allocation in between, so the allocator may hand out the same
        address), then derived arrays are built from the second one and grown"""
        conf = f"new cap={rng.choice([1, 2, 16])} lf={rng.choice(LFS)} hash={rng.choice(HARNESS_HASHES)}"
        first, second = (conf, "new_default") if conf_first else ("new_default", conf)
        ops = [first] + [self._add(rng.randint(1, 30), rng.randint(1, 99)) for _ in range(n1)]
        ops.append("destroy" if self.is_set else "destroy_table")
        ops.append(second)
        keys = [rng.randint(1, 30) for _ in range(n2)]
        ops += [self._add(k, rng.randint(1, 99)) for k in keys]
        if self.is_set:
            ops += ["foreach", "it_new"] + ["it_next"] * (n2 + 1) + [self._contains(keys[0]), f"remove {keys[0]}"]
        else:
            ops += ["mk_keys to=1", "mk_values to=2"]
            for i in range(grow):
                ops += [f"arr_add {40 + i} o=1", f"arr_add {60 + i} o=2"]
            ops += [f"get {keys[0]}", f"remove {keys[0]}", "mk_keys to=3"]
        for _ in range(tail):
            k = rng.randint(1, 30)
            ops.append(rng.choice([self._add(k, rng.randint(1, 99)), self._contains(k), f"remove {k}"] +
                                  ([] if self.is_set else [f"arr_add {rng.randint(1, 99)} o={rng.choice([1, 2])}", f"get {k}"])))
        ops += ["observe", "destroy"]
        return ops

    def fault_enumeration(self):
        """every allocation of every allocating op refused once.  Uses fail= explicitly, so it is not
        part of any focus stream (the checks add refusals themselves); kept for direct use."""
        out = []
        for k in (1, 2, 3):
            out.append([f"new cap=1 lf=0.5 hash=id fail={k}", "destroy"])
        for h in ("const", "id"):
            for cap, lf in ((1, "0.25"), (1, "1"), (2, "0.5")):
                for nfill in (0, 1, 2, 3):
                    for k in (1, 2, 3, 4):
                        ops = [f"new cap={cap} lf={lf} hash={h}"] + [self._add(i + 1, 30 + i) for i in range(nfill)]
                        ops.append(self._add(9, 99) + f" fail={k}")
                        ops.append(self._add(9, 98))
                        ops.append(self._add(0, 97) + f" fail={k}")
                        if not self.is_set:
                            ops += [f"mk_keys to=1 fail={k}", f"mk_values to=2 fail={k}", "mk_keys to=3"]
                        ops += self._tail(nfill + 2) + ["destroy"]
                        out.append(ops)
        return out

    # ---------------------------------------------------------------- scale
    def scale(self, rng, tier):
        """few LONG histories: >= 1100 keys through several rehashes (capacities 1, 2, 16, 257 -> rounded; load factors
        0.25, 0.75, 1.0), look-ups / removals / re-insertions at the front, the middle and the back of the key range,
        iterator sweeps with removals and direct calls in between, key/value arrays of the big table, remove_all and a
        refill.  obs=sparse + phys=sum: content and full chains every ~50 operations, checksums in between."""
        nh = 3 if tier == "quick" else 24
        out = []
        confs = [("id", 4, False), ("mul", 4, False), ("lib_gen", 8, True), ("lib_str", 4, True), ("lib_gen", 13, True),
                 ("lib_ptr", 4, False), ("lib_gen", 17, False), ("low", 4, False)]
        for i in range(nh):
            h, klen, buf = confs[(i + (rng.randint(0, 4) if tier == "quick" else 0)) % (5 if tier == "quick" else len(confs))]
            cap = rng.choice([1, 2, 16, 257]) if tier == "quick" else [1, 257, 16, 2][i % 4]
            lf = rng.choice(["0.25", "0.75", "1.0"]) if tier == "quick" else ["0.75", "0.25", "1.0", "0.75"][(i + i // 4) % 4]
            n = rng.randint(1100, 1300) if h != "low" else 300
            line = f"new cap={cap} lf={lf} hash={h}" + (f" klen={klen}" if h == "lib_gen" else "") + \
                   (" keys=buf" if buf else "") + (f" seed={rng.choice([1, 7, 12345])}" if h.startswith("lib_") else "") + \
                   " obs=sparse phys=sum"
            stride = rng.choice([1, 3, 16, 64, 4096 + 1])
            base = rng.randint(1, 50)
            keys = [base + stride * j for j in range(n)]
            rng.shuffle(keys)
            ops = [line]
            live = []

            def emit(op):
                ops.append(op)
                if len(ops) % 50 == 0:
                    ops.append("observe")
            for j, k in enumerate(keys):
                emit(self._add(k, pick_val(rng)))
                live.append(k)
                if j % 97 == 0:
                    emit(self._contains(k))
            emit(self._add(0, 5))
            live.append(0)
            ops.append("observe")
            srt = sorted(live)
            # front / middle / back of the key range, hits and misses
            for _ in range(150):
                r = rng.random()
                zone = rng.choice([srt[:20], srt[len(srt) // 3: len(srt) // 3 + 20], srt[-20:], srt])
                k = rng.choice(zone)
                if r < 0.3:
                    emit(self._contains(k) if self.is_set else f"get {k}")
                elif r < 0.4:
                    emit(self._contains(k + stride * n + 7))
                elif r < 0.7:
                    emit(f"remove {k}" + (" noout=1" if rng.random() < 0.2 else ""))
                    if k in live:
                        live.remove(k)
                elif r < 0.9:
                    emit(self._add(k, pick_val(rng)))
                    if k not in live:
                        live.append(k)
                else:
                    emit(self._foreach(rng))
            if not self.is_set:
                ops += ["mk_keys to=1", "mk_values to=2", "observe", "arr_add 7 o=2", "arr_add 8 o=2", "observe",
                        "arr_destroy o=1", "arr_destroy o=2"]
            # iterator sweep with removals and direct calls in between
            emit("it_new")
            p_rm = rng.choice([0.1, 0.3, 0.6])
            for _ in range(len(live) + 2):
                emit("it_next")
                if rng.random() < p_rm:
                    emit("it_remove" + (" noout=1" if rng.random() < 0.2 else ""))
                    if rng.random() < 0.1:
                        emit("it_remove")
                if rng.random() < 0.05:
                    k = rng.choice(srt)
                    emit(rng.choice([self._contains(k), self._contains(k) if self.is_set else f"get {k}", f"remove {k}"]))
            ops.append("observe")
            # second sweep without removals over what is left, then clear and refill across the rehash boundary
            emit("it_new")
            for _ in range(60):
                emit("it_next")
            emit("remove_all")
            for k in keys[:200]:
                emit(self._add(k, pick_val(rng)))
            ops += ["observe", "destroy"]
            out.append(ops)
        if tier != "quick":
            out.append(self.bulk_history(rng))
        return out

    def bulk_history(self, rng, n=60000):
        """thorough tier only: 60000 keys from the default capacity through every rehash up to 131072 buckets
        (`model=off`: too large for the list-based Lean models - they answer `M ?`; the ideal map's answers come from a
        hash map in the driver, the shim's walkers and its content sweep run on `observe`), 200 probes, a full
        iterator sweep, content at the end"""
        h = rng.choice(["mul", "id", "lib_ptr"])
        stride = rng.choice([7, 11, 13])
        base = rng.randint(1, 40)
        keys = [base + stride * j for j in range(n)]
        rng.shuffle(keys)
        ops = [f"new cap=16 lf=0.75 hash={h} obs=sparse phys=sum model=off"]
        for j, k in enumerate(keys):
            ops.append(self._add(k, j % 97 + 1))
        ops.append(self._add(0, 5))
        live = set(keys) | {0}
        for _ in range(200):
            r = rng.random()
            k = rng.choice(keys) if rng.random() < 0.85 else base + stride * n + rng.randint(1, 999)
            if r < 0.4:
                ops.append(self._contains(k) if self.is_set else f"get {k}")
            elif r < 0.7:
                ops.append(self._contains(k))
            else:
                ops.append(f"remove {k}")
                live.discard(k)
        ops.append("it_new")
        ops += ["it_next"] * (len(live) + 2)
        ops += ["observe", "destroy"]
        return ops

    # ---------------------------------------------------------------- random
    def random(self, rng, n, tier, focus=None):
        out = []
        for _ in range(n):
            if focus in ("derived", "all") and rng.random() < 0.12:
                h = self.recreate_history(rng, rng.random() < 0.5, rng.randint(0, 6), rng.randint(1, 6),
                                          grow=rng.randint(1, 4), tail=rng.randint(0, 12))
            else:
                h = self._one(rng, tier, focus)
            if rng.random() < 0.34:
                h = sparsify(rng, h)
            out.append(h)
        return out

    def _weights(self, focus):
        #            add  get  cont rem  rall each mk   iter arr  dtab
        base = dict(add=30, get=12, contains=8, remove=14, remove_all=2, foreach=4, mk=4, iter=5, arr=0, dtab=0)
        if focus == "iter":
            base.update(iter=25, add=25)
        elif focus == "reject":
            base.update(get=22, remove=22, contains=12, mk=8, add=15, remove_all=5)
        elif focus == "derived":
            base.update(mk=16, arr=14, dtab=1)
        elif focus == "growth":
            base.update(add=70, remove=4, remove_all=0)
        elif focus == "fault":
            base.update(add=45, mk=12, remove=10)
        elif focus == "all":
            base.update(mk=8, arr=6, iter=10, dtab=1)
        if self.is_set:
            base.update(mk=0, arr=0, dtab=0)
        return base

    def _one(self, rng, tier, focus):
        line, h, klen = conf_line(rng, tier, growth=(focus == "growth"), is_set=self.is_set)
        if rng.random() < 0.02:
            line, h, klen = "new_default", "lib_str", 4
        pool = key_pool(rng, h, klen)
        if focus == "growth":
            pool = list(range(1, rng.choice([20, 40, 80, 200 if klen != 1 else 80])))
        ops = [line]
        w = self._weights(focus)
        kinds = list(w)
        wl = [w[k] for k in kinds]
        live = set()        # upper bound of the keys in the table
        slots = set()
        slot_kind = {}
        table = True
        length = rng.randint(1, 70 if tier == "quick" else 150)
        absent_bias = 0.6 if focus == "reject" else 0.2
        for _ in range(length):
            kind = rng.choices(kinds, wl)[0]
            if not table and kind not in ("arr",):
                continue

            def some_key():
                if rng.random() < absent_bias or not live:
                    return rng.choice(pool + [97, 98] + ([97 + 2**32] if not (h == "lib_gen" and klen < 8) else []))
                return rng.choice(sorted(live))
            if kind == "add":
                k = rng.choice(pool) if rng.random() < 0.85 else some_key()
                v = pick_val(rng)
                ops.append(self._add(k, v))
                live.add(k)
            elif kind == "get":
                ops.append(self._contains(some_key()) if self.is_set else f"get {some_key()}")
            elif kind == "contains":
                ops.append(self._contains(some_key()))
            elif kind == "remove":
                ops.append(f"remove {some_key()}" + (" noout=1" if rng.random() < 0.15 else ""))
            elif kind == "remove_all":
                ops.append("remove_all")
                live.clear()
            elif kind == "foreach":
                ops.append(self._foreach(rng))
            elif kind == "mk":
                free = [s for s in (1, 2, 3) if s not in slots]
                if not free:
                    s = rng.choice(sorted(slots))
                    ops.append(f"arr_destroy o={s}")
                    slots.discard(s)
                    free = [s]
                s = rng.choice(free)
                mk = rng.choice(["mk_keys", "mk_values"])
                ops.append(mk + f" to={s}")
                slot_kind[s] = mk
                slots.add(s)       # (stays free when the table was empty: the shim reports noslot later)
            elif kind == "arr":
                if slots:
                    s = rng.choice(sorted(slots))
                    if rng.random() < 0.8:
                        # elements of a key array are keys of the table's key kind
                        x = rng.choice(pool) if slot_kind.get(s) == "mk_keys" else pick_val(rng)
                        ops.append(f"arr_add {x} o={s}")
                    else:
                        ops.append(f"arr_destroy o={s}")
                        slots.discard(s)
            elif kind == "iter":
                ops.append("it_new")
                pending = len(live)
                full = rng.random() < 0.7
                steps = pending + rng.choice([1, 1, 2]) if full else rng.randint(0, pending)
                p_remove = rng.choice([0.0, 0.2, 0.5, 1.0])
                if rng.random() < 0.15:
                    ops.append("it_remove")          # before the first next: KEY_NOT_FOUND, inert
                mixed = rng.random() < 0.6
                for _ in range(steps):
                    ops.append("it_next" + (" noout=1" if self.is_set and rng.random() < 0.1 else ""))
                    if mixed and rng.random() < 0.2:
                        # a direct call on the table between two iterator steps
                        r = rng.random()
                        if r < 0.45:
                            ops.append(self._contains(some_key()) if self.is_set or rng.random() < 0.4 else f"get {some_key()}")
                        elif r < 0.75:
                            kk = some_key()
                            ops.append(f"remove {kk}" + (" noout=1" if rng.random() < 0.15 else ""))
                        else:
                            kk = rng.choice(pool)
                            ops.append(self._add(kk, pick_val(rng)))
                            live.add(kk)
                    if rng.random() < p_remove:
                        ops.append("it_remove" + (" noout=1" if rng.random() < 0.2 else ""))
                        if rng.random() < 0.15:
                            ops.append("it_remove")  # repeated: KEY_NOT_FOUND, inert
            elif kind == "dtab":
                if slots and rng.random() < 0.5:
                    ops.append("destroy_table")
                    table = False
        ops.append("destroy")
        return ops


def sparsify(rng, h):
    """obs=sparse session: no content sweep after the operations; `observe` every 5-15 ops and one
    before the final destroy"""
    out = [h[0] + " obs=sparse"]
    gap = rng.randint(5, 15)
    for op in h[1:-1]:
        out.append(op)
        gap -= 1
        if gap == 0:
            out.append("observe")
            gap = rng.randint(5, 15)
    out += ["observe", h[-1]]
    return out


def inject_faults(rng, histories, p=0.15):
    """development helper: add fail=k to allocating ops (the checks add refusals themselves)"""
    out = []
    for h in histories:
        nh = []
        for i, op in enumerate(h):
            name = op.split()[0]
            if name in ("new", "add", "mk_keys", "mk_values", "arr_add") and "fail=" not in op and rng.random() < p:
                ks = sorted(set(rng.randint(1, 4) for _ in range(rng.choice([1, 1, 2]))))
                op = op + " fail=" + ",".join(map(str, ks))
            nh.append(op)
        out.append(nh)
    return out


class HashSetGen(HashTableGen):
    name = "hashset"
    is_set = True


GENS = [HashTableGen(), HashSetGen()]
