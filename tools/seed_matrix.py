#!/usr/bin/env python3
"""Runs seeded changes against checks in parallel and records the outcome in seeded/RESULTS.json.
usage: seed_matrix.py [--jobs 4] [--only C05-1,C07-2] [--props own|C06,C08] [--tier quick]"""
import json, os, subprocess, sys, time
from concurrent.futures import ThreadPoolExecutor
from pathlib import Path
ROOT = Path(__file__).resolve().parent.parent
sys.path.insert(0, str(ROOT / "tools"))
import seeded, props

def main():
    a = sys.argv[1:]
    jobs = int(a[a.index("--jobs") + 1]) if "--jobs" in a else 4
    only = a[a.index("--only") + 1].split(",") if "--only" in a else None
    pr = a[a.index("--props") + 1] if "--props" in a else "own"
    tier = a[a.index("--tier") + 1] if "--tier" in a else "quick"
    SD = seeded.SEEDED
    ids = sorted(p.name for p in SD.iterdir() if (p / "patch.diff").exists())
    if only:
        ids = [i for i in ids if i in only]
    resf = SD / "RESULTS.json"
    results = json.loads(resf.read_text()) if resf.exists() else {}
    def one(sid):
        meta = json.loads((SD / sid / "meta.json").read_text())
        pl = [meta.get("property", sid.split("-")[0])] if pr == "own" else pr.split(",")
        pl = [p for p in pl if p in props.PROPS]
        r = seeded.run(sid, pl, tier)
        return sid, r
    with ThreadPoolExecutor(max_workers=jobs) as ex:
        for sid, r in ex.map(one, ids):
            d = results.setdefault(sid, {})
            for p, v in r.items():
                d[p] = dict(detected=bool(v["violations"]), rc=v["rc"], first=(v["violations"] or [""])[0], note=(v.get("notes") or [""])[0], wall=v["wall"], tier=tier)
            resf.write_text(json.dumps(results, indent=1, sort_keys=True))
    # seed runs regenerate lean/CollectionsC/Generated from their scratch worktree: put /repo's text back
    import vlib
    vlib.build_lean()
    for sid in ids:
        print(sid, {p: ("DETECTED" if v["detected"] else f"missed(rc={v['rc']})") for p, v in results.get(sid, {}).items()})

if __name__ == "__main__":
    main()
