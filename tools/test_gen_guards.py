#!/usr/bin/env python3
"""Self-test of the guard translator (tools/gen_guards.py) and of Properties/C16Guards.lean.

Copies /repo/src to a temporary directory, edits three argument guards there, regenerates
Generated/Guards.lean **into a temporary copy of the Generated directory** (the file in /verif is
not touched; this is checked at the end), compiles that copy to an .olean in a temporary library
directory (a symlink mirror of lean/.lake/build/lib/lean with only Guards.olean replaced) and
elaborates Properties/C16Guards.lean against it.  Expected: exactly the theorems about the three
edited functions fail; with the unedited sources none fails.

  1. cc_array_get_at        `index >= ar->size`                         -> `index > ar->size`
  2. cc_array_sized_swap_at `index1 >= ar->size || index2 >= ar->size`  -> `index1 >= ar->size`
  3. cc_deque_get_at        `index >= deque->size`                      -> `index >= deque->capacity`
"""
import hashlib, os, re, shutil, subprocess, sys, tempfile
from pathlib import Path

ROOT = Path(__file__).resolve().parent.parent
sys.path.insert(0, str(ROOT / "tools"))
import gen_guards

REPO = Path(os.environ.get("VERIF_REPO", "/repo"))
LEAN = ROOT / "lean"
GEN = LEAN / "CollectionsC" / "Generated"
PROP = LEAN / "CollectionsC" / "Properties" / "C16Guards.lean"
LIB = LEAN / ".lake" / "build" / "lib" / "lean"

MUTATIONS = [
    # (file, function, old text, new text, theorem expected to fail)
    ("src/cc_array.c", "cc_array_get_at", "index >= ar->size", "index > ar->size", "array_get_at_guard"),
    ("src/sized/cc_array_sized.c", "cc_array_sized_swap_at", "index1 >= ar->size || index2 >= ar->size",
     "index1 >= ar->size", "sized_swap_at_guard"),
    ("src/cc_deque.c", "cc_deque_get_at", "index >= deque->size", "index >= deque->capacity", "deque_get_at_guard"),
]


def sh(cmd, **kw):
    return subprocess.run(cmd, stdout=subprocess.PIPE, stderr=subprocess.STDOUT, text=True, **kw)


def mutate(repo, f, fname, old, new):
    """replace `old` by `new` inside the definition of fname only"""
    p = repo / f
    txt = p.read_text()
    m = re.search(r"^enum cc_stat " + re.escape(fname) + r"\s*\(", txt, re.M)
    if not m:
        raise SystemExit(f"self-test: {fname} not found in {f}")
    end = txt.index("\n}\n", m.start())
    body = txt[m.start():end]
    if body.count(old) != 1:
        raise SystemExit(f"self-test: `{old}` occurs {body.count(old)} times in {fname}")
    p.write_text(txt[:m.start()] + body.replace(old, new) + txt[end:])


def mirror_lib(dst):
    """symlink mirror of the built library, without Generated/Guards.*"""
    for d, _, files in os.walk(LIB):
        rel = Path(d).relative_to(LIB)
        (dst / rel).mkdir(parents=True, exist_ok=True)
        for f in files:
            if rel == Path("CollectionsC/Generated") and f.startswith("Guards."):
                continue
            os.symlink(Path(d) / f, dst / rel / f)


def failing_theorems(tmp, repo_copy, label):
    """regenerate Guards.lean from repo_copy in a temp Generated dir, elaborate C16Guards.lean
    against it; returns (set of failing theorem names, problems, error lines)"""
    gen = tmp / label / "lean" / "CollectionsC" / "Generated"
    shutil.copytree(GEN, gen)
    problems = gen_guards.write(repo_copy, gen / "Guards.lean")
    lib = tmp / label / "lib"
    mirror_lib(lib)
    r = sh(["lake", "env", "sh", "-c",
            f'cd {tmp / label / "lean"} && LEAN_PATH={lib} exec lean -o {lib}/CollectionsC/Generated/Guards.olean '
            f'CollectionsC/Generated/Guards.lean'], cwd=LEAN)
    if r.returncode != 0:
        raise SystemExit(f"self-test: the regenerated Guards.lean does not compile:\n{r.stdout}")
    r = sh(["lake", "env", "sh", "-c", f'LEAN_PATH={lib} exec lean {PROP}'], cwd=LEAN)
    # blocks of the property file: every `theorem` / `example` with the generated functions it mentions
    src = PROP.read_text().split("\n")
    starts = [i for i, line in enumerate(src, 1) if re.match(r"^(theorem|example)\b", line)]
    blocks = []
    for k, i in enumerate(starts):
        j = starts[k + 1] - 1 if k + 1 < len(starts) else len(src)
        text = "\n".join(src[i - 1:j])
        m = re.match(r"^theorem\s+(\S+)", src[i - 1])
        fns = sorted(set(re.findall(r"Gen\.(cc_\w+?)_(?:guard_status|guard|rejects|bypass)\b", text)))
        blocks.append((i, m.group(1) if m else f"example@{i}", fns))
    bad, lines = {}, []
    for m in re.finditer(r"^(\S+?):(\d+):(\d+): error: (.*)$", r.stdout, re.M):
        ln = int(m.group(2))
        owner = [b for b in blocks if b[0] <= ln]
        name, fns = (owner[-1][1], owner[-1][2]) if owner else (f"line {ln}", [])
        bad[name] = fns
        lines.append(f"{Path(m.group(1)).name}:{ln} ({name}): {m.group(4)[:80]}")
    if r.returncode != 0 and not bad:
        raise SystemExit(f"self-test: lean failed without an error position:\n{r.stdout[-2000:]}")
    return bad, problems, lines, (gen / "Guards.lean").read_text()


def main():
    before = hashlib.sha256((GEN / "Guards.lean").read_bytes()).hexdigest()
    r = sh([str(ROOT / "tools" / "lk"), "build", "CollectionsC.Proofs.Guards", "CollectionsC.Generated.Guards"])
    if r.returncode != 0:
        raise SystemExit("self-test: could not build the imports of C16Guards.lean:\n" + r.stdout[-2000:])
    ok = True
    with tempfile.TemporaryDirectory(prefix="gen_guards_test_") as t:
        tmp = Path(t)
        # --- baseline: unedited sources
        base = tmp / "repo0"
        shutil.copytree(REPO / "src", base / "src")
        bad0, prob0, lines0, txt0 = failing_theorems(tmp, base, "baseline")
        print(f"baseline (unedited copy of {REPO}/src): translator problems {len(prob0)}, failing theorems {len(bad0)}")
        if bad0 or prob0:
            ok = False
            for x in prob0 + lines0:
                print("   ", x)
        same = txt0 == (GEN / "Guards.lean").read_text()
        print(f"baseline: regenerated Guards.lean identical to the one in the tree: {same}")
        # --- three edited guards
        mut = tmp / "repo1"
        shutil.copytree(REPO / "src", mut / "src")
        for f, fn, old, new, _ in MUTATIONS:
            mutate(mut, f, fn, old, new)
            print(f"edit  {fn}: `{old}` -> `{new}`")
        bad1, prob1, lines1, txt1 = failing_theorems(tmp, mut, "edited")
        for f, fn, old, new, _ in MUTATIONS:
            d = [l for l in txt1.split("\n") if l.startswith(f"def {fn}_guard ")]
            print("   regenerated:", d[0] if d else f"(no definition of {fn}_guard)")
        expected_fns = {m[1] for m in MUTATIONS}
        expected_thms = {m[4] for m in MUTATIONS}
        failed_fns = {f for fns in bad1.values() for f in fns}
        print(f"edited: translator problems {len(prob1)}; failing blocks of C16Guards.lean: {sorted(bad1)}")
        for l in lines1:
            print("   ", l)
        print(f"functions whose theorems/examples fail: {sorted(failed_fns)}")
        print(f"expected exactly:                       {sorted(expected_fns)}")
        missing = expected_thms - set(bad1)
        if missing:
            print(f"theorems that should have failed but did not: {sorted(missing)}")
        if failed_fns != expected_fns or missing or prob1:
            ok = False
        # --- regression cases of the third audit (each alone)
        AR = "src/cc_array.c"
        EXTRA = [
            ("a second rejection added behind the guard of cc_array_get_at",
             [(AR, "cc_array_get_at", "    *out = ar->buffer[index];",
               "    if (index == 3)\n        return CC_ERR_OUT_OF_RANGE;\n    *out = ar->buffer[index];")],
             {"array_get_at_error_returns"}, False),
            ("`#define size capacity` above struct cc_array_s (every guard reading ar->size must be refused)",
             [(AR, None, "struct cc_array_s {", "#define size capacity\nstruct cc_array_s {")], None, True),
            ("the container's own field is no longer size_t although another struct of the file has a `size_t size;`",
             [(AR, None, "struct cc_array_s {\n    size_t   size;", "struct other_s { size_t size; };\nstruct cc_array_s {\n    uint32_t size;")],
             None, True),
            ("an octal literal in a guard: `index >= 010` is 8, not 10",
             [(AR, "cc_array_get_at", "index >= ar->size", "index >= 010")], {"array_get_at_guard"}, False),
        ]
        for k, (label, edits, expected, want_problem) in enumerate(EXTRA):
            rp = tmp / f"repoX{k}"
            shutil.copytree(REPO / "src", rp / "src")
            for f, fn, o, n in edits:
                if fn is None:
                    q = rp / f
                    t0 = q.read_text()
                    if t0.count(o) != 1:
                        raise SystemExit(f"self-test: `{o}` occurs {t0.count(o)} times in {f}")
                    q.write_text(t0.replace(o, n))
                else:
                    mutate(rp, f, fn, o, n)
            badx, probx, linesx, txtx = failing_theorems(tmp, rp, f"extra{k}")
            if want_problem:
                good = bool(probx) and all("cc_array" in x for x in probx)
                print(f"[{'ok' if good else 'FAIL'}] {label}: refused with {len(probx)} problem(s), e.g. {probx[0] if probx else '-'}")
            else:
                good = set(badx) >= expected and not probx and all(
                    b in expected or b.startswith("example") or b.replace("_error_returns", "_guard") in expected
                    or b.replace("_guard", "_error_returns") in expected for b in badx)
                print(f"[{'ok' if good else 'FAIL'}] {label}: failing {sorted(badx)}; expected {sorted(expected)}")
                if "octal" in label:
                    d = [l for l in txtx.split("\n") if l.startswith("def cc_array_get_at_guard ")]
                    print("        regenerated:", d[0] if d else "-")
                    good = good and bool(d) and "≥ 8" in d[0]
            if not good:
                for x in probx[:4] + linesx[:6]:
                    print("       ", x)
            ok = ok and good
    after = hashlib.sha256((GEN / "Guards.lean").read_bytes()).hexdigest()
    print(f"Generated/Guards.lean in the tree untouched: {before == after}")
    ok = ok and before == after
    print("SELF-TEST", "PASSED" if ok else "FAILED")
    return 0 if ok else 1


if __name__ == "__main__":
    sys.exit(main())
