"""Property-level driver: build, audit, correspondence streams, violation search, evidence."""
import json, os, random, re, sys, time
from pathlib import Path
import vlib
from vlib import ROOT, LEAN, Runner, Diff, log
import gens
import props


def lean_stage(pid, P):
    """build + forbidden tokens + axiom audit.  Returns dict(ok, broken=[names], info)"""
    res = dict(build_ok=False, broken=[], theorems=[], axioms={}, forbidden=[], problems=[], digests={})
    ok, out, failed, errs = vlib.build_lean()
    guard_problems = [e for e in errs if e.startswith(("gen_guards:", "gen_funcs:"))]
    errs = [e for e in errs if e not in guard_problems]
    res["build_ok"] = ok
    res["failed_modules"] = failed
    res["build_errors"] = errs[:10]
    files = property_files(pid, P)
    theorems = []
    for f in files:
        if f.exists():
            theorems += vlib.lean_theorems(f)
            res["digests"].update(vlib.statement_digests(f))
    theorems += P.get("extra_theorems", [])
    res["theorems"] = theorems
    # "translation tie" files: property files that rest on the modules regenerated from the C text
    # (Generated/Guards.lean, Generated/Funcs.lean).  They are a SECOND tie between model and code; when
    # only they break (an edited guard, a construct the translators cannot parse, a harmless rewrite) the
    # first tie - the differential correspondence - decides: the check intensifies the search for a
    # failing input and raises a violation only if it finds one.
    def is_gen(m):       # Generated/Guards.lean, Generated/Funcs.lean, Generated/Funcs<Container>.lean
        return m == "CollectionsC.Generated.Guards" or m.startswith("CollectionsC.Generated.Funcs")
    def is_aux_module(m):
        return is_gen(m) or any(is_gen(d) for d in lean_deps(m, set()))
    aux_files = [f for f in files if f.exists() and is_aux_module(".".join(f.relative_to(LEAN).with_suffix("").parts))]
    aux_theorems = set()
    for f in aux_files:
        aux_theorems.update(vlib.lean_theorems(f))
    res["aux_theorems"] = sorted(aux_theorems)
    res["aux_broken"] = []
    res["forbidden"] = vlib.forbidden_tokens()
    if not ok:
        # which of this property's obligations are affected?  any failed module that the property
        # file imports (transitively) or the property file itself
        mods = set(failed)
        deps = set()
        for f in files:
            if f.exists():
                lean_deps(".".join(f.relative_to(LEAN).with_suffix("").parts), deps)
        hit = sorted(m for m in mods if m in deps)
        res["broken_modules"] = hit
        hit_main = [m for m in hit if not is_aux_module(m)]
        if hit_main or not mods:
            res["broken"] = theorems or [f"CollectionsC.Properties.{pid}"]
            if not mods:
                res["problems"].append("lake build failed without naming a module: " + "; ".join(errs[:3]))
        else:
            if hit:      # only translation-tie modules failed
                res["aux_broken"] = sorted(aux_theorems)
                res["problems"].append("translation tie no longer builds: " + ", ".join(hit))
            ok = True   # the failure is in a module this property does not (otherwise) depend on
    if ok and theorems:
        modname = lambda f: ".".join(f.relative_to(LEAN).with_suffix("").parts)
        mods_main = [modname(f) for f in files if f.exists() and f not in aux_files]
        mods_aux = [modname(f) for f in aux_files]
        main_thms = [t for t in theorems if t not in aux_theorems]
        ax = vlib.audit_axioms(main_thms, mods_main or ["CollectionsC"]) if main_thms else {}
        if aux_theorems:
            ax.update(vlib.audit_axioms(sorted(aux_theorems), mods_aux))
        res["axioms"] = ax
        for t, a in ax.items():
            if a is None:
                if t in aux_theorems:
                    if t not in res["aux_broken"]:
                        res["aux_broken"].append(t)
                    continue
                res["broken"].append(t)
                res["problems"].append(f"theorem {t} not found in the built library")
            elif not set(a) <= vlib.ALLOWED_AXIOMS:
                res["broken"].append(t)
                res["problems"].append(f"theorem {t} depends on unexpected axioms {a}")
    if res["forbidden"]:
        res["problems"].append("forbidden tokens: " + "; ".join(res["forbidden"][:5]))
        res["broken"] = res["broken"] or theorems
    if not theorems:
        res["problems"].append("no theorems registered for this property")
    for prefix, module in (("gen_guards:", "CollectionsC.Generated.Guards"), ("gen_funcs:", "CollectionsC.Generated.Funcs")):
        # a guard / a function of the C text could not be translated (tools/gen_guards.py, gen_funcs.py):
        # the theorems of the files that import the generated module are no longer tied to the code
        for f in files:
            if not f.exists() or not any(d == module or (module.endswith(".Funcs") and d.startswith(module))
                                          for d in lean_deps_file(f)):
                continue
            txt = f.read_text()
            # `gen_x: <function or "struct tag"> (file): why` concerns the files that mention that name
            gp = [e for e in guard_problems if e.startswith(prefix)
                  and (lambda m: not m or m.group(1) in txt)(re.match(r"gen_\w+: (?:struct )?(\w+) \(", e))]
            if gp:
                res["problems"] += [e for e in gp if e not in res["problems"]]
                res["aux_broken"] += [t for t in vlib.lean_theorems(f) if t not in res["aux_broken"]]
    res["failed_all"] = failed
    return res


def property_files(pid, P):
    """Properties/<pid>.lean, Properties/<pid><Suffix>.lean (per-container parts) and the extra files"""
    d = LEAN / "CollectionsC" / "Properties"
    fs = [d / f"{pid}.lean"] + sorted(q for q in d.glob(f"{pid}[A-Z]*.lean"))
    fs += [LEAN / f for f in P.get("extra_lean", [])]
    seen, out = set(), []
    for f in fs:
        if f not in seen:
            seen.add(f)
            out.append(f)
    return out


def lean_deps_file(path):
    seen = set()
    if path.exists():
        for m in re.finditer(r"^import\s+(CollectionsC\.[\w.]+)", path.read_text(), re.M):
            lean_deps(m.group(1), seen)
    return seen


def lean_deps(module, seen=None):
    """transitive CollectionsC.* imports of a module (by reading the source files)"""
    seen = seen if seen is not None else set()
    if module in seen:
        return seen
    seen.add(module)
    p = LEAN / (module.replace(".", "/") + ".lean")
    if p.exists():
        for m in re.finditer(r"^import\s+(CollectionsC\.[\w.]+)", p.read_text(), re.M):
            lean_deps(m.group(1), seen)
    return seen


def relevant(P, container, d):
    """is this difference a violation of the property being checked (L1/L2), or a fidelity break (L3)?"""
    if d.kind in ("protocol", "crash") and d.layer == "L2":
        return True      # the C side died or stopped speaking the line protocol: never filtered by a property's kinds
    if d.layer == "L0":
        return False     # machinery problems (unknown operation): reported as CHECK-ERROR, never as a violation
    f = P.get("relevant")
    if f:
        return f(container, d)
    if d.layer == "L3":
        return True
    return d.kind in P.get("kinds", ("obs", "crash"))


def corpus_histories(container):
    out = []
    d = ROOT / "corpus" / container
    if d.is_dir():
        for p in sorted(d.glob("*.ops")):
            _, ops = vlib.read_replay(p)
            out.append((p.name, ops))
    return out


def fault_variants(runner, hist, max_variants=None, rng=None):
    """for every operation of the history and every k up to the number of allocator calls the
    operation makes: the same history with that call refused"""
    exe = runner.exe
    out, rc, err = vlib.run_c(exe, ["reset"] + hist)
    variants = []
    for i, op in enumerate(hist):
        if i + 1 >= len(out):
            break
        mf = vlib.mem_fields(vlib.sections(out[i + 1])[2])
        if not mf or "fail=" in op:
            continue
        calls = mf["a"] + mf["r"]
        for k in range(1, calls + 1):
            variants.append(hist[:i] + [op + f" fail={k}"] + hist[i + 1:])
    if max_variants and len(variants) > max_variants and rng:
        variants = rng.sample(variants, max_variants)
    return variants


def known_findings_for(pid):
    """`finding:` lines of known_findings.txt that concern this property (never written at run time)"""
    out = []
    f = ROOT / "known_findings.txt"
    if not f.exists():
        return out
    for line in f.read_text().split("\n"):
        if not line.startswith("finding:"):
            continue
        m = re.match(r"finding: property=(\S+) id=(\S+) container=(\S+) witness=(\S+) also=(\S*) (?:sig=(\S+) )?what=(.*)$", line)
        if not m:
            continue
        propsl = [m.group(1)] + [x for x in m.group(5).split(",") if x]
        if pid in propsl:
            ws = m.group(4).split(",")
            sigs = m.group(6).split("|") if m.group(6) else [None] * len(ws)
            out.append(dict(id=m.group(2), container=m.group(3), witness=ws, sig=dict(zip(ws, sigs)), what=m.group(7)))
    return out


def witness_signature(diffs):
    """what fails on a known-finding witness, as a set of `kind@line` tokens (L1/L2 only): recorded in the `sig=` field of
    the finding so that a DIFFERENT failure on the same witness is still reported"""
    return sorted({f"{d.kind}@{d.line}" for d in diffs if d.layer in ("L1", "L2")})


def growth_hook(container):
    """C20: appending n elements triggers only O(log n) buffer reallocations"""
    import math
    appends = ("add", "add_last", "add_first", "push", "enqueue", "add_at")
    def hook(h, ops, c_lines):
        if not ops:
            return []
        # one history may create several objects with different expansion factors (`new … exp=`, `mk_new to=k … exp=`,
        # derived objects inherit theirs): the bound is computed with the SMALLEST factor > 1 that occurs anywhere in the
        # history (and the default 2), which is sound for every object of it
        fs = [float(x) for op in ops for x in re.findall(r"\bexp=([0-9.]+)", op)]
        fs = [x for x in fs if x > 1.0] + [2.0]
        f = min(fs)
        if container in ("deque", "queue", "hashtable", "hashset"):
            f = 2.0
        total = {}      # successful appends so far per object (upper bound of its size)
        run_n = {}      # appends in the current uninterrupted run of appends per object
        run_re = {}     # buffer reallocations in that run
        need = 2 if container in ("hashtable", "hashset") else 1
        out = []

        def close(slot):
            cnt = run_n.get(slot, 0)
            if cnt >= 16:
                big = max(total.get(slot, cnt), cnt)
                bound = math.ceil(math.log(big) / math.log(f)) + math.ceil(1.0 / (f - 1.0)) + 2
                if run_re.get(slot, 0) > bound:
                    out.append(Diff("growth-count", h, len(ops) - 1, ops[-1],
                                    f"object {slot}: {run_re[slot]} buffer reallocations during {cnt} consecutive appends "
                                    f"(at most {big} elements), factor {f}, bound {bound}", "L2"))
            run_n[slot] = 0
            run_re[slot] = 0

        for i, op in enumerate(ops):
            name = op.split()[0]
            mo = re.search(r"\bo=(\d+)", op)
            slot = mo.group(1) if mo else "0"
            if name not in appends or i >= len(c_lines):
                if not name.startswith(("get", "size", "capacity", "contains", "index_of", "peek", "top")):
                    close(slot)
                continue
            cs = vlib.sections(c_lines[i])
            mf = vlib.mem_fields(cs[2])
            if not mf or not re.search(r"\bst=0\b", cs[0]):
                close(slot)
                continue
            total[slot] = total.get(slot, 0) + 1
            run_n[slot] = run_n.get(slot, 0) + 1
            if mf["a"] >= need:
                run_re[slot] = run_re.get(slot, 0) + 1
        for slot in list(run_n):
            close(slot)
        return out
    return hook


def trim_hook(container):
    """C20: a successful trim leaves the documented minimum capacity (the element count, never below 1; for deques the
    smallest power of two that holds the elements), read from the C side's own phys section"""
    def hook(h, ops, c_lines):
        out = []
        for i, op in enumerate(ops):
            name = op.split()[0]
            if name not in ("trim", "trim_capacity") or i >= len(c_lines):
                continue
            cs = vlib.sections(c_lines[i])
            if len(cs) < 2 or not re.search(r"\bst=0\b", cs[0]):
                continue
            mo = re.search(r"\bo=(\d+)", op)
            k = mo.group(1) if mo else "0"
            if container == "deque":
                ms, mc = re.search(rf"\bd{k}\.size=(\d+)", cs[1]), re.search(rf"\bd{k}\.cap=(\d+)", cs[1])
            else:
                ms, mc = re.search(rf"\bsize{k}=(\d+)", cs[1]), re.search(rf"\bcap{k}=(\d+)", cs[1])
            if not ms or not mc:
                continue
            size, cap = int(ms.group(1)), int(mc.group(1))
            if container == "deque":
                ok = cap >= max(size, 1) and cap & (cap - 1) == 0 and (cap == 1 or cap // 2 < size)
                want = "the smallest power of two >= max(size, 1)"
            else:
                ok = cap == max(size, 1)
                want = "max(size, 1)"
            if not ok:
                out.append(Diff("trim-minimum", h, i, op, f"object {k}: capacity {cap} after a successful trim with {size} "
                                f"elements; documented minimum is {want}", "L2"))
        return out
    return hook


def pq_multiset_hook():
    """pqueue, C side only: element IDENTITY, which the obs section (keys in pop order) cannot see under ties.
    After a successful push x the buffer holds the old multiset plus x; after a successful pop the old multiset is the
    new one plus the popped element; every other operation (and every failed one) leaves the multiset alone;
    destroy_cb hands exactly the held elements to the callback."""
    from collections import Counter

    def items(txt, key):
        m = re.search(rf"\b{key}=\[([^\]]*)\]", txt)
        return None if not m else Counter(x for x in m.group(1).split(",") if x != "")

    def hook(h, ops, c_lines):
        out = []
        prev = None
        for i, op in enumerate(ops):
            if i >= len(c_lines):
                break
            cs = vlib.sections(c_lines[i])
            name = op.split()[0]
            if name.startswith("new"):
                prev = items(cs[1], "buf")
                continue
            if name == "destroy_cb":
                got = items(cs[1], "cbraw")
                if prev is not None and got is not None and got != prev:
                    out.append(Diff("walker", h, i, op, f"destroy_cb handed {sorted(got.elements())} to the callback, the queue held {sorted(prev.elements())}", "L2"))
                prev = None
                continue
            cur = items(cs[1], "buf")
            if cur is None or prev is None:
                prev = cur if cur is not None else prev
                continue
            ok_st = bool(re.search(r"\bst=0\b", cs[0]))
            want = Counter(prev)
            if ok_st and name == "push":
                want[op.split()[1]] += 1
            elif ok_st and name == "pop":
                mo = re.search(r"\bout=(\S+)", cs[1])
                if mo:
                    want[mo.group(1)] -= 1
                    want = +want if all(v >= 0 for v in want.values()) else Counter({"<popped element was not in the queue>": 1})
                else:       # pop with a NULL out pointer: exactly one of the held elements is gone
                    gone = Counter(prev)
                    gone.subtract(cur)
                    if sum(gone.values()) == 1 and all(v >= 0 for v in gone.values()):
                        want = cur
                    else:
                        want = Counter({"<the old multiset minus one element>": 1})
            if cur != want:
                out.append(Diff("walker", h, i, op, f"element multiset {sorted(cur.elements())} after the operation, expected {sorted(want.elements())}", "L2"))
            prev = cur
        return out
    return hook


def d3_taint_hook():
    """deque: known finding D3 judged on the REAL state.  The generators keep front-half insertions out of their streams
    by simulating sizes, but the runner's refusal enumeration (and any imprecision of that simulation) can shift a later
    `add_at` / `it_add` / `zit_add` into the D3 region.  This hook reads the C side's own size and cursor: when a
    successful insertion executed at a position with 1 <= index and index + 1 <= size_before / 2 it marks the history from
    that operation on (`d3-taint`, never a violation itself); L1 content differences at or after the mark are consequences
    of the recorded finding (the model, which mirrors the code, still has to agree at L3)."""
    def hook(h, ops, c_lines):
        prev = None
        for i, op in enumerate(ops):
            if i >= len(c_lines):
                break
            cs = vlib.sections(c_lines[i])
            name = op.split()[0]
            if prev is not None and name in ("add_at", "it_add", "zit_add") and re.search(r"\bst=0\b", cs[0]):
                idxs = []
                if name == "add_at":
                    mo = re.search(r"\bo=(\d+)", op)
                    k = mo.group(1) if mo else "0"
                    a = op.split()
                    if len(a) >= 3 and a[2].isdigit():
                        idxs.append((k, int(a[2])))
                elif name == "it_add":
                    mi = re.search(r"\bit=(\d+):(\d+):", prev)
                    if mi:
                        idxs.append((mi.group(1), int(mi.group(2))))
                else:
                    mz = re.search(r"\bzit=(\d+):(\d+):(\d+):", prev)
                    if mz:
                        idxs += [(mz.group(1), int(mz.group(3))), (mz.group(2), int(mz.group(3)))]
                for k, idx in idxs:
                    ms = re.search(rf"\bd{k}\.size=(\d+)", prev)
                    if ms and 1 <= idx and idx + 1 <= int(ms.group(1)) // 2:
                        return [Diff("d3-taint", h, i, op, f"insertion at front-half position {idx} of {ms.group(1)} elements (finding D3)", "L0")]
                    # the second insertion of an aliased zip sees one more element
                    if name == "zit_add" and ms and 1 <= idx and idx + 1 <= (int(ms.group(1)) + 1) // 2:
                        return [Diff("d3-taint", h, i, op, f"zip insertion at front-half position {idx} (finding D3)", "L0")]
            prev = cs[1]
        return []
    return hook


def run_container(P, pid, cspec, tier, seed):
    """all streams of one container; returns dict(stats, violations, fidelity, samples, problems)"""
    container = cspec["container"]
    out = dict(container=container, stats=None, violations=[], fidelity=[], samples=[], problems=[], no_verdict=[])
    if container not in gens.GENS:
        out["problems"].append(f"no generator for container {container}")
        out["no_verdict"].append(f"no generator for container {container} (import failed or not registered)")
        return out
    g = gens.GENS[container]
    rng = random.Random(seed * 1000003 + int(pid[1:]) * 101 + sum(map(ord, container)))
    opts = props.container_opts(container)
    try:
        runner = Runner(container, opts)
    except RuntimeError as e:
        out["problems"].append(str(e)[:500])
        out["violations"].append(("harness-build", container, [], [Diff("build", 0, 0, "", str(e)[:300], "L2")]))
        return out
    if cspec.get("growth_count"):
        runner.hooks.append(growth_hook(container))
    if pid == "C20" and container in ("array", "array_sized", "deque"):
        runner.hooks.append(trim_hook(container))
    if container == "pqueue":
        runner.hooks.append(pq_multiset_hook())
    if container == "deque":
        runner.hooks.append(d3_taint_hook())
    d3_tainted = [0]
    focus = cspec.get("focus")
    batches = []
    late = []        # the property-defining batches (refusal enumeration, pool-backed re-runs) go right after the corpus
    corp = [ops for name, ops in corpus_histories(container) if not name.startswith("defect_")]
    if corp and cspec.get("corpus", True):
        batches.append(("corpus", corp))
    if cspec.get("small", True):
        ss = g.small_scope(tier, focus=focus)
        cap = cspec.get("small_cap_quick", 1500) if tier == "quick" else cspec.get("small_cap_thorough", 60000)
        if len(ss) > cap:
            ss = rng.sample(ss, cap)
        batches.append(("small-scope", ss))
    n = cspec.get("n_quick", 150) if tier == "quick" else cspec.get("n_thorough", 4000)
    rnd = g.random(rng, n, tier, focus=focus)
    batches.append(("random", rnd))
    if hasattr(g, "scale") and cspec.get("scale", True):
        # few LONG histories (hundreds to thousands of elements, large capacities and element sizes): what small random
        # histories never reach — narrowed counters, batch paths, thresholds beyond the 3rd resize
        try:
            sc = g.scale(rng, tier)
        except Exception as e:
            sc = []
            out["no_verdict"].append(f"{container}: scale stream failed to generate: {str(e)[:120]}")
        if sc:
            batches.append(("scale", sc))
    if cspec.get("alloc_modes"):
        def with_mode(h, mode):
            return [h[0] + f" alloc={mode}"] + h[1:] if h and h[0].startswith("new") and "_default" not in h[0] else None
        pm = [x for h in rnd[: max(20, len(rnd) // 2)] for x in (with_mode(h, "spool"), with_mode(h, "dpool")) if x]
        late.append(("pool-backed", pm))
    if cspec.get("faults", False):
        nb = cspec.get("fault_hist_quick", 25) if tier == "quick" else cspec.get("fault_hist_thorough", 150)
        base = g.random(rng, nb, tier, focus=focus or "fault")
        if hasattr(g, "fault_seeds"):
            base = g.fault_seeds(tier) + base
        fv = []
        cap = cspec.get("fault_cap_quick", 4000) if tier == "quick" else cspec.get("fault_cap_thorough", 20000)
        for h in base:
            fv.extend(fault_variants(runner, h, 40 if tier == "quick" else 300, rng))
            if len(fv) > 2 * cap:       # bound memory: the enumeration of a thorough run once needed > 60 GB
                fv = rng.sample(fv, cap)
        if len(fv) > cap:
            fv = rng.sample(fv, cap)
        late.append(("fault-enumeration", fv))
    batches = batches[:1] + late + batches[1:] if batches and batches[0][0] == "corpus" else late + batches
    if not rnd:
        out["no_verdict"].append(f"{container}: the generator produced no random histories")
    t_start = time.time()
    budget = cspec.get("budget_quick", 120) if tier == "quick" else cspec.get("budget_thorough", 900)
    truncated = []
    def chunks(hs, max_hist=300, max_ops=8000):
        """consecutive slices holding at most max_hist histories and (unless a single history is longer) max_ops
        operations: the long histories of the scale stream are processed one at a time, which bounds the memory held
        for C and Lean output (a thorough run once grew past 60 GB)"""
        lo, n = 0, 0
        for i, h in enumerate(hs):
            if i > lo and (i - lo >= max_hist or n + len(h) > max_ops):
                yield lo, hs[lo:i]
                lo, n = i, 0
            n += len(h)
        if lo < len(hs):
            yield lo, hs[lo:]

    for bname, hs in batches:
        for lo, chunk in chunks(hs):
            if time.time() - t_start > budget:
                truncated.append((bname, lo, len(hs)))
                break
            try:
                res = runner.run(chunk)
            except (RuntimeError, Exception) as e:
                out["problems"].append(f"{container}/{bname}: {str(e)[:300]}")
                out["fidelity"].append((bname, container, chunk[0], [Diff("driver-failure", 0, 0, chunk[0][0], str(e)[:200], "L3")]))
                break
            for h, diffs in res:
                unk = [d for d in diffs if d.kind == "unknown-op"]
                if unk and len(out["no_verdict"]) < 3:
                    out["no_verdict"].append(f"{container}/{bname}: generated operation unknown to the harness: {unk[0].op!r}")
                taint = [d.line for d in diffs if d.kind == "d3-taint"]
                if taint:
                    d3_tainted[0] += 1
                    diffs = [d for d in diffs if not (d.layer == "L1" and d.kind == "obs" and d.line >= min(taint))]
                rel = [d for d in diffs if relevant(P, container, d)]
                hard = [d for d in rel if d.layer in ("L1", "L2")]
                soft = [d for d in rel if d.layer == "L3"]
                if hard:
                    if len(out["violations"]) < 2:
                        out["violations"].append((bname, container, chunk[h], hard))
                elif soft:
                    if len(out["fidelity"]) < 2:
                        out["fidelity"].append((bname, container, chunk[h], soft))
    if cspec.get("plain_pass"):
        # the same histories on a build WITHOUT sanitizers: ASan's quarantine prevents the allocator
        # from handing a freed address out again, which hides bugs keyed on address reuse
        try:
            pr = Runner(container, opts, plain=True)
            sample = corp + rnd[: cspec.get("plain_n", 200)]
            for h, diffs in pr.run(sample):
                rel = [d for d in diffs if relevant(P, container, d)]
                hard = [d for d in rel if d.layer in ("L1", "L2")]
                if hard and len(out["violations"]) < 2:
                    out["violations"].append(("plain-build", container, sample[h], hard))
                elif rel and not hard and len(out["fidelity"]) < 2:
                    out["fidelity"].append(("plain-build", container, sample[h], rel))
            batches.append(("plain-build (no sanitizer)", sample))
        except Exception as e:
            out["problems"].append(f"{container}/plain: {str(e)[:200]}")
    if cspec.get("valgrind") and tier == "thorough":
        # uninitialised reads / invalid frees that ASan does not see: memcheck over corpus + a sample
        try:
            vr = Runner(container, opts, valgrind=True)
            sample = corp + rnd[: cspec.get("valgrind_n", 150)]
            for h, diffs in vr.run(sample):
                hard = [d for d in diffs if d.kind == "crash" and relevant(P, container, d)]
                if hard and len(out["violations"]) < 2:
                    out["violations"].append(("valgrind", container, sample[h], hard))
            batches.append(("valgrind-memcheck", sample))
        except Exception as e:
            out["problems"].append(f"{container}/valgrind: {str(e)[:200]}")
    if cspec.get("coverage") or tier == "thorough":
        try:
            allh = [h for _, hs in batches for h in hs]
            rng.shuffle(allh)
            out["c_coverage"] = vlib.coverage_run(container, allh, 1500 if tier == "quick" else 6000)
        except Exception as e:
            out["problems"].append(f"{container}/coverage: {str(e)[:200]}")
    out["stats"] = dict(runner.stats(), streams=[(b, len(h)) for b, h in batches], focus=focus,
                        truncated_by_time_budget=[f"{b}: ran {lo} of {n} histories" for b, lo, n in truncated],
                        histories_tainted_by_known_finding_D3=d3_tainted[0])
    out["samples"] = runner.samples
    return out


def run_check(pid, tier, seed, replay=None):
    from concurrent.futures import ThreadPoolExecutor
    t0 = time.time()
    P = props.PROPS[pid]
    rng = random.Random(seed * 1000003 + int(pid[1:]))
    printed = []
    nrep = [0]

    def report(container, ops, diffs, suffix=""):
        nrep[0] += 1
        path = vlib.write_replay(pid, nrep[0], container, ops, diffs, {"seed": seed, "tier": tier})
        line = f"VIOLATION property={pid} replay={path}" + (f" {suffix}" if suffix else "")
        print(line, flush=True)
        printed.append(line)
        return path

    if replay and str(replay).endswith(".broken"):
        # the replay of a "no-failing-input-found" report names theorems, not operations: re-check them
        lean = lean_stage(pid, P)
        named = [l.split()[1] for l in open(replay) if l.startswith("theorem ")]
        still = [t for t in named if t in lean["broken"]] or lean["broken"]
        for t in still:
            print(f"theorem {t}: does not check against the current sources")
        if still:
            for p_ in lean["problems"][:10]:
                print(p_)
            print(f"VIOLATION property={pid} replay={replay} no-failing-input-found")
            return 1
        print("replay: every named theorem checks again")
        return 0
    if replay:
        container, ops = vlib.read_replay(replay)
        vlib.build_lean()
        r = Runner(container, props.container_opts(container))
        for cs in P["streams"]:
            if cs["container"] == container and cs.get("growth_count"):
                r.hooks.append(growth_hook(container))
        if pid == "C20" and container in ("array", "array_sized", "deque"):
            r.hooks.append(trim_hook(container))
        if container == "pqueue":
            r.hooks.append(pq_multiset_hook())
        res = r.run([ops])
        bad = [d for _, ds in res for d in ds if relevant(P, container, d)]
        for d in bad:
            print(d)
        if bad:
            print(f"VIOLATION property={pid} replay={replay}")
            return 1
        print("replay: no difference")
        return 0

    lean = lean_stage(pid, P)

    def driver_ok(container):
        deps = lean_deps_file(LEAN / "Mains" / f"{container}.lean")
        bad = {f"Mains.{container}", f"driver_{container}"} | {m for m in lean["failed_all"] if m in deps}
        return vlib.driver_path(container).exists() and not (bad & set(lean["failed_all"]))

    violations, fidelity, stats, all_samples, known_lines = [], [], [], [], []
    no_verdict = []      # reasons why this run cannot give a verdict (work that was not done): CHECK-ERROR, exit 2
    aux_notes = []
    todo = []
    for cspec in P["streams"]:
        c = cspec["container"]
        if not driver_ok(c):
            lean["problems"].append(f"lean driver for {c} did not build; its correspondence cannot run")
            if not lean["broken"]:
                lean["broken"] = list(lean["theorems"]) or [f"driver_{c}"]
            continue
        todo.append(cspec)
    with ThreadPoolExecutor(max_workers=min(8, max(1, len(todo)))) as ex:
        results = list(ex.map(lambda cs: run_container(P, pid, cs, tier, seed), todo))
    for r in results:
        violations += r["violations"]
        fidelity += r["fidelity"]
        if r["stats"]:
            if r.get("c_coverage"):
                r["stats"]["c_source_coverage"] = r["c_coverage"]
            stats.append(r["stats"])
        all_samples += r["samples"][:2]
        lean["problems"] += r["problems"]
        no_verdict += r.get("no_verdict", [])
    if not lean["theorems"]:
        no_verdict.append("no theorems registered for this property")
    # ---- known-finding probes: replay each recorded witness; still failing -> KNOWN-FINDING line
    for kf in known_findings_for(pid):
        still = False
        for w in kf["witness"]:
            try:
                container, ops = vlib.read_replay(ROOT / w)
                r = Runner(container, props.container_opts(container))
                res = r.run([ops])
                wd = [d for _, ds in res for d in ds if d.layer in ("L1", "L2")]
                got = witness_signature(wd)
                want = kf["sig"].get(w)
                if got and (want is None or set(got) <= set(want.split("+"))):
                    still = True
                elif got:
                    # the witness fails in a way the finding does not record: that is a new violation
                    still = still or bool(set(got) & set(want.split("+")))
                    new = [d for d in wd if f"{d.kind}@{d.line}" not in set(want.split("+"))]
                    violations.append(("known-finding-witness", container, ops, new))
            except Exception as e:
                lean["problems"].append(f"known-finding probe {kf['id']}: {str(e)[:200]}")
                no_verdict.append(f"known-finding probe {kf['id']} did not run: {str(e)[:120]}")
        if still:
            line = f"KNOWN-FINDING: property={pid} {kf['id']} {kf['what']}"
            known_lines.append(line)
            print(line, flush=True)
        else:
            known_lines.append(f"(finding {kf['id']} no longer reproduces on its recorded witness)")

    # ---- decide
    for bname, container, ops, diffs in violations[:3]:
        if not ops:
            report(container, ops, diffs, "no-failing-input-found")
            continue
        kinds = {d.kind for d in diffs}
        first = min(d.line for d in diffs)
        cut = ops[:first + 1] + ([ops[-1]] if first + 1 < len(ops) and ops[-1].startswith("destroy") else [])
        if "growth-count" in kinds or "leak" in kinds:
            cut = ops

        def pred(ds, kinds=kinds, container=container):
            return any(relevant(P, container, d) and d.layer in ("L1", "L2") and d.kind in kinds for d in ds)
        try:
            hooks = ([growth_hook(container)] if "growth-count" in kinds else []) + \
                    ([trim_hook(container)] if "trim-minimum" in kinds else [])
            small = vlib.shrink(container, cut, pred, props.container_opts(container), hooks=hooks)
            r = Runner(container, props.container_opts(container))
            r.hooks = hooks
            res = r.run([small])
            sd = [d for _, ds in res for d in ds if relevant(P, container, d)] or diffs
        except Exception:  # shrinking must never hide a violation
            small, sd = ops, diffs
        report(container, small, sd)
    if not violations:
        for bname, container, ops, diffs in fidelity[:3]:
            try:
                found = search_failing_input(P, pid, container, ops, diffs, rng, tier)
            except SearchDidNotRun as e:
                found = None
                lean["problems"].append(f"intensified search did not run: {e}")
            if found:
                report(container, found[0], found[1])
                continue
            first = min(d.line for d in diffs)
            try:
                small = vlib.shrink(container, ops[:first + 1], lambda ds: any(d.layer == "L3" for d in ds),
                                    props.container_opts(container), budget=120)
            except Exception:
                small = ops
            path = report(container, small, diffs, "no-failing-input-found")
            with open(path, "a") as f:
                f.write("# correspondence that no longer checks: concrete model of '%s' vs the C code (layer L3)\n" % container)
                f.write("# theorems about this model that are no longer tied to the code: %s\n" % ", ".join(lean["theorems"]))
        if lean.get("aux_broken") and not lean["broken"] and not fidelity:
            # only the translation tie broke: intensified search; a violation only with a failing input
            found = None
            try:
                for cspec in todo:
                    found = search_failing_input(P, pid, cspec["container"], None, [], rng, tier)
                    if found:
                        report(cspec["container"], found[0], found[1])
                        break
            except SearchDidNotRun as e:
                # no verdict from a search that did not run: the broken tie is reported as it stands
                found = True
                vlib.OUT.mkdir(parents=True, exist_ok=True)
                nrep[0] += 1
                path = vlib.OUT / f"{pid}-{nrep[0]:04d}.broken"
                with open(path, "w") as f:
                    f.write(f"# property={pid}: the translation tie no longer checks and the intensified search did not run ({e})\n")
                    for t in lean["aux_broken"]:
                        f.write(f"theorem {t}\n")
                line = f"VIOLATION property={pid} replay={path} no-failing-input-found"
                print(line, flush=True)
                printed.append(line)
            if not found:
                note = (f"NOTE property={pid}: the translation tie (theorems regenerated from the C text) no longer checks: "
                        + ", ".join(lean["aux_broken"][:6]) + (" …" if len(lean["aux_broken"]) > 6 else "")
                        + "; the correspondence tie is intact and the intensified search found no failing input")
                print(note, flush=True)
                aux_notes.append(note)
        if lean["broken"] and not fidelity:
            found = None
            try:
                for cspec in todo:
                    found = search_failing_input(P, pid, cspec["container"], None, [], rng, tier)
                    if found:
                        report(cspec["container"], found[0], found[1])
                        break
            except SearchDidNotRun as e:
                lean["problems"].append(f"intensified search did not run: {e}")
            if not found:
                vlib.OUT.mkdir(parents=True, exist_ok=True)
                nrep[0] += 1
                path = vlib.OUT / f"{pid}-{nrep[0]:04d}.broken"
                with open(path, "w") as f:
                    f.write(f"# property={pid}: proof obligations no longer check\n")
                    for t in lean["broken"]:
                        f.write(f"theorem {t}\n")
                    for p_ in lean["problems"] + lean.get("build_errors", []):
                        f.write(f"# {p_}\n")
                    f.write("# failed modules: %s\n" % ", ".join(lean.get("failed_all", [])))
                line = f"VIOLATION property={pid} replay={path} no-failing-input-found"
                print(line, flush=True)
                printed.append(line)

    # ---- thorough: independent re-check of the compiled property module
    leanchecker = None
    if tier == "thorough" and not lean["broken"]:
        mods = [".".join(f.relative_to(LEAN).with_suffix("").parts) for f in property_files(pid, P) if f.exists()]
        leanchecker = {}
        for mod in mods:
            with vlib.Lock("lake"):
                r = vlib.sh(["lake", "env", "leanchecker", mod], cwd=LEAN)
            leanchecker[mod] = "ok" if r.returncode == 0 else (r.stdout + r.stderr)[-300:]

    # ---- evidence
    wall = time.time() - t0
    obligations = len(lean["theorems"])
    discharged = len([t for t in lean["theorems"] if t not in lean["broken"] and t not in lean.get("aux_broken", [])])
    ev = dict(
        property_id=pid, tier=tier, seed=seed, level=P.get("level", "proof"),
        coverage=dict(
            obligations=obligations, discharged=discharged,
            checker_cmd="cd lean && lake build && lake env lean <file with `#print axioms T` for each theorem T of Properties/%s*.lean>" % pid
                        + ("; lake env leanchecker <module>" if leanchecker is not None else ""),
            trusted_base=props.TRUSTED_BASE + P.get("trusted_extra", []),
            theorems=lean["theorems"], axioms=lean["axioms"], statement_digests=lean["digests"],
            partial_theorems=[t for t in lean["theorems"] if "partial" in t.lower()],
            lean_problems=lean["problems"], leanchecker=leanchecker,
            translation_tie_theorems=lean.get("aux_theorems", []), translation_tie_broken=lean.get("aux_broken", []),
            translation_tie_notes=aux_notes,
            evaluations=sum(s["operations"] for s in stats),
            distinct_nontrivial=sum(s["distinct_op_status_layout"] for s in stats),
            rule="evaluations = operations executed on the real library (ASan+UBSan build of the current /repo tree) and "
                 "replayed on the Lean spec and concrete model; distinct_nontrivial = distinct (operation, status, "
                 "physical layout with element values erased) tuples observed on a live object",
            traces_validated_against_impl=sum(s["histories"] for s in stats),
            samples=all_samples[:6] or [{"note": "no correspondence stream ran", "theorems": lean["theorems"][:5]}],
            streams=stats, known_findings=known_lines, exhaustive=False,
        ),
        assumptions=P.get("assumptions", []) + props.COMMON_ASSUMPTIONS,
        wall_s=round(wall, 2), violations=len(printed),
    )
    vlib.EVID.mkdir(parents=True, exist_ok=True)
    if no_verdict and not printed:
        # part of the work this check exists for was not done (no generator, an empty stream, an operation the harness
        # does not know, a probe that did not run): that is neither "held" nor "violated"
        for nv in no_verdict[:5]:
            print(f"CHECK-ERROR property={pid}: {nv}", flush=True)
        try:
            (vlib.EVID / f"{pid}.json").unlink()
        except FileNotFoundError:
            pass
        return 2
    with open(vlib.EVID / f"{pid}.json", "w") as f:
        json.dump(ev, f, indent=1, default=str)
    return 1 if printed else 0


class SearchDidNotRun(Exception):
    """the intensified search itself failed (runner exception, driver time-out): nothing may be concluded from it"""


def search_failing_input(P, pid, container, ops, diffs, rng, tier):
    """20x the normal random budget, focused on the diverging operation when known"""
    g = gens.GENS[container]
    focus = None
    if diffs:
        focus = diffs[0].op.split()[0]
    n = (300 if tier == "quick" else 3000) * 20 // 4
    runner = Runner(container, props.container_opts(container))
    hs = g.random(rng, n, tier, focus=P.get("search_focus"))
    if ops:
        # mutations of the diverging history: vary numeric arguments around the divergence
        for _ in range(200):
            h = list(ops)
            i = rng.randrange(1, len(h)) if len(h) > 1 else 0
            h[i] = re.sub(r"\b\d+\b", lambda m: str(rng.choice([0, 1, 2, 3, int(m.group(0)) + 1, max(0, int(m.group(0)) - 1)])), h[i], count=1)
            hs.append(h)
    for lo in range(0, len(hs), 400):
        try:
            res = runner.run(hs[lo:lo + 400])
        except Exception as e:
            raise SearchDidNotRun(f"{container}: {type(e).__name__}: {str(e)[:200]}")
        for h, ds in res:
            hard = [d for d in ds if d.layer in ("L1", "L2") and relevant(P, container, d)]
            if hard:
                return hs[lo + h], hard
    return None
