"""Property-level driver: build, audit, correspondence streams, violation search, evidence."""
import json, os, random, re, sys, time
from pathlib import Path
import vlib
from vlib import ROOT, LEAN, OUT, EVID, Runner, Diff, log
import gens
import props


def lean_stage(pid, P):
    """build + forbidden tokens + axiom audit.  Returns dict(ok, broken=[names], info)"""
    res = dict(build_ok=False, broken=[], theorems=[], axioms={}, forbidden=[], problems=[], digests={})
    ok, out, failed, errs = vlib.build_lean()
    res["build_ok"] = ok
    res["failed_modules"] = failed
    res["build_errors"] = errs[:10]
    files = [LEAN / "CollectionsC" / "Properties" / f"{pid}.lean"] + [LEAN / f for f in P.get("extra_lean", [])]
    theorems = []
    for f in files:
        if f.exists():
            theorems += vlib.lean_theorems(f)
            res["digests"].update(vlib.statement_digests(f))
    theorems += P.get("extra_theorems", [])
    res["theorems"] = theorems
    res["forbidden"] = vlib.forbidden_tokens()
    if not ok:
        # which of this property's obligations are affected?  any failed module that the property
        # file imports (transitively) or the property file itself
        mods = set(failed)
        deps = lean_deps(f"CollectionsC.Properties.{pid}")
        hit = sorted(m for m in mods if m in deps)
        res["broken_modules"] = hit
        if hit or not mods:
            res["broken"] = theorems or [f"CollectionsC.Properties.{pid}"]
            if not mods:
                res["problems"].append("lake build failed without naming a module: " + "; ".join(errs[:3]))
        else:
            ok = True   # the failure is in a module this property does not depend on
    if ok and theorems:
        ax = vlib.audit_axioms(theorems)
        res["axioms"] = ax
        for t, a in ax.items():
            if a is None:
                res["broken"].append(t)
                res["problems"].append(f"theorem {t} not found in the built library")
            elif not set(a) <= vlib.ALLOWED_AXIOMS:
                res["broken"].append(t)
                res["problems"].append(f"theorem {t} depends on unexpected axioms {a}")
    if res["forbidden"]:
        res["problems"].append("forbidden tokens: " + "; ".join(res["forbidden"][:5]))
        res["broken"] = res["broken"] or theorems
    if not theorems:
        res["problems"].append("no theorems registered for this property")
    res["failed_all"] = failed
    return res


def lean_deps_file(path):
    seen = set()
    if path.exists():
        for m in re.finditer(r"^import\s+(CollectionsC\.[\w.]+)", path.read_text(), re.M):
            lean_deps(m.group(1), seen)
    return seen


def lean_deps(module, seen=None):
    """transitive CollectionsC.* imports of a module (by reading the source files)"""
    seen = seen if seen is not None else set()
    if module in seen:
        return seen
    seen.add(module)
    p = LEAN / (module.replace(".", "/") + ".lean")
    if p.exists():
        for m in re.finditer(r"^import\s+(CollectionsC\.[\w.]+)", p.read_text(), re.M):
            lean_deps(m.group(1), seen)
    return seen


def relevant(P, container, d):
    """is this difference a violation of the property being checked (L1/L2), or a fidelity break (L3)?"""
    f = P.get("relevant")
    if f:
        return f(container, d)
    if d.layer == "L3":
        return True
    return d.kind in P.get("kinds", ("obs", "crash"))


def corpus_histories(container):
    out = []
    d = ROOT / "corpus" / container
    if d.is_dir():
        for p in sorted(d.glob("*.ops")):
            _, ops = vlib.read_replay(p)
            out.append((p.name, ops))
    return out


def fault_variants(runner, hist, max_variants=None, rng=None):
    """for every operation of the history and every k up to the number of allocator calls the
    operation makes: the same history with that call refused"""
    exe = runner.exe
    out, rc, err = vlib.run_c(exe, ["reset"] + hist)
    variants = []
    for i, op in enumerate(hist):
        if i + 1 >= len(out):
            break
        mf = vlib.mem_fields(vlib.sections(out[i + 1])[2])
        if not mf or "fail=" in op:
            continue
        calls = mf["a"] + mf["r"]
        for k in range(1, calls + 1):
            variants.append(hist[:i] + [op + f" fail={k}"] + hist[i + 1:])
    if max_variants and len(variants) > max_variants and rng:
        variants = rng.sample(variants, max_variants)
    return variants


def run_check(pid, tier, seed, replay=None):
    t0 = time.time()
    P = props.PROPS[pid]
    rng = random.Random(seed * 1000003 + int(pid[1:]))
    violations = []      # (kind, container, ops, diffs)
    fidelity = []        # L3-only
    notes = []
    lean = lean_stage(pid, P)
    stats = []
    known_lines = []
    nrep = [0]
    printed = []
    all_samples = []

    def report(container, ops, diffs, suffix=""):
        nrep[0] += 1
        path = vlib.write_replay(pid, nrep[0], container, ops, diffs,
                                 {"seed": seed, "tier": tier, "note": suffix} if suffix else {"seed": seed, "tier": tier})
        line = f"VIOLATION property={pid} replay={path}" + (f" {suffix}" if suffix else "")
        print(line, flush=True)
        printed.append(line)

    if replay:
        container, ops = vlib.read_replay(replay)
        r = Runner(container, props.container_opts(container))
        res = r.run([ops])
        bad = [d for _, ds in res for d in ds if relevant(P, container, d)]
        for d in bad:
            print(d)
        if bad:
            print(f"VIOLATION property={pid} replay={replay}")
            return 1
        print("replay: no difference")
        return 0

    def driver_ok(container):
        bad = {f"Mains.{container}", f"driver_{container}"} | {m for m in lean["failed_all"] if m in lean_deps_file(LEAN / "Mains" / f"{container}.lean")}
        return vlib.driver_path(container).exists() and not (bad & set(lean["failed_all"]))
    lean["driver_ok"] = all(driver_ok(c["container"]) for c in P["streams"])
    if True:
        for cspec in P["streams"]:
            container = cspec["container"]
            if not driver_ok(container):
                notes.append(f"lean driver for {container} did not build; its correspondence cannot run")
                lean["problems"].append(f"lean driver for {container} did not build")
                if not lean["broken"]:
                    lean["broken"] = lean["theorems"] or [f"driver_{container}"]
                continue
            g = gens.GENS[container]
            opts = props.container_opts(container)
            try:
                runner = Runner(container, opts)
            except RuntimeError as e:
                lean["problems"].append(str(e)[:500])
                violations.append(("harness-build", container, [], [Diff("build", 0, 0, "", str(e)[:300], "L2")]))
                continue
            batches = []
            corp = corpus_histories(container)
            if corp:
                batches.append(("corpus", [ops for _, ops in corp]))
            focus = cspec.get("focus")
            if cspec.get("small", True):
                batches.append(("small-scope", g.small_scope(tier, focus=focus)))
            n = cspec.get("n_quick", 300) if tier == "quick" else cspec.get("n_thorough", 6000)
            batches.append(("random", g.random(rng, n, tier, focus=focus)))
            if cspec.get("faults", False):
                base = g.random(rng, cspec.get("fault_hist_quick", 25) if tier == "quick" else cspec.get("fault_hist_thorough", 300), tier, focus=focus)
                if hasattr(g, "fault_seeds"):
                    base = g.fault_seeds(tier) + base
                fv = []
                for h in base:
                    fv.extend(fault_variants(runner, h, 60 if tier == "quick" else 400, rng))
                batches.append(("fault-enumeration", fv))
            for bname, hs in batches:
                if not hs:
                    continue
                CH = 400
                for lo in range(0, len(hs), CH):
                    chunk = hs[lo:lo + CH]
                    try:
                        res = runner.run(chunk)
                    except RuntimeError as e:
                        lean["problems"].append(str(e)[:300])
                        res = []
                    for h, diffs in res:
                        rel = [d for d in diffs if relevant(P, container, d)]
                        hard = [d for d in rel if d.layer in ("L1", "L2")]
                        soft = [d for d in rel if d.layer == "L3"]
                        if hard:
                            if len([v for v in violations if v[1] == container]) < 3:
                                violations.append((bname, container, chunk[h], hard))
                        elif soft:
                            if len([v for v in fidelity if v[1] == container]) < 3:
                                fidelity.append((bname, container, chunk[h], soft))
            stats.append(dict(runner.stats(), streams=[(b, len(h)) for b, h in batches]))
            all_samples.extend(runner.samples)
        # ---- known-finding probes
        for kf in P.get("known_findings", []):
            line = kf(P)
            if line:
                known_lines.append(line)
                print(line, flush=True)

    # ---- decide
    for bname, container, ops, diffs in violations:
        if not ops:
            report(container, ops, diffs, "harness-build-failed no-failing-input-found")
            continue
        kinds = {d.kind for d in diffs}
        first = min(d.line for d in diffs)
        cut = ops[:first + 1] + ([ops[-1]] if first + 1 < len(ops) and ops[-1].startswith("destroy") else [])
        def pred(ds, kinds=kinds, container=container):
            return any(relevant(P, container, d) and d.layer in ("L1", "L2") and d.kind in kinds for d in ds)
        try:
            small = vlib.shrink(container, cut, pred, props.container_opts(container))
            r = Runner(container, props.container_opts(container))
            res = r.run([small])
            sd = [d for _, ds in res for d in ds if relevant(P, container, d)] or diffs
        except Exception as e:  # shrinking must never hide a violation
            small, sd = ops, diffs
        report(container, small, sd)
    if not violations:
        # fidelity breaks and broken obligations: search for a failing input, else report without one
        for bname, container, ops, diffs in fidelity:
            found = search_failing_input(P, pid, container, ops, diffs, rng, tier)
            if found:
                report(container, found[0], found[1])
            else:
                first = min(d.line for d in diffs)
                def pred3(ds, container=container):
                    return any(d.layer == "L3" for d in ds)
                try:
                    small = vlib.shrink(container, ops[:first + 1], pred3, props.container_opts(container), budget=150)
                except Exception:
                    small = ops
                thms = [t for t in lean["theorems"]]
                report(container, small, diffs,
                       "no-failing-input-found")
                with open(OUT / f"{pid}-{nrep[0]:04d}.ops", "a") as f:
                    f.write("# correspondence that no longer checks: model of container '%s' (layer L3)\n" % container)
                    f.write("# theorems that describe this model and are no longer tied to the code: %s\n" % ", ".join(thms))
        if lean["broken"] and not fidelity:
            # a proof obligation broke; search with a larger budget
            found = None
            for cspec in P["streams"] if lean["driver_ok"] else []:
                found = search_failing_input(P, pid, cspec["container"], None, [], rng, tier)
                if found:
                    report(cspec["container"], found[0], found[1])
                    break
            if not found:
                OUT.mkdir(parents=True, exist_ok=True)
                nrep[0] += 1
                path = OUT / f"{pid}-{nrep[0]:04d}.broken"
                with open(path, "w") as f:
                    f.write(f"# property={pid}: proof obligations no longer check\n")
                    for t in lean["broken"]:
                        f.write(f"theorem {t}\n")
                    for p_ in lean["problems"] + lean.get("build_errors", []):
                        f.write(f"# {p_}\n")
                    f.write("# failed modules: %s\n" % ", ".join(lean.get("failed_modules", [])))
                line = f"VIOLATION property={pid} replay={path} no-failing-input-found"
                print(line, flush=True)
                printed.append(line)

    # ---- evidence
    wall = time.time() - t0
    obligations = len(lean["theorems"])
    discharged = len([t for t in lean["theorems"] if t not in lean["broken"]])
    evals = sum(s["operations"] for s in stats)
    distinct = sum(s["distinct_op_status_layout"] for s in stats)
    ev = dict(
        property_id=pid, tier=tier, seed=seed, level=P.get("level", "proof"),
        coverage=dict(
            obligations=obligations, discharged=discharged,
            checker_cmd="cd lean && lake build && lake env lean <audit file with `#print axioms` for each theorem>",
            trusted_base=props.TRUSTED_BASE + P.get("trusted_extra", []),
            theorems=lean["theorems"], axioms=lean["axioms"], statement_digests=lean["digests"],
            lean_problems=lean["problems"],
            evaluations=evals, distinct_nontrivial=distinct,
            rule="evaluations = operations executed on the real library (ASan+UBSan build of the current /repo tree) and "
                 "replayed on the Lean spec and concrete model; distinct_nontrivial = distinct (operation, status, "
                 "physical layout with element values erased) tuples observed on a live object",
            traces_validated_against_impl=sum(s["histories"] for s in stats),
            samples=all_samples[:4] or [{"note": "no correspondence stream ran", "theorems": lean["theorems"][:5]}],
            streams=stats, known_findings=known_lines,
            exhaustive=False,
        ),
        assumptions=P.get("assumptions", []) + props.COMMON_ASSUMPTIONS,
        wall_s=round(wall, 2), violations=len(printed),
    )
    EVID.mkdir(parents=True, exist_ok=True)
    with open(EVID / f"{pid}.json", "w") as f:
        json.dump(ev, f, indent=1, default=str)
    return 1 if printed else 0


def search_failing_input(P, pid, container, ops, diffs, rng, tier):
    """20x the normal random budget, focused on the diverging operation when known"""
    g = gens.GENS[container]
    focus = None
    if diffs:
        focus = diffs[0].op.split()[0]
    n = (300 if tier == "quick" else 3000) * 20 // 4
    runner = Runner(container, props.container_opts(container))
    hs = g.random(rng, n, tier, focus=P.get("search_focus"))
    if ops:
        # mutations of the diverging history: vary numeric arguments around the divergence
        for _ in range(200):
            h = list(ops)
            i = rng.randrange(1, len(h)) if len(h) > 1 else 0
            h[i] = re.sub(r"\b\d+\b", lambda m: str(rng.choice([0, 1, 2, 3, int(m.group(0)) + 1, max(0, int(m.group(0)) - 1)])), h[i], count=1)
            hs.append(h)
    for lo in range(0, len(hs), 400):
        for h, ds in runner.run(hs[lo:lo + 400]):
            hard = [d for d in ds if d.layer in ("L1", "L2") and relevant(P, container, d)]
            if hard:
                return hs[lo + h], hard
    return None
