"""Per-property configuration: which containers' correspondence streams run (and with which
generator focus), which differences count as a violation of that property, which Lean files hold
its theorems, and the texts that go into MANIFEST.json."""
import re

TRUSTED_BASE = [
    "Lean 4.33.0 kernel (axioms per theorem listed under coverage.axioms; only propext, Classical.choice, Quot.sound accepted)",
    "hand-written concrete models in lean/CollectionsC/Model tied to /repo by the correspondence check (tools/, harness/)",
    "harness shims print the library's private state honestly; Lean driver parser; differ",
    "tools/gen_constants.py (numeric macros evaluated by gcc, heap index macros translated)",
    "gcc, glibc (memcpy/memmove/qsort/strcmp), ASan/UBSan runtime",
]
COMMON_ASSUMPTIONS = [
    "user callbacks (comparators, hashes, predicates, copy functions) satisfy their documented contracts",
    "the configured allocator returns disjoint blocks or NULL",
]

SEQ = ["array", "array_sized", "deque", "list", "slist", "stack", "queue"]
MAPS = ["hashtable", "hashset", "treetable", "treeset", "tsttable"]
ALL = SEQ + MAPS + ["pqueue", "rbuf", "spool", "dpool"]
MULTI = {"list", "slist", "array", "array_sized", "deque", "hashtable", "stack", "queue", "hashset", "treeset", "treetable", "tsttable"}


def container_opts(container):
    # multi: several objects may live in one session, so `live != 0` after one `destroy` is not a leak
    return {"multi": container in MULTI}


CONTENT_KINDS = ("obs", "crash", "walker")

ERR_ST = re.compile(r"\bst=(2|3|4|6|7|8|rej)\b")


def rel_content(container, d):
    return d.layer == "L3" or d.kind in CONTENT_KINDS


def rel_pool(container, d):
    """C12/C13: content plus "reset and destroy release every page exactly once" (ledger errors, leaks)"""
    return d.layer == "L3" or d.kind in CONTENT_KINDS + ("ledger", "leak")


def rel_c06(container, d):
    if d.layer == "L3":
        return True
    if d.kind in ("crash", "ledger", "leak", "walker"):
        return True
    if d.kind == "obs":      # callbacks hand each held element over exactly once
        m = re.findall(r"cb=\[[^\]]*\]", d.detail)
        return len(m) == 2 and m[0] != m[1]
    return False


def rel_c08(container, d):
    if d.layer == "L3":
        return True
    return d.kind in ("refusal-swallowed", "spurious-alloc-error", "leak", "ledger", "obs", "crash", "walker")


def rel_c14(container, d):
    if d.layer == "L3":
        return d.kind == "model-mem"
    return d.kind in ("libc-alloc", "ledger", "obs", "crash")


def rel_c16(container, d):
    if d.layer == "L3":
        return True
    if d.kind == "crash":
        return True
    return d.kind == "obs" and bool(ERR_ST.search(d.detail))


def rel_c20(container, d):
    if d.layer == "L3":
        return d.kind in ("model-phys", "model-mem")
    if d.kind == "obs":     # "trimming ... without ever dropping below the element count or changing contents"
        return (d.op or "").split()[:1] in (["trim"], ["trim_capacity"])
    return d.kind in ("absurd-request", "walker", "growth-count", "trim-minimum", "crash")


def S(container, **kw):
    d = dict(container=container)
    d.update(kw)
    return d


LN = ("Trusted: Lean kernel; the hand-written models (lean/CollectionsC/Model) and their tie to /repo, which is "
      "re-established on every run by the differential correspondence (real library under ASan+UBSan vs Lean spec vs Lean "
      "model, string-identical physical state and allocator events); shims, generators, differ; gcc/glibc. ")

def T(what):
    return ("Lean 4 theorems (no sorry, axioms audited on every run) over a hand-written executable model that mirrors the C "
            "code statement by statement: " + what + " The model is tied to the current /repo sources on every run by the "
            "differential correspondence check (real library under ASan+UBSan vs abstract spec vs concrete model).")


PROPS = {
    "C01": dict(
        streams=[S("array", n_quick=625), S("array_sized", n_quick=625)],
        relevant=rel_content,
        level_text=T("invariant preservation and refinement of every array / sized-array operation to an ideal list, for all histories, indices, element values, capacities >= 1 and growth functions."),
        level_note=LN + "Float growth enters the theorems as an arbitrary function `grow`; qsort is a parameter with its assumed spec.",
    ),
    "C02": dict(
        streams=[S("hashtable", n_quick=625), S("hashset", n_quick=375)],
        relevant=rel_content,
        level_text=T("the bucket-array model with cached hashes refines an ideal map for every hash function (parameter), every capacity/threshold function, including the NULL key; resize preserves the abstraction."),
        level_note=LN + "The library's own hash functions (djb2/Murmur) are transcribed in the Lean driver, so bucket layouts are compared at L3 as well; the theorems quantify over an arbitrary hash function and use no property of that arithmetic.",
    ),
    "C03": dict(
        streams=[S("treetable", n_quick=625), S("treeset", n_quick=375)],
        relevant=rel_content,
        level_text=T("the coloured-tree model (CLRS case analysis as structural recursion, same shapes and colours as the C heap) refines an ordered map for every total-order comparator."),
        level_note=LN + "The refinement theorems are about the inductive coloured tree. A second, pointer-level model (Model/PTree.lean: a heap of nodes with parent/left/right/color fields; Properties/C03PTree.lean) proves that rotations, transplant, the min/max/successor/predecessor walks and the insert fix-up loop commute with the inductive tree including all parent pointers; cc_treetable_add and remove_node with both fix-up loops are proved end to end (add_wf, remove_node_wf, reachable_states_good) and the pointer-level model is proved to return exactly the ordered-map specification's statuses and out-values for whole histories under every refusal schedule (phistory_refines_ordmap; treeset: set_phistory_refines); both models are executed by the driver and compared with the C heap at L3 (node ids, parent ids). Not in the pointer-level model: the last frees of destroy (header, sentinel). The shim additionally walks parent pointers, colours and black heights on the real heap.",
    ),
    "C04": dict(
        streams=[S("list", n_quick=625), S("slist", n_quick=625)],
        relevant=rel_content,
        level_text=T("node-sequence-plus-bookkeeping models of both lists refine an ideal sequence incl. add_all/splice on two lists; pointer-level models (heaps of nodes with raw next/prev: Model/PList.lean, Model/PSList.lean) refine those, and backward traversal is proved to be the mirror of the forward one as a theorem about the links (C04PList.mirror)."),
        level_note=LN + "Raw next/prev links are model state for every operation (incl. filter_mut, sorts, builders, the doubly linked list's zip mutators) and compared node by node with the C heap at L3 (id:data:prev:next); no operation is left at sequence level; whole-program iterator theorems at pointer level exist for both lists (zip programs over two lists only per call). The shim additionally walks the links on the real heap after every operation (WALK tokens).",
    ),
    "C05": dict(
        streams=[S("deque", n_quick=750)],
        relevant=rel_content,
        level_text=T("the ring-buffer model of the deque (memmove by memmove) refines an ideal list in every (capacity, first, size) layout, for every index; partial on the known finding D3 (add_at front half), for which a negation theorem exhibits the failure."),
        level_note=LN + "Known finding D3 is excluded by an explicit hypothesis in the add_at theorems (_partial) and in the generator (d3_excluded; d3_risky_under_fault in streams that are run with refusals); the differ additionally judges D3 on the real state (d3_taint_hook: after a successful front-half insertion, read from the C side's own size and cursor, L1 content differences of that history belong to the finding); its witnesses are replayed on every run and pinned by a signature.",
    ),
    "C06": dict(
        streams=[S(c, focus="all", n_quick=150, small=False, valgrind=True, coverage=True, plain_pass=True) for c in ALL],
        relevant=rel_c06,
        level_text=T("for the buffer containers no reachable state makes a checked access fault (every slot index below the allocated slot count, no modulo by zero); for every container the ledger theorems show destroy releases every owned block exactly once.") + " One theorem is _partial on the known finding X5 (C06TST.remove_frees_entry_partial, key != empty). Partial by nature: use-after-free, uninitialised reads and pointer-level double frees in linked structures are runtime behaviour the models cannot exhibit; they are observed on sampled histories under ASan/UBSan (and valgrind in the thorough tier) with two allocation ledgers.",
        level_note=LN + "Memory errors at the C level are observed, not proved. Known findings printed by this check: splice between lists on different allocators (KF-splice-across-allocators) and zip iterators over one and the same linked list (KF-list-zip-same-list: use-after-free / leak); both are kept out of the generators by one named predicate each and replayed from their witnesses on every run.",
    ),
    "C07": dict(
        streams=[S(c, focus="iter", n_quick=300) for c in ["array", "array_sized", "deque", "list", "slist", "hashtable", "hashset", "treetable", "treeset", "tsttable", "queue", "stack"]],
        relevant=rel_content,
        level_text=T("iterator cursors are part of the models; theorems relate next/remove/add/replace to an ideal cursor over the abstract sequence (complete, in order, one-step mutation affects exactly the yielded position)."),
        level_note=LN + "The program theorems quantify over all iterator programs, not only contract-respecting ones, and the generators emit repeated mutators after one next; the only exclusions are the contract violations that dereference NULL (list/slist iter_add with no current element, tree iter_remove before the first next) and the known finding KF-list-zip-same-list (zip iterator over one and the same linked list, predicate zip_same_list_excluded). Nine theorems are _partial: six in C07Deque on the known finding D3 (iter_add/zip_iter_add at front-half positions) and three in C07TST on X5 (empty key); their witnesses are replayed on every run.",
    ),
    "C08": dict(
        streams=[S(c, focus="fault", n_quick=100, small=False, faults=True, coverage=True) for c in ["array", "array_sized", "pqueue", "deque", "list", "slist", "hashtable", "hashset", "treetable", "treeset", "tsttable", "queue", "stack", "rbuf", "dpool"]],
        relevant=rel_c08,
        level_text=T("for every refusal schedule a refused allocation yields the allocation-error status, leaves the abstraction unchanged and the ledger consistent (atomicity conjunct of each step theorem).") + " The run enumerates, for every operation of sampled histories, the allocator calls of that operation as the one that is refused (at most 40 refusal points per history in the quick tier, 300 in thorough, sampled at random when there are more).",
        level_note=LN + "One theorem is _partial on the known finding D3 (C08Deque.continue_refines_partial).",
    ),
    "C09": dict(
        streams=[S("stack", n_quick=750), S("queue", n_quick=750)],
        relevant=rel_content,
        level_text=T("stack = array model (push=add, pop=remove_last), queue = deque model (enqueue=add_first, poll=remove_last); LIFO/FIFO statements are corollaries of the array and deque refinement theorems."),
        level_note=LN,
    ),
    "C10": dict(
        streams=[S("pqueue", n_quick=1000)],
        relevant=rel_content,
        level_text=T("heap invariant preserved by push/pop for every total preorder; top/pop return a maximal element; multiset conservation (List.Perm); index macros are regenerated from the C source on every run."),
        level_note=LN,
    ),
    "C11": dict(
        streams=[S("tsttable", n_quick=750)],
        relevant=rel_content,
        level_text=T("the ternary-tree model refines an ideal string-keyed map for non-empty keys; partial on the known finding X5 (empty key aliases the root), with a negation theorem."),
        level_note=LN + "A pointer-level model (Model/PTST.lean: nodes with left/mid/right/parent ids) is proved to refine the inductive trie for whole histories under every refusal schedule (C11PTST.phistory_refines, phistory_ledger, piter_program_refines) and is executed alongside, so node identity and parent links are compared with the C heap at L3. Theorems that need the key to be non-empty carry the X5 exclusion and are named _partial.",
    ),
    "C12": dict(
        streams=[S("spool", n_quick=1000)],
        relevant=rel_pool,
        level_text=T("offset model of the static pool refines a block ledger: containment, disjointness, zeroing, exact accounting, single-slot roll-back, reset."),
        level_note=LN,
    ),
    "C13": dict(
        streams=[S("dpool", n_quick=1000)],
        relevant=rel_pool,
        level_text=T("page-list model of the dynamic pool: blocks in-page and disjoint, fixed pools bounded, expansion leaves older pages untouched, relative alignment in padded mode, reset/destroy release every page once; known finding M6 (absolute alignment above 16)."),
        level_note=LN,
    ),
    "C14": dict(
        streams=[S(c, focus="all", n_quick=125, small=False, alloc_modes=True, coverage=True, plain_pass=True) for c in SEQ + MAPS + ["pqueue", "rbuf"]],
        relevant=rel_c14,
        level_text=T("every container state records the allocator triple it was built with (configured or C library), every allocation and release of every model operation goes through that triple (two separately counted ledgers), derived containers and wrapped inner containers inherit it exactly where the C code copies the three function pointers; outputs and states depend on the ledger only through the refusal schedule.") + " Because this is a property of which function the C text calls, the weight is on the tie: every operation runs with two ledgers armed (configured / libc via linker --wrap) and half of the random histories are re-run on a static and on a dynamic pool of the library itself.",
        level_note=LN + "The model's Triple tells the configured allocator from the C library's but not two different configured allocators (the harness does: one ledger per triple, cross-triple frees reported). 'Sufficiently large pool' is proved in two halves (C14Pools pool side, allocator_independent container side) composed informally. Known finding printed by this check: splice between lists on different allocators (hypothesis Compat in the splice theorems).",
    ),
    "C15": dict(
        streams=[S(c, focus="derived", n_quick=375) for c in ["array", "array_sized", "deque", "list", "slist", "hashtable", "stack"]],
        relevant=rel_content,
        level_text=T("derived containers (copies, sub-ranges, filters, key/value snapshots) have exactly the selected content, satisfy the invariant with the source's configuration (so they can grow), and leave the source unchanged."),
        level_note=LN + "Independence (no aliasing between source and result) is checked on the real heap by running further operations on both and destroying one.",
    ),
    "C16": dict(
        streams=[S(c, focus="reject", n_quick=375) for c in ["array", "array_sized", "deque", "list", "slist", "treetable", "hashtable", "tsttable", "pqueue", "rbuf", "stack", "queue"]],
        relevant=rel_c16,
        level_text=T("per operation: an error status other than ALLOC leaves the whole physical state unchanged, and every argument outside the documented range is rejected, for all arguments in the size_t domain.") + " The argument guards of 31 indexed functions are additionally translated from the C text into Lean on every run (tools/gen_guards.py) and proved equal to the models' guards, so an edited guard breaks a proof obligation at build time.",
        level_note=LN + "Two theorems are _partial on the known finding X5 (C16TST: TST operations with the empty-string key).",
    ),
    "C17": dict(
        streams=[S("treetable", n_quick=750)],
        relevant=rel_content,
        level_text=T("red-black invariant preserved; height <= 2*log2(n+1); comparator-call counts of the descent functions bounded by 2*floor(log2(n+1))+2.") + " The shim counts real comparator calls per public call and recomputes the red-black rules on the C heap after every operation.",
        level_note=LN,
    ),
    "C18": dict(
        streams=[S(c, focus="sort", n_quick=500) for c in ["array", "array_sized", "list", "slist"]],
        relevant=rel_content,
        level_text=T("cc_list_sort_in_place (merge sort) yields a stable sorted permutation for every total preorder; qsort-based sorts are proofs relative to the assumed qsort spec (sorted permutation)."),
        level_note=LN + "libc qsort is trusted (parameter sortFn).",
    ),
    "C20": dict(
        streams=[S(c, focus="growth", n_quick=150, growth_count=True) for c in ["array", "array_sized", "pqueue", "deque", "hashtable", "stack", "queue"]],
        relevant=rel_c20, extra_lean=["CollectionsC/Proofs/Growth.lean"],
        level_text=T("size <= capacity and power-of-two capacities are part of each invariant; the number of reallocations during n appends is at most log2(size+n)+1 whenever a growth step at least doubles the capacity (default factor, deque, hash table); for the pointer array also a bound for every factor >= 1+1/k.") + " The run counts real buffer allocations per append through the ledger and compares them with the bound for the configured factor.",
        level_note=LN + "Factors below 2 that are not of the form covered by appends_realloc_geometric (>= 1+1/k, pointer array, sized array, pqueue) are measured by the run's allocation count, not proved; float rounding of the growth step enters the models as a parameter. The run also checks the capacity after every successful trim against the documented minimum.",
    ),
    "C19": dict(
        streams=[S("rbuf", n_quick=1000, n_thorough=20000)],
        relevant=rel_content,
        level_text="Refinement theorems in Lean 4: the concrete ring-buffer model (same fields and statements as cc_ring_buffer.c) preserves its invariant and refines a bounded FIFO that drops exactly the oldest item, for every capacity >= 1, every item value and every enqueue/dequeue history; the model is tied to the code by the differential correspondence on every run.",
        level_note=LN + "Capacities other than 10 are set through the shim because the conf struct is opaque.",
        assumptions=["capacity >= 1 (the public API only offers the default capacity 10; other capacities are set through the shim)"],
    ),
}

NOT_APPLICABLE = {}

# properties configured above but not yet registered in MANIFEST.json (work in progress)
HOLD = set()
