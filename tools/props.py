"""Per-property configuration: which containers' correspondence streams run, which differences
count as a violation of that property, which Lean file holds its theorems."""

TRUSTED_BASE = [
    "Lean 4.33.0 kernel (axioms per theorem listed under coverage.axioms; only propext, Classical.choice, Quot.sound accepted)",
    "hand-written concrete models in lean/CollectionsC/Model tied to /repo by the correspondence check (tools/, harness/)",
    "harness shims print the library's private state honestly; Lean driver parser; differ",
    "tools/gen_constants.py (numeric macros evaluated by gcc, heap index macros translated)",
    "gcc, glibc (memcpy/memmove/qsort/strcmp), ASan/UBSan runtime",
]
COMMON_ASSUMPTIONS = [
    "user callbacks (comparators, hashes, predicates, copy functions) satisfy their documented contracts",
    "the configured allocator returns disjoint blocks or NULL",
]


def container_opts(container):
    return {"multi": container in MULTI}


MULTI = set()

PROPS = {
    "C19": dict(
        streams=[dict(container="rbuf", n_quick=400, n_thorough=20000, faults=False)],
        kinds=("obs", "crash", "walker"),
        level="proof",
        level_text="Refinement theorems in Lean 4: the concrete ring-buffer model (same fields and statements as cc_ring_buffer.c) preserves its invariant and refines a bounded FIFO that drops exactly the oldest item, for every capacity >= 1, every item value and every enqueue/dequeue history; the model is tied to the code by the differential correspondence on every run.",
        level_note="Trusted: Lean kernel, the hand-written model, the correspondence harness (shim prints private state; capacities other than 10 are set through the shim because the conf struct is opaque).",
        assumptions=["capacity >= 1 (the public API only offers the default capacity 10; other capacities are set through the shim)"],
    ),
}

NOT_APPLICABLE = {}
