"""Per-property configuration: which containers' correspondence streams run (and with which
generator focus), which differences count as a violation of that property, which Lean files hold
its theorems, and the texts that go into MANIFEST.json."""
import re

TRUSTED_BASE = [
    "Lean 4.33.0 kernel (axioms per theorem listed under coverage.axioms; only propext, Classical.choice, Quot.sound accepted)",
    "hand-written concrete models in lean/CollectionsC/Model tied to /repo by the correspondence check (tools/, harness/)",
    "harness shims print the library's private state honestly; Lean driver parser; differ",
    "tools/gen_constants.py (numeric macros evaluated by gcc, heap index macros translated)",
    "gcc, glibc (memcpy/memmove/qsort/strcmp), ASan/UBSan runtime",
]
COMMON_ASSUMPTIONS = [
    "user callbacks (comparators, hashes, predicates, copy functions) satisfy their documented contracts",
    "the configured allocator returns disjoint blocks or NULL",
]

SEQ = ["array", "array_sized", "deque", "list", "slist", "stack", "queue"]
MAPS = ["hashtable", "hashset", "treetable", "treeset", "tsttable"]
ALL = SEQ + MAPS + ["pqueue", "rbuf", "spool", "dpool"]
MULTI = {"list", "slist", "array", "array_sized", "deque", "hashtable", "stack", "queue", "hashset", "treeset", "treetable", "tsttable"}


def container_opts(container):
    # multi: several objects may live in one session, so `live != 0` after one `destroy` is not a leak
    return {"multi": container in MULTI}


CONTENT_KINDS = ("obs", "crash", "walker")

ERR_ST = re.compile(r"\bst=(2|3|6|7|8|rej)\b")


def rel_content(container, d):
    return d.layer == "L3" or d.kind in CONTENT_KINDS


def rel_c06(container, d):
    if d.layer == "L3":
        return True
    if d.kind in ("crash", "ledger", "leak", "walker"):
        return True
    if d.kind == "obs":      # callbacks hand each held element over exactly once
        m = re.findall(r"cb=\[[^\]]*\]", d.detail)
        return len(m) == 2 and m[0] != m[1]
    return False


def rel_c08(container, d):
    if d.layer == "L3":
        return True
    return d.kind in ("refusal-swallowed", "spurious-alloc-error", "leak", "ledger", "obs", "crash")


def rel_c14(container, d):
    if d.layer == "L3":
        return d.kind == "model-mem"
    return d.kind in ("libc-alloc", "ledger", "obs", "crash")


def rel_c16(container, d):
    if d.layer == "L3":
        return True
    if d.kind == "crash":
        return True
    return d.kind == "obs" and bool(ERR_ST.search(d.detail))


def rel_c20(container, d):
    if d.layer == "L3":
        return d.kind in ("model-phys", "model-mem")
    return d.kind in ("absurd-request", "walker", "growth-count", "crash")


def S(container, **kw):
    d = dict(container=container)
    d.update(kw)
    return d


LN = ("Trusted: Lean kernel; the hand-written models (lean/CollectionsC/Model) and their tie to /repo, which is "
      "re-established on every run by the differential correspondence (real library under ASan+UBSan vs Lean spec vs Lean "
      "model, string-identical physical state and allocator events); shims, generators, differ; gcc/glibc. ")

PROPS = {
    "C19": dict(
        streams=[S("rbuf", n_quick=400, n_thorough=20000)],
        relevant=rel_content,
        level_text="Refinement theorems in Lean 4: the concrete ring-buffer model (same fields and statements as cc_ring_buffer.c) preserves its invariant and refines a bounded FIFO that drops exactly the oldest item, for every capacity >= 1, every item value and every enqueue/dequeue history; the model is tied to the code by the differential correspondence on every run.",
        level_note=LN + "Capacities other than 10 are set through the shim because the conf struct is opaque.",
        assumptions=["capacity >= 1 (the public API only offers the default capacity 10; other capacities are set through the shim)"],
    ),
}

NOT_APPLICABLE = {}
