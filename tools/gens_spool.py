"""History generator for the static pool (container `spool`, property C12).

Protocol:  new size=N off=K | malloc n | calloc count size | free idx=k | free off=a | free |
           pool_reset | destroy
`free idx=k` gives back the k-th allocation result of the history (NULL results count), `free off=a`
the address region+a, a bare `free` the NULL pointer.

calloc(count, size) with a product that does not fit in size_t is included (the library answers
NULL since the overflow guard was added; corpus/spool/calloc_overflow.ops).

Sparse observation mode: `obs=sparse` on the constructor line suppresses the content sweep after every
operation (a third of the histories of every focus); `observe` prints it on demand.

Layouts: `layout=tight hdr=8|0` on the constructor line (half of the histories of every stream) puts the
header buffer -- exactly cc_static_pool_struct_size() bytes at an address = hdr (mod 16) -- and the
data buffer into ONE block, the data buffer immediately behind the header (with odd `off=` values too).
`giant=1` (scale stream) makes the region 5-9 GiB of reserved, never touched address space: requests
and used counts beyond 2^32; those histories only malloc / free / pool_reset (never calloc).
"""
import itertools

SIZE_MAX = 2**64 - 1


class Sim:
    """just enough of the pool to aim requests at the interesting sizes"""

    def __init__(self, size):
        self.size, self.free, self.high, self.n = size, 0, 0, 0

    def alloc(self, n):
        self.n += 1
        if n > self.size - self.free:
            return
        self.high = self.free
        self.free += n

    def release_off(self, off):
        if off == self.high:
            self.free = self.high

    def reset(self):
        self.free = self.high = 0


def sparsify(hist, step):
    """the same history in sparse observation mode: obs=sparse on the constructor, an `observe`
    every `step` operations and one before the destructor"""
    out = [hist[0] + " obs=sparse"]
    body, last = hist[1:], []
    if body and body[-1].split()[0].startswith("destroy"):
        body, last = body[:-1], [hist[-1]]
    for i, op in enumerate(body, 1):
        out.append(op)
        if i % step == 0:
            out.append("observe")
    return out + ["observe"] + last


def mix_sparse(hists, rng=None):
    """roughly a third of the histories in sparse mode"""
    out = []
    for i, h in enumerate(hists):
        if (rng.random() < 1 / 3) if rng is not None else (i % 3 == 1):
            out.append(sparsify(h, rng.randint(5, 15) if rng is not None else 5 + i % 11))
        else:
            out.append(h)
    return out


def mix_layout(hists, rng=None):
    """half of the histories in the tight layout, header at 8 or 0 (mod 16)"""
    out = []
    for i, h in enumerate(hists):
        k = rng.randrange(4) if rng is not None else i % 4
        if k == 0 and "giant=" not in h[0]:
            h = [h[0] + " layout=tight hdr=8"] + h[1:]
        elif k == 2 and "giant=" not in h[0]:
            h = [h[0] + " layout=tight hdr=0"] + h[1:]
        out.append(h)
    return out


GiB = 2**30


def giant_histories(rng, count):
    """pools of 5-9 GiB over reserved address space: malloc / free / pool_reset only"""
    out = []
    for k in range(count):
        N = rng.choice([5, 6, 8, 9]) * GiB + rng.choice([0, 0, 1, -1, 4095])
        off = rng.choice([0, 1, 8, 4096])
        sim = Sim(N)
        ops = [f"new size={N} off={off} giant=1"]
        # first get the used count to 2^32 or beyond in one or a few steps
        lead = rng.choice([[2**32], [2**32 + 1], [2**32 - 1, 1], [2**31, 2**31], [2**31, 2**31, 1], [3 * GiB, GiB], [2**32 + 5]])
        for sz in lead:
            ops.append(f"malloc {sz}"); sim.alloc(sz)
        for i in range(rng.randint(10, 40)):
            remaining = N - sim.free
            r = rng.random()
            if r < 0.6:
                sz = rng.choice([0, 1, 8, GiB, GiB + 1, 2**31, 2**32, 2**32 + 1, remaining, remaining + 1,
                                 max(remaining - 1, 0), max(remaining - 2**32, 0), N, N - 2**32, N - 2**32 + 1,
                                 2**32 - sim.free % 2**32, 2**63, SIZE_MAX])
                ops.append(f"malloc {sz}"); sim.alloc(sz)
            elif r < 0.8:
                a = rng.choice([sim.high, sim.high, sim.high % 2**32, sim.free, 0])
                ops.append(f"free off={a}"); sim.release_off(a)
            elif r < 0.9 and sim.n:
                ops.append(f"free idx={sim.n - 1}")
                ops.append(f"free off={sim.high}"); sim.release_off(sim.high)
            else:
                ops.append("pool_reset"); sim.reset()
                if rng.random() < 0.7:
                    sz = rng.choice(lead + [N, N - 1])
                    ops.append(f"malloc {sz}"); sim.alloc(sz)
        ops.append("destroy")
        out.append(ops)
    return out


class SpoolGen:
    name = "spool"

    def small_scope(self, tier, focus=None):
        return mix_sparse(mix_layout(self._small_scope(tier, focus)))

    def random(self, rng, n, tier, focus=None):
        return mix_sparse(mix_layout(self._random(rng, n, tier, focus), rng), rng)

    def scale(self, rng, tier):
        return mix_layout(self._scale(rng, tier), rng) + mix_sparse(giant_histories(rng, 6 if tier == "quick" else 40), rng)

    def _scale(self, rng, tier):
        """few LONG histories: thousands of malloc/calloc/free(roll-back)/reset cycles on pools of a few
        hundred to a few thousand bytes, mixed sizes incl. 0 and exact fit; sparse observation, the region
        printed as a checksum (`phys=quiet`), `observe` every few hundred operations"""
        out = []
        for k in range(4 if tier == "quick" else 24):
            N = rng.choice([64, 255, 256, 257, 1000, 1024] + ([4100] if tier != "quick" else []))
            off = rng.choice([0, 1, 3, 8])
            sim = Sim(N)
            ops = [f"new size={N} off={off} obs=sparse phys=quiet"]
            nops = rng.randint(1500, 2500)
            style = rng.choice(["stack", "fill-reset", "mixed"])
            for i in range(nops):
                remaining = N - sim.free
                r = rng.random()
                if style == "stack":
                    # allocate, roll the newest back, allocate again: the roll-back slot over and over
                    if r < 0.45 or sim.n == 0:
                        sz = rng.choice([0, 1, 2, 3, 5, 8, 13, remaining, remaining + 1]) if remaining > 0 else rng.choice([0, 1])
                        ops.append(f"malloc {sz}" if rng.random() < 0.7 else f"calloc 1 {sz}")
                        sim.alloc(sz)
                    elif r < 0.9:
                        ops.append(f"free idx={sim.n - 1}")
                        ops.append(f"free off={sim.high}")
                        sim.release_off(sim.high)
                    else:
                        ops.append("pool_reset"); sim.reset()
                elif style == "fill-reset":
                    if remaining == 0 or r < 0.02:
                        ops.append("malloc 1"); sim.alloc(1)
                        ops.append("pool_reset"); sim.reset()
                    else:
                        sz = rng.choice([1, 1, 2, 3, 4, 7, 8, 16, remaining])
                        a = rng.choice([1, 2]) if sz % 2 == 0 else 1
                        ops.append(f"calloc {a} {sz // a}" if rng.random() < 0.4 else f"malloc {sz}")
                        sim.alloc(sz)
                else:
                    if r < 0.5:
                        sz = rng.choice([0, 1, 2, 3, 4, 8, 9, 17, remaining, max(remaining - 1, 0), remaining + 1, N + 1])
                        ops.append(f"malloc {sz}"); sim.alloc(sz)
                    elif r < 0.6:
                        sz = rng.choice([2, 4, 6, 8])
                        ops.append(f"calloc 2 {sz // 2}"); sim.alloc(sz)
                    elif r < 0.85:
                        a = rng.choice([sim.high, sim.high, 0, sim.free, rng.randint(0, N)])
                        ops.append(f"free off={a}"); sim.release_off(a)
                    elif r < 0.95 and sim.n:
                        ops.append(f"free idx={rng.randrange(max(sim.n - 3, 0), sim.n)}")
                        # unknown to the sim whether this was the newest block: resynchronise through the offset
                        ops.append(f"free off={sim.high}"); sim.release_off(sim.high)
                    else:
                        ops.append("pool_reset"); sim.reset()
                if i % 300 == 299:
                    ops.append("observe")
            ops += ["observe", "destroy"]
            out.append(ops)
        return out

    def _small_scope(self, tier, focus=None):
        out = []
        sizes = (0, 1, 2, 5, 8) if tier == "quick" else tuple(range(0, 41))
        maxlen = 3

        def alphabet(N):
            return [f"malloc 0", "malloc 1", "malloc 3", f"malloc {N}", f"malloc {N + 1}",
                    f"malloc {SIZE_MAX}", "calloc 2 2", f"calloc 1 {N}", "free idx=LAST", "free idx=0",
                    "free", "pool_reset"]

        def emit(N, seq, off):
            ops = [f"new size={N} off={off}"]
            nalloc = 0
            for s in seq:
                if s == "free idx=LAST":
                    s = f"free idx={max(nalloc - 1, 0)}"
                if s.startswith(("malloc", "calloc")):
                    nalloc += 1
                ops.append(s)
            # what does the pool hand out afterwards?
            ops.append("malloc 1")
            ops.append("destroy")
            out.append(ops)

        for N in sizes:
            for n in range(0, maxlen + 1):
                for seq in itertools.product(alphabet(N), repeat=n):
                    emit(N, seq, N % 3)
        if tier != "quick":
            for N in (0, 1, 4, 8):
                for seq in itertools.product(alphabet(N), repeat=4):
                    emit(N, seq, 1)
        return out

    def _random(self, rng, n, tier, focus=None):
        out = []
        for _ in range(n):
            N = rng.choice([0, 1, 2, 3, 7, 8, 16, 24, 31, 32, 40, 64, 100, 200])
            off = rng.choice([0, 0, 1, 3, 8, 17])
            sim = Sim(N)
            ops = [f"new size={N} off={off}"]
            length = rng.randint(1, 50)
            p_free = rng.choice([0.1, 0.25, 0.4])
            p_big = 0.25 if focus == "reject" else 0.08
            offs = []   # offsets of successful allocations (for free off=)
            for _ in range(length):
                r = rng.random()
                remaining = N - sim.free
                if r < p_free:
                    k = rng.random()
                    if k < 0.55 and sim.n:
                        ops.append(f"free idx={sim.n - 1}")           # most recent result
                        # the generator does not know whether it was NULL; aim via offset below too
                    elif k < 0.7 and sim.n:
                        ops.append(f"free idx={rng.randrange(sim.n)}")
                    elif k < 0.8:
                        ops.append("free")
                    elif k < 0.9:
                        a = sim.high
                        ops.append(f"free off={a}")
                        sim.release_off(a)
                        continue
                    else:
                        a = rng.choice([0, 1, sim.free, N, N + 1, rng.randint(0, N + 8)])
                        ops.append(f"free off={a}")
                        sim.release_off(a)
                        continue
                    # idx frees: resolve against what the sim knows
                    sim_free_idx(sim, ops[-1], offs)
                elif r < p_free + 0.06:
                    ops.append("pool_reset")
                    sim.reset()
                else:
                    if rng.random() < p_big:
                        sz = rng.choice([remaining, remaining + 1, N, N + 1, 2**31, 2**32, 2**32 + 1, 2**63, SIZE_MAX - 1, SIZE_MAX, 0])
                    else:
                        sz = rng.choice([0, 1, 1, 2, 3, 4, 5, 8, 8, 13, 16, remaining, max(remaining - 1, 0)])
                    before = sim.free
                    if rng.random() < 0.3:
                        if sz >= 2**31:
                            # products that overflow although only one factor is huge, and both-32-bit factors
                            a, b = rng.choice([(1, sz), (sz, 1), (0, sz), (sz, 0), (2**32, 2**32), (2**63, 2),
                                               (2**63 + 1, 2), (2, 2**63 + 1), (2**61 + 1, 8), (8, 2**61 + 1),
                                               (2**32 + 1, 2**32), (SIZE_MAX, SIZE_MAX), (3, sz), (sz, 2)])
                        else:
                            d = rng.choice([1, 2, 4]) if sz % 4 == 0 and sz else 1
                            a, b = (d, sz // d) if rng.random() < 0.5 else (sz // d, d)
                        ops.append(f"calloc {a} {b}")
                        sim.alloc(a * b)
                    else:
                        ops.append(f"malloc {sz}")
                        sim.alloc(sz)
                    req = int(ops[-1].split()[1]) * (int(ops[-1].split()[2]) if ops[-1].startswith("calloc") else 1)
                    offs.append(before if req <= N - before else None)
            ops.append("destroy")
            out.append(ops)
        return out


def sim_free_idx(sim, op, offs):
    if "idx=" not in op:
        return
    k = int(op.split("idx=")[1])
    if k < len(offs) and offs[k] is not None:
        sim.release_off(offs[k])


GEN = SpoolGen()
