#!/usr/bin/env python3
"""Self-test of the function translator (tools/gen_funcs.py) and of Properties/C19Gen.lean, C12Gen.lean.

For each scenario: copy /repo/src to a temporary directory, edit it there, regenerate
Generated/Funcs.lean **into a temporary copy of the Generated directory** (the file in /verif is not
touched; checked at the end), compile that copy to an .olean in a temporary library directory (a
symlink mirror of lean/.lake/build/lib/lean with only Funcs.olean replaced) and elaborate the two
property files against it.  Expected: exactly the theorems about the edited functions fail.

  baseline   unedited sources                                                      -> nothing fails
  E1  cc_rbuf_enqueue   `rbuf->size < rbuf->capacity` -> `<=`                      -> rbuf_enqueue_agrees
  E2  cc_rbuf_dequeue   `(rbuf->tail + 1) % rbuf->capacity` -> `(rbuf->tail + 1)`  -> rbuf_dequeue_agrees
  E3  cc_rbuf_enqueue   the slot write and the head update exchanged               -> rbuf_enqueue_agrees
  E4  cc_static_pool_malloc  fit test `size > ...` -> `size >= ...`                -> core_malloc_agrees
                        (its proof fails; spool_malloc_agrees, core_calloc_agrees, spool_calloc_agrees are
                        proved FROM it — calloc calls malloc — and are reported as resting on a failed theorem)
  E5..E12  guards whose removal only loses `fault = false`, constructor / destructor edits (see SCENARIOS)
  P*, A*, S*, D*, Q*   one breaking edit per translated function of pqueue / array / stack / deque / queue
      (D18, D19, D22: `upper_pow_two` with a shift removed / reversed / undefined -> upper_pow_two_agrees;
       DT1..DT3: `& (capacity - 1)` -> `% capacity`, the same value on power-of-two capacities -> keeps or NOTE)
  W1..W4   integer widths other than 64 bit and macros inside a translated file -> the translator refuses
  H   behaviour-preserving: local `used` renamed, `++x` written `x = x + 1`, `--x` written `x -= 1`,
      a redundant block and cast                                                    -> nothing fails
  H6-1, H6-2, H6-3   the coordinator's behaviour-preserving rewrites (seeded_harmless/H6-*/patch.diff:
      static helper functions, hoisted locals, early return instead of assignment-in-condition),
      each alone                                                                    -> nothing fails
"""
import hashlib, os, re, shutil, subprocess, sys, tempfile
from pathlib import Path

ROOT = Path(__file__).resolve().parent.parent
sys.path.insert(0, str(ROOT / "tools"))
import gen_funcs

REPO = Path(os.environ.get("VERIF_REPO", "/repo"))
LEAN = ROOT / "lean"
GEN = LEAN / "CollectionsC" / "Generated"
PROPS = [LEAN / "CollectionsC" / "Properties" / "C19Gen.lean", LEAN / "CollectionsC" / "Properties" / "C12Gen.lean",
         LEAN / "CollectionsC" / "Properties" / "C10Gen.lean", LEAN / "CollectionsC" / "Properties" / "C01Gen.lean",
         LEAN / "CollectionsC" / "Properties" / "C05Gen.lean", LEAN / "CollectionsC" / "Properties" / "C09Gen.lean"]
LIB = LEAN / ".lake" / "build" / "lib" / "lean"
RB, SP, PQ, AR, ST = "src/cc_ring_buffer.c", "src/memory/cc_static_pool.c", "src/cc_pqueue.c", "src/cc_array.c", "src/cc_stack.c"
DQ, QU = "src/cc_deque.c", "src/cc_queue.c"
PROP_OF = {RB: "C19Gen", SP: "C12Gen", PQ: "C10Gen", AR: "C01Gen", ST: "C09Gen", DQ: "C05Gen", QU: "C09Gen"}

SCENARIOS = [
    ("baseline", [], set()),
    ("E1 enqueue: `size < capacity` -> `<=`",
     [(RB, "cc_rbuf_enqueue", "rbuf->size < rbuf->capacity", "rbuf->size <= rbuf->capacity")],
     {"rbuf_enqueue_agrees"}),
    ("E2 dequeue: `% capacity` dropped",
     [(RB, "cc_rbuf_dequeue", "(rbuf->tail + 1) % rbuf->capacity", "(rbuf->tail + 1)")],
     {"rbuf_dequeue_agrees"}),
    ("E3 enqueue: slot write and head update exchanged",
     [(RB, "cc_rbuf_enqueue",
       "rbuf->buf[rbuf->head] = item;\n\n    rbuf->head = (rbuf->head + 1) % rbuf->capacity;",
       "rbuf->head = (rbuf->head + 1) % rbuf->capacity;\n\n    rbuf->buf[rbuf->head] = item;")],
     {"rbuf_enqueue_agrees"}),
    ("E4 static pool malloc: fit test `>` -> `>=`",
     [(SP, "cc_static_pool_malloc", "size > pool->size - used", "size >= pool->size - used")],
     {"core_malloc_agrees"}),
    ("E5 peek: upper-bound guard dropped (values still coincide, only `fault = false` is lost)",
     [(RB, "cc_rbuf_peek", "index < 0 || (size_t) index >= rbuf->capacity", "index < 0")],
     {"rbuf_peek_agrees"}),
    ("E6 dequeue: the emptiness guard dropped",
     [(RB, "cc_rbuf_dequeue", "if (cc_rbuf_is_empty(rbuf))\n        return CC_ERR_OUT_OF_RANGE;\n", "")],
     {"rbuf_dequeue_agrees"}),
    ("E7 calloc: `memset` no longer guarded by `if (ptr)` (memset(NULL) on a refused request)",
     [(SP, "cc_static_pool_calloc",
       "if ((ptr = cc_static_pool_malloc(count * size, pool))) {\n        memset(ptr, 0, (count * size));\n    }",
       "ptr = cc_static_pool_malloc(count * size, pool);\n    memset(ptr, 0, (count * size));")],
     {"core_calloc_agrees"}),
    ("E8 calloc: operands of the overflow guard exchanged (division by zero for size 0)",
     [(SP, "cc_static_pool_calloc", "size != 0 && count > ((size_t) -1) / size", "count > ((size_t) -1) / size && size != 0")],
     {"core_calloc_agrees"}),
    ("E9 constructor: `ringbuf->head = 0` -> `= 1`",
     [(RB, "cc_rbuf_conf_new", "ringbuf->head        = 0;", "ringbuf->head        = 1;")],
     {"rbuf_conf_new_agrees"}),
    ("E10 constructor: the release pointer is not copied into the new buffer",
     [(RB, "cc_rbuf_conf_new", "ringbuf->mem_free    = rconf->mem_free;", "")],
     {"rbuf_conf_new_agrees"}),
    ("E11 static pool constructor ignores `offset`",
     [(SP, "cc_static_pool_new", "pool->block    = data_buf + offset;", "pool->block    = data_buf;")],
     {"spool_new_agrees"}),
    ("E12 destroy no longer releases the struct (leak)",
     [(RB, "cc_rbuf_destroy", "rbuf->mem_free(rbuf);", "")],
     {"rbuf_destroy_agrees"}),
    ("P1 pqueue heapify: `L < pq->size` -> `<=` (reads one slot past the heap)",
     [(PQ, "cc_pqueue_heapify", "L < pq->size", "L <= pq->size")],
     {"heapify_step"}),
    ("P2 pqueue push: the sift-up loop stops at `>= 0` instead of `> 0`",
     [(PQ, "cc_pqueue_push", "pq->cmp(child, parent) > 0", "pq->cmp(child, parent) >= 0")],
     {"loop_step_pos", "loop_step_neg"}),
    ("P3 pqueue macro: `CC_PARENT` divides by 3",
     [(PQ, None, "#define CC_PARENT(x)  ((x > 0) ? (x - 1) / 2 : 0)", "#define CC_PARENT(x)  ((x > 0) ? (x - 1) / 3 : 0)")],
     {"loop_step_pos", "tail_agrees"}),
    ("P4 pqueue constructor: the byte-size guard dropped",
     [(PQ, "cc_pqueue_new_conf", "if (conf->capacity > CC_MAX_ELEMENTS / sizeof(void*))\n        return CC_ERR_INVALID_CAPACITY;", "")],
     {"pq_new_conf_agrees"}),
    ("A1 array conf_init: default capacity + 1",
     [(AR, "cc_array_conf_init", "conf->capacity   = DEFAULT_CAPACITY;", "conf->capacity   = DEFAULT_CAPACITY + 1;")],
     {"arr_conf_init_agrees"}),
    ("A2 array new_conf: the capacity is not stored",
     [(AR, "cc_array_new_conf", "ar->capacity   = conf->capacity;", "")], {"arr_new_conf_agrees"}),
    ("A3 array new: the configuration is not initialised",
     [(AR, "cc_array_new", "cc_array_conf_init(&c);", "")], {"arr_new_agrees"}),
    ("A4 array destroy: the buffer is not released",
     [(AR, "cc_array_destroy", "ar->mem_free(ar->buffer);", "")], {"arr_destroy_agrees"}),
    ("A5 array add: the size is not incremented",
     [(AR, "cc_array_add", "ar->size++;", "")], {"add_tail"}),
    ("A6 array add_at: memmove source and destination exchanged",
     [(AR, "cc_array_add_at", "memmove(&(ar->buffer[index + 1]),\n            &(ar->buffer[index]),",
       "memmove(&(ar->buffer[index]),\n            &(ar->buffer[index + 1]),")], {"add_at_tail"}),
    ("A7 array replace_at: `>=` -> `>`",
     [(AR, "cc_array_replace_at", "index >= ar->size", "index > ar->size")], {"arr_replace_at_agrees"}),
    ("A8 array swap_at: second bound dropped",
     [(AR, "cc_array_swap_at", "index1 >= ar->size || index2 >= ar->size", "index1 >= ar->size")], {"arr_swap_at_agrees"}),
    ("A9 array remove_at: the size is not decremented",
     [(AR, "cc_array_remove_at", "ar->size--;", "")], {"arr_remove_at_agrees"}),
    ("A10 array remove_last: `size - 1` -> `size`",
     [(AR, "cc_array_remove_last", "ar->size - 1", "ar->size")], {"arr_remove_last_agrees"}),
    ("A11 array remove_all: size set to 1",
     [(AR, "cc_array_remove_all", "ar->size = 0;", "ar->size = 1;")], {"arr_remove_all_agrees"}),
    ("A12 array get_at: `>=` -> `>`",
     [(AR, "cc_array_get_at", "index >= ar->size", "index > ar->size")], {"arr_get_at_agrees"}),
    ("A13 array get_last: emptiness guard dropped",
     [(AR, "cc_array_get_last", "if (ar->size == 0)\n        return CC_ERR_VALUE_NOT_FOUND;\n", "")], {"arr_get_last_agrees"}),
    ("A14 array size returns the capacity",
     [(AR, "cc_array_size", "return ar->size;", "return ar->capacity;")], {"arr_size_agrees"}),
    ("A15 array capacity returns the size",
     [(AR, "cc_array_capacity", "return ar->capacity;", "return ar->size;")], {"arr_capacity_agrees"}),
    ("A16 array trim_capacity: the new capacity is not stored",
     [(AR, "cc_array_trim_capacity", "ar->capacity = size;", "")], {"arr_trim_capacity_agrees"}),
    ("A17 array reverse: `j` is not decremented",
     [(AR, "cc_array_reverse", "i++, j--", "i++")], {"reverse_loop"}),
    ("A18 array expand_capacity: `<=` -> `<`",
     [(AR, "expand_capacity", "new_capacity <= ar->capacity", "new_capacity < ar->capacity")], {"expand_agrees"}),
    ("A19 array index_of: reports the following index",
     [(AR, "cc_array_index_of", "*index = i;", "*index = i + 1;")], {"index_of_loop"}),
    ("A20 array contains: counts twice",
     [(AR, "cc_array_contains", "o++;", "o += 2;")], {"contains_loop"}),
    ("A21 array remove: another status for an absent element",
     [(AR, "cc_array_remove", "return CC_ERR_VALUE_NOT_FOUND;", "return CC_ERR_OUT_OF_RANGE;")], {"arr_remove_agrees"}),
    ("S1 stack push forwards to add_at(…, 0) instead of add",
     [(ST, "cc_stack_push", "return cc_array_add(stack->v, element);", "return cc_array_add_at(stack->v, element, 0);")],
     {"stack_push_agrees"}),
    ("S2 stack destroy: the header is not released",
     [(ST, "cc_stack_destroy", "stack->mem_free(stack);", "")], {"stack_destroy_agrees"}),
    ("S3 stack new_conf: the header is not released when the array cannot be built",
     [(ST, "cc_stack_new_conf", "conf->mem_free(stack);", "")], {"stack_new_conf_agrees"}),
    ("D1 deque conf_init: default capacity + 1",
     [(DQ, "cc_deque_conf_init", "conf->capacity   = DEFAULT_CAPACITY;", "conf->capacity   = DEFAULT_CAPACITY + 1;")],
     {"deque_conf_init_agrees"}),
    ("D2 deque new_conf: `first` starts at 1",
     [(DQ, "cc_deque_new_conf", "deque->first      = 0;", "deque->first      = 1;")], {"deque_new_conf_agrees"}),
    ("D3 deque new: the configuration is not initialised",
     [(DQ, "cc_deque_new", "cc_deque_conf_init(&conf);", "")], {"deque_new_agrees"}),
    ("D4 deque destroy: the buffer is not released",
     [(DQ, "cc_deque_destroy", "deque->mem_free(deque->buffer);", "")], {"deque_destroy_agrees"}),
    ("D5 deque add_first: the size is not incremented",
     [(DQ, "cc_deque_add_first", "deque->size++;", "")], {"add_first_tail"}),
    ("D6 deque add_last: the mask is dropped (`last` leaves the buffer)",
     [(DQ, "cc_deque_add_last", "(deque->last + 1) & (deque->capacity - 1)", "(deque->last + 1)")], {"add_last_tail"}),
    ("D7 deque remove_first: the size is not decremented",
     [(DQ, "cc_deque_remove_first", "deque->size--;", "")], {"deque_remove_first_agrees"}),
    ("D8 deque remove_last: `last` is not stored",
     [(DQ, "cc_deque_remove_last", "deque->last = last;", "")], {"deque_remove_last_agrees"}),
    ("D9 deque get_at: `>=` -> `>`",
     [(DQ, "cc_deque_get_at", "index >= deque->size", "index > deque->size")], {"deque_get_at_agrees"}),
    ("D10 deque get_first: emptiness guard dropped",
     [(DQ, "cc_deque_get_first", "if (deque->size == 0)\n        return CC_ERR_OUT_OF_RANGE;\n", "")], {"deque_get_first_agrees"}),
    ("D11 deque get_last: reads the slot at `last` instead of the one before it",
     [(DQ, "cc_deque_get_last", "(deque->last - 1) & (deque->capacity - 1)", "deque->last & (deque->capacity - 1)")],
     {"deque_get_last_agrees"}),
    ("D12 deque size returns the capacity",
     [(DQ, "cc_deque_size", "return deque->size;", "return deque->capacity;")], {"deque_size_agrees"}),
    ("D13 deque capacity returns the size",
     [(DQ, "cc_deque_capacity", "return deque->capacity;", "return deque->size;")], {"deque_capacity_agrees"}),
    ("D14 deque expand_capacity: `<< 1` -> `<< 2`",
     [(DQ, "expand_capacity", "deque->capacity << 1", "deque->capacity << 2")], {"deque_expand_agrees"}),
    ("D15 deque expand_capacity: the old buffer is released before it is copied",
     [(DQ, "expand_capacity", "    copy_buffer(deque, new_buffer, NULL);\n    deque->mem_free(deque->buffer);",
       "    deque->mem_free(deque->buffer);\n    copy_buffer(deque, new_buffer, NULL);")], {"deque_expand_agrees"}),
    ("D16 deque copy_buffer: the wrapped tail is copied to the front of the new buffer",
     [(DQ, "copy_buffer", "memcpy(&(buff[e]),", "memcpy(&(buff[0]),")], {"deque_copy_buffer_agrees"}),
    ("D17 deque copy_buffer: `last > first` -> `last >= first` (a full deque with first = last is copied straight)",
     [(DQ, "copy_buffer", "deque->last > deque->first", "deque->last >= deque->first")], {"deque_copy_buffer_agrees"}),
    ("D18 deque upper_pow_two: the shift by 4 removed (the smear no longer reaches every lower bit)",
     [(DQ, "upper_pow_two", "    n |= n >> 4;\n", "")], {"upper_pow_two_agrees"}),
    ("D19 deque upper_pow_two: `n |= n >> 1` -> `n |= n << 1`",
     [(DQ, "upper_pow_two", "n |= n >> 1;", "n |= n << 1;")], {"upper_pow_two_agrees"}),
    ("D20 deque add_first: `&` -> `|` in the index mask",
     [(DQ, "cc_deque_add_first", "(deque->first - 1) & (deque->capacity - 1)", "(deque->first - 1) | (deque->capacity - 1)")],
     {"add_first_tail"}),
    ("D21 deque remove_first: `& (capacity - 1)` -> `& capacity`",
     [(DQ, "cc_deque_remove_first", "(deque->first + 1) & (deque->capacity - 1)", "(deque->first + 1) & deque->capacity")],
     {"deque_remove_first_agrees"}),
    ("D22 deque upper_pow_two: `n >> 16` -> `n >> 64` (an undefined shift: the helper now reports a fault, its callers change shape)",
     [(DQ, "upper_pow_two", "n |= n >> 16;", "n |= n >> 64;")], {"upper_pow_two_agrees", "deque_new_conf_agrees"}),
    ("D23 deque expand_capacity: `capacity << 1` -> `~capacity` (bitwise complement)",
     [(DQ, "expand_capacity", "deque->capacity << 1", "~deque->capacity")], {"deque_expand_agrees"}),
    ("D24 deque add_at: the back-half contiguous shift moves one slot too few",
     [(DQ, "cc_deque_add_at", "(deque->size - index) * sizeof(void*)", "(deque->size - index - 1) * sizeof(void*)")],
     {"deque_add_at_tail"}),
    ("D25 deque add_at: the D3 branch repaired (`p < f || f == 0` -> `p < f`): the model transcribes the unrepaired text",
     [(DQ, "cc_deque_add_at", "if (p < f || f == 0) {", "if (p < f) {")], {"deque_add_at_tail"}),
    ("D26 deque add_at: range guard `>=` -> `>`",
     [(DQ, "cc_deque_add_at", "index >= deque->size", "index > deque->size")], {"deque_add_at_agrees"}),
    ("D27 deque remove_at: front-half wrap case keeps the old slot 0 (`buffer[0] = e` dropped)",
     [(DQ, "cc_deque_remove_at", "deque->buffer[0] = e;", "")], {"deque_remove_at_agrees"}),
    ("D28 deque remove_at: `l > 1` -> `l > 0` in the back-half wrap case",
     [(DQ, "cc_deque_remove_at", "if (l > 1) {", "if (l > 0) {")], {"deque_remove_at_agrees"}),
    ("D29 deque remove_at: memmove -> memcpy on overlapping ranges",
     [(DQ, "cc_deque_remove_at", "memmove(&(deque->buffer[f + 1]),\n                    &(deque->buffer[f]),\n                    index * sizeof(void*));",
       "memcpy(&(deque->buffer[f + 1]),\n                    &(deque->buffer[f]),\n                    index * sizeof(void*));")],
     {"deque_remove_at_agrees"}),
    ("DT1 deque get_at: `& (capacity - 1)` -> `% capacity` (the same value on a power-of-two capacity)",
     [(DQ, "cc_deque_get_at", "(deque->first + index) & (deque->capacity - 1)", "(deque->first + index) % deque->capacity")],
     "tie"),
    ("DT2 deque add_last / remove_first: `& (capacity - 1)` -> `% capacity`",
     [(DQ, "cc_deque_add_last", "(deque->last + 1) & (deque->capacity - 1)", "(deque->last + 1) % deque->capacity"),
      (DQ, "cc_deque_remove_first", "(deque->first + 1) & (deque->capacity - 1)", "(deque->first + 1) % deque->capacity")],
     "tie"),
    ("DT3 deque remove_last: `(last - 1) & (capacity - 1)` -> `(last - 1) % capacity` (the same value only because 2^64 is a multiple of the capacity)",
     [(DQ, "cc_deque_remove_last", "(deque->last - 1) & (deque->capacity - 1)", "(deque->last - 1) % deque->capacity")],
     "tie"),
    ("HD deque behaviour-preserving: `size++` as `+= 1`, `n--` as `n -= 1`, `|=` written out, a local renamed",
     [(DQ, "cc_deque_add_first", "deque->size++;", "deque->size += 1;"),
      (DQ, "upper_pow_two", "n--;", "n -= 1;"),
      (DQ, "upper_pow_two", "n |= n >> 8;", "n = n | (n >> 8);"),
      (DQ, "cc_deque_get_at", "size_t i = (deque->first + index) & (deque->capacity - 1);", "size_t slot = (deque->first + index) & (deque->capacity - 1);"),
      (DQ, "cc_deque_get_at", "deque->buffer[i]", "deque->buffer[slot]")],
     set()),
    ("Q1 queue enqueue forwards to add_last instead of add_first",
     [(QU, "cc_queue_enqueue", "return cc_deque_add_first(queue->d, element);", "return cc_deque_add_last(queue->d, element);")],
     {"queue_enqueue_agrees"}),
    ("Q2 queue destroy: the header is not released",
     [(QU, "cc_queue_destroy", "queue->mem_free(queue);", "")], {"queue_destroy_agrees"}),
    ("Q3 queue new_conf: the header is not released when the deque cannot be built",
     [(QU, "cc_queue_new_conf", "conf->mem_free(queue);", "")], {"queue_new_conf_agrees"}),
    ("Q4 queue poll takes from the front",
     [(QU, "cc_queue_poll", "return cc_deque_remove_last(queue->d, out);", "return cc_deque_remove_first(queue->d, out);")],
     {"queue_poll_agrees"}),
    ("Q5 queue peek looks at the front",
     [(QU, "cc_queue_peek", "return cc_deque_get_last(queue->d, out);", "return cc_deque_get_first(queue->d, out);")],
     {"queue_peek_agrees"}),
    ("Q6 queue size reports the deque's capacity",
     [(QU, "cc_queue_size", "return cc_deque_size(queue->d);", "return cc_deque_capacity(queue->d);")],
     {"queue_size_agrees"}),
    ("R1a audit3: pqueue destroy releases the struct twice and leaks the buffer",
     [(PQ, "cc_pqueue_destroy", "pq->mem_free(pq->buffer);", "pq->mem_free(pq);")], {"pq_destroy_agrees"}),
    ("R1b audit3: pqueue new_conf releases the (NULL) buffer instead of the struct on the refusal path",
     [(PQ, "cc_pqueue_new_conf", "conf->mem_free(pq);", "conf->mem_free(buff);")], {"pq_new_conf_agrees"}),
    ("R1c audit3: rbuf destroy releases the struct first and then reads its fields",
     [(RB, "cc_rbuf_destroy", "rbuf->mem_free(rbuf->buf);\n    rbuf->mem_free(rbuf);", "rbuf->mem_free(rbuf);\n    rbuf->mem_free(rbuf->buf);")],
     {"rbuf_destroy_agrees"}),
    ("R1d audit3: pqueue expand_capacity releases the old buffer before copying from it",
     [(PQ, "expand_capacity", "    memcpy(new_buff, pq->buffer, pq->size * sizeof(void*));\n\n    pq->mem_free(pq->buffer);",
       "    pq->mem_free(pq->buffer);\n    memcpy(new_buff, pq->buffer, pq->size * sizeof(void*));\n")],
     {"expand_agrees"}),
    ("R2 audit3: the object is modified after `*rbuf = ringbuf;` (the caller sees it: the store is an alias)",
     [(RB, "cc_rbuf_conf_new", "*rbuf = ringbuf;", "*rbuf = ringbuf;\n    ringbuf->capacity = 0;")],
     {"rbuf_conf_new_agrees"}),
    ("R3 audit3: an unsigned literal next to the comparator's int result (must be refused)",
     [(PQ, "cc_pqueue_push", "pq->cmp(child, parent) > 0", "pq->cmp(child, parent) > 0u")], None),
    ("R4 audit3: static pool calloc returns an uninitialised pointer on overflow",
     [(SP, "cc_static_pool_calloc", "uint8_t* ptr = NULL;", "uint8_t* ptr;"),
      (SP, "cc_static_pool_calloc", "if (size != 0 && count > ((size_t) -1) / size)\n        return NULL;",
       "if (size != 0 && count > ((size_t) -1) / size)\n        return ptr;")],
     {"core_calloc_agrees", "spool_calloc_agrees"}),
    ("R7 audit3: memmove -> memcpy on overlapping ranges in add_at",
     [(AR, "cc_array_add_at", "memmove(&(ar->buffer[index + 1]),", "memcpy(&(ar->buffer[index + 1]),")], {"add_at_tail"}),
    ("W1 width: `size_t head, tail;` -> `uint8_t head, tail;` (must be refused)",
     [(RB, None, "    size_t head, tail;", "    uint8_t head, tail;")], None),
    ("W2 width: `(size_t) index` -> `(uint8_t) index` in peek (must be refused)",
     [(RB, "cc_rbuf_peek", "(size_t) index", "(uint8_t) index")], None),
    ("W3 width: `size_t used` -> `uint32_t used` in malloc (must be refused)",
     [(SP, "cc_static_pool_malloc", "size_t used", "uint32_t used")], None),
    ("W4 a file-level `#define tail head` (must be refused)",
     [(RB, None, "struct ring_buffer_conf {", "#define tail head\nstruct ring_buffer_conf {")], None),
    ("H  behaviour-preserving rewrites",
     [(SP, "cc_static_pool_malloc", "size_t used = pool->free_ptr - pool->low_ptr;",
       "size_t taken = (size_t) (pool->free_ptr - pool->low_ptr);"),
      (SP, "cc_static_pool_malloc", "size > pool->size - used", "size > pool->size - taken"),
      (RB, "cc_rbuf_enqueue", "++rbuf->size;", "{ rbuf->size = rbuf->size + 1; }"),
      (RB, "cc_rbuf_dequeue", "--rbuf->size;", "rbuf->size -= 1;")],
     set()),
    ("H' behaviour-preserving: ternary, else-if chain, declaration without initialiser, compound assignment",
     [(RB, "cc_rbuf_enqueue", "if (rbuf->size < rbuf->capacity)\n        ++rbuf->size;",
       "rbuf->size = (rbuf->size < rbuf->capacity) ? rbuf->size + 1 : rbuf->size;"),
      (SP, "cc_static_pool_free", "if (ptr == pool->high_ptr) {\n        pool->free_ptr = pool->high_ptr;\n    }",
       "uint8_t* top;\n    top = pool->high_ptr;\n    if (ptr != top) {\n    } else if (ptr == top) {\n        pool->free_ptr = top;\n    }"),
      (RB, "cc_rbuf_peek", "(size_t) index >= rbuf->capacity", "index >= rbuf->capacity"),   # C converts the int itself
      (SP, "cc_static_pool_free_bytes", "return pool->size - (pool->free_ptr - pool->low_ptr);",
       "size_t n = pool->size;\n    n -= (pool->free_ptr - pool->low_ptr);\n    return n;")],
     set()),
    ("HP pqueue behaviour-preserving: locals renamed, `size++` as `+= 1`, a swap through a differently named temporary, `break` instead of a conjunct of the loop condition",
     [(PQ, "cc_pqueue_heapify", "size_t tmp = index;", "size_t start = index;"),
      (PQ, "cc_pqueue_heapify", "if (index != tmp) {", "if (index != start) {"),
      (PQ, "cc_pqueue_heapify", "void *swap_tmp = pq->buffer[tmp];\n        pq->buffer[tmp] = pq->buffer[index];",
       "void *held = pq->buffer[start];\n        pq->buffer[start] = pq->buffer[index];"),
      (PQ, "cc_pqueue_heapify", "pq->buffer[index] = swap_tmp;", "pq->buffer[index] = held;"),
      (PQ, "cc_pqueue_push", "pq->size++;", "pq->size += 1;"),
      (PQ, "cc_pqueue_push", "while (i != 0 && pq->cmp(child, parent) > 0) {",
       "while (i != 0) {\n        if (!(pq->cmp(child, parent) > 0))\n            break;"),
      (PQ, "cc_pqueue_pop", "pq->size--;", "pq->size -= 1;")],
     set()),
    ("HS audit3 harmless: `*out = pool;` moved to the top of cc_static_pool_new (an alias: nothing changes)",
     [(SP, "cc_static_pool_new", "    *out = pool;\n\n", ""),
      (SP, "cc_static_pool_new", "CC_StaticPool *pool = (CC_StaticPool*)pool_alloc;", "CC_StaticPool *pool = (CC_StaticPool*)pool_alloc;\n    *out = pool;")],
     set()),
    ("HA array behaviour-preserving: locals renamed / hoisted, `size++` as `+= 1`, a guard written the other way round",
     [(AR, "cc_array_add", "ar->size++;", "ar->size += 1;"),
      (AR, "cc_array_remove_at", "size_t block_size = (ar->size - 1 - index) * sizeof(void*);", "size_t nbytes = (ar->size - 1 - index) * sizeof(void*);"),
      (AR, "cc_array_remove_at", "                block_size);", "                nbytes);"),
      (AR, "cc_array_get_at", "if (index >= ar->size)", "if (ar->size <= index)"),
      (AR, "cc_array_swap_at", "void *tmp;\n", "void *tmp = NULL;\n")],
     set()),
] + [
    (f"{h} behaviour-preserving rewrite seeded_harmless/{h}/patch.diff", [("patch", ROOT / "seeded_harmless" / h / "patch.diff")],
     set() if h.startswith("H6") else "tie")
    for h in sorted(d.name for d in (ROOT / "seeded_harmless").glob("H*") if (d / "patch.diff").exists())
    if any(c["file"] in (ROOT / "seeded_harmless" / h / "patch.diff").read_text() for c in gen_funcs.TABLE)
       or h in ("H6-3",)
]


def sh(cmd, **kw):
    return subprocess.run(cmd, stdout=subprocess.PIPE, stderr=subprocess.STDOUT, text=True, **kw)


def mutate(repo, f, fname, old, new):
    """replace `old` by `new` inside the definition of fname only"""
    p = repo / f
    txt = p.read_text()
    if fname is None:
        if txt.count(old) != 1:
            raise SystemExit(f"self-test: `{old}` occurs {txt.count(old)} times in {f}")
        p.write_text(txt.replace(old, new))
        return
    m = None
    for cand in re.finditer(r"^(?:\w[\w \*]*)?\b" + re.escape(fname) + r"\s*\(", txt, re.M):
        depth, j = 0, cand.end() - 1
        while j < len(txt):
            depth += (txt[j] == "(") - (txt[j] == ")")
            if depth == 0:
                break
            j += 1
        if txt[j + 1:].lstrip().startswith("{"):      # a definition, not a prototype
            m = cand
            break
    if not m:
        raise SystemExit(f"self-test: {fname} not found in {f}")
    end = txt.index("\n}", m.start())
    body = txt[m.start():end]
    if body.count(old) != 1:
        raise SystemExit(f"self-test: `{old}` occurs {body.count(old)} times in {fname}")
    p.write_text(txt[:m.start()] + body.replace(old, new) + txt[end:])


def mirror_lib(dst):
    """symlink mirror of the built library, without Generated/Funcs.*"""
    for d, _, files in os.walk(LIB):
        rel = Path(d).relative_to(LIB)
        (dst / rel).mkdir(parents=True, exist_ok=True)
        for f in files:
            if rel == Path("CollectionsC/Generated") and f.startswith("Funcs"):
                continue
            os.symlink(Path(d) / f, dst / rel / f)


def blocks_of(prop):
    """[(first line, name)] of the theorems / examples; a block begins at its doc comment"""
    src = prop.read_text().split("\n")
    out, doc = [], None
    for i, line in enumerate(src, 1):
        if line.startswith("/--"):
            doc = i
        m = re.match(r"^(theorem|example)\b\s*(\S*)", line)
        if m:
            out.append((doc or i, m.group(2) if m.group(1) == "theorem" else f"example@{prop.stem}:{i}"))
            doc = None
        elif line.strip() == "" or re.match(r"^(def|namespace|end|open|import)\b", line):
            doc = None if not line.startswith("/--") else doc
    return out


def run(tmp, label, edits):
    """-> (failing theorem names, failing examples, translator problems, error lines, generated text)"""
    repo = tmp / label / "repo"
    shutil.copytree(REPO / "src", repo / "src")
    for e in edits:
        if e[0] == "patch":
            r = sh(["patch", "-p1", "-d", str(repo), "-i", str(e[1])])
            if r.returncode != 0:
                # a patch written against an older tree may have hunks that no longer apply; that is
                # tolerated only in files the translator does not read
                rej = re.findall(r"saving rejects to file (\S+?)\.rej", r.stdout)
                translated = {c["file"] for c in gen_funcs.TABLE}
                if not rej or any(x in translated for x in rej):
                    raise SystemExit(f"self-test [{label}]: {e[1]} does not apply:\n{r.stdout}")
                print(f"        note: {Path(e[1]).parent.name}: a hunk of {', '.join(rej)} does not apply to the current "
                      f"tree (file not translated); the rest of the patch is applied")
        else:
            mutate(repo, *e)
    work = tmp / label / "lean"
    gen = work / "CollectionsC" / "Generated"
    shutil.copytree(GEN, gen)
    problems = gen_funcs.write(repo, gen / "Funcs.lean")
    lib = tmp / label / "lib"
    mirror_lib(lib)
    mods = sorted(q.stem for q in gen.glob("Funcs*.lean"))
    for mod in mods:
        r = sh(["lake", "env", "sh", "-c",
                f'cd {work} && LEAN_PATH={lib} exec lean -o {lib}/CollectionsC/Generated/{mod}.olean '
                f'CollectionsC/Generated/{mod}.lean'], cwd=LEAN)
        if r.returncode != 0:
            raise SystemExit(f"self-test [{label}]: the regenerated {mod}.lean does not compile:\n{r.stdout}")
    bad, examples, lines = set(), set(), []
    touched = {PROP_OF.get(e[0]) for e in edits if e[0] != "patch"}
    patched = any(e[0] == "patch" for e in edits)
    props = [p for p in PROPS if p.stem in touched] if edits and not patched and None not in touched else PROPS
    for prop in props:
        r = sh(["lake", "env", "sh", "-c", f'LEAN_PATH={lib} exec lean {prop}'], cwd=LEAN)
        blocks = blocks_of(prop)
        found = False
        for m in re.finditer(r"^(\S+?):(\d+):(\d+): error: (.*)$", r.stdout, re.M):
            found = True
            ln = int(m.group(2))
            owner = [n for i, n in blocks if i <= ln]
            name = owner[-1] if owner else f"{prop.stem}:{ln}"
            (examples if name.startswith("example@") else bad).add(name)
            lines.append(f"{prop.name}:{ln} ({name}): {m.group(4)[:70]}")
        if r.returncode != 0 and not found:
            raise SystemExit(f"self-test [{label}]: lean failed without an error position:\n{r.stdout[-2000:]}")
    # theorems whose proofs use a failed theorem (lean elaborates them against the failed statement)
    tainted, frontier = set(), set(bad)
    while frontier:
        nxt = set()
        for prop in PROPS:
            src = prop.read_text().split("\n")
            bl = blocks_of(prop)
            for k, (i, name) in enumerate(bl):
                j = bl[k + 1][0] - 1 if k + 1 < len(bl) else len(src)
                body = "\n".join(src[i:j])       # without the statement's first line
                if name not in bad and name not in tainted and any(re.search(r"\b" + re.escape(b) + r"\b", body) for b in frontier):
                    nxt.add(name)
        tainted |= nxt
        frontier = nxt
    return bad, examples, problems, lines, "".join((gen / f"{m}.lean").read_text() for m in mods), tainted


def main():
    before = hashlib.sha256(b"".join(q.read_bytes() for q in sorted(GEN.glob("Funcs*.lean")))).hexdigest()
    r = sh([str(ROOT / "tools" / "lk"), "build", "CollectionsC.Proofs.Rbuf", "CollectionsC.Proofs.StaticPool",
            "CollectionsC.Generated.FuncsRbuf", "CollectionsC.Generated.FuncsSpool",
            "CollectionsC.Generated.FuncsPQueue", "CollectionsC.Generated.FuncsArray", "CollectionsC.Generated.FuncsStack",
            "CollectionsC.Proofs.PQueue", "CollectionsC.Proofs.ArrayMem", "CollectionsC.Properties.C01Gen",
            "CollectionsC.Model.Stack", "CollectionsC.Generated.FuncsDeque", "CollectionsC.Generated.FuncsQueue",
            "CollectionsC.Proofs.Deque", "CollectionsC.Proofs.DequeBits", "CollectionsC.Model.Queue",
            "CollectionsC.Properties.C05Gen"])
    if r.returncode != 0:
        raise SystemExit("self-test: could not build the imports of C19Gen/C12Gen:\n" + r.stdout[-2000:])
    ok = True
    with tempfile.TemporaryDirectory(prefix="gen_funcs_test_") as t:
        tmp = Path(t)
        only = sys.argv[1:]
        for k, (label, edits, expected) in enumerate(SCENARIOS):
            if only and not any(label.startswith(o) for o in only):
                continue
            bad, examples, problems, lines, txt, tainted = run(tmp, f"s{k}", edits)
            if expected == "tie":
                # a rewrite that was not written with the translator in mind: either every theorem still
                # holds or only translation-tie theorems / translations fail (checklib's NOTE path)
                kept = not bad and not problems
                print(f"[ok] {label}")
                print("        " + ("keeps every theorem" if kept else
                      f"NOTE path: {len(problems)} construct(s) not translated, failing theorems {sorted(bad) or 'none'}"))
                for x in problems[:3]:
                    print("          ", x)
                continue
            if expected is None:
                good = bool(problems)
                print(f"[{'ok' if good else 'FAIL'}] {label}")
                print(f"        translator: {problems[0] if problems else 'NO PROBLEM REPORTED'}")
                ok = ok and good
                continue
            good = bad == expected and not problems
            if label == "baseline":
                same = txt == "".join(q.read_text() for q in sorted(GEN.glob("Funcs*.lean")))
                good = good and same and not examples
                print(f"[{'ok' if good else 'FAIL'}] baseline: regenerated Funcs.lean identical to the tree's: {same}; "
                      f"failing theorems: {sorted(bad) or 'none'}")
            else:
                print(f"[{'ok' if good else 'FAIL'}] {label}")
                print(f"        failing theorems: {sorted(bad) or 'none'}"
                      + (f" (+ non-vacuity examples {sorted(examples)})" if examples else ""))
                print(f"        expected exactly: {sorted(expected) or 'none'}")
                if tainted:
                    print(f"        proved from a failed theorem: {sorted(tainted)}")
            if not good:
                for x in problems + lines:
                    print("       ", x)
            ok = ok and good
    after = hashlib.sha256(b"".join(q.read_bytes() for q in sorted(GEN.glob("Funcs*.lean")))).hexdigest()
    print(f"Generated/Funcs.lean in the tree untouched: {before == after}")
    ok = ok and before == after
    print("SELF-TEST", "PASSED" if ok else "FAILED")
    return 0 if ok else 1


if __name__ == "__main__":
    sys.exit(main())
