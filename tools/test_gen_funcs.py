#!/usr/bin/env python3
"""Self-test of the function translator (tools/gen_funcs.py) and of Properties/C19Gen.lean, C12Gen.lean.

For each scenario: copy /repo/src to a temporary directory, edit it there, regenerate
Generated/Funcs.lean **into a temporary copy of the Generated directory** (the file in /verif is not
touched; checked at the end), compile that copy to an .olean in a temporary library directory (a
symlink mirror of lean/.lake/build/lib/lean with only Funcs.olean replaced) and elaborate the two
property files against it.  Expected: exactly the theorems about the edited functions fail.

  baseline   unedited sources                                                      -> nothing fails
  E1  cc_rbuf_enqueue   `rbuf->size < rbuf->capacity` -> `<=`                      -> rbuf_enqueue_agrees
  E2  cc_rbuf_dequeue   `(rbuf->tail + 1) % rbuf->capacity` -> `(rbuf->tail + 1)`  -> rbuf_dequeue_agrees
  E3  cc_rbuf_enqueue   the slot write and the head update exchanged               -> rbuf_enqueue_agrees
  E4  cc_static_pool_malloc  fit test `size > ...` -> `size >= ...`                -> core_malloc_agrees
                        (its proof fails; spool_malloc_agrees, core_calloc_agrees, spool_calloc_agrees are
                        proved FROM it — calloc calls malloc — and are reported as resting on a failed theorem)
  E5..E12  guards whose removal only loses `fault = false`, constructor / destructor edits (see SCENARIOS)
  W1..W4   integer widths other than 64 bit and macros inside a translated file -> the translator refuses
  H   behaviour-preserving: local `used` renamed, `++x` written `x = x + 1`, `--x` written `x -= 1`,
      a redundant block and cast                                                    -> nothing fails
  H6-1, H6-2, H6-3   the coordinator's behaviour-preserving rewrites (seeded_harmless/H6-*/patch.diff:
      static helper functions, hoisted locals, early return instead of assignment-in-condition),
      each alone                                                                    -> nothing fails
"""
import hashlib, os, re, shutil, subprocess, sys, tempfile
from pathlib import Path

ROOT = Path(__file__).resolve().parent.parent
sys.path.insert(0, str(ROOT / "tools"))
import gen_funcs

REPO = Path(os.environ.get("VERIF_REPO", "/repo"))
LEAN = ROOT / "lean"
GEN = LEAN / "CollectionsC" / "Generated"
PROPS = [LEAN / "CollectionsC" / "Properties" / "C19Gen.lean", LEAN / "CollectionsC" / "Properties" / "C12Gen.lean",
         LEAN / "CollectionsC" / "Properties" / "C10Gen.lean"]
LIB = LEAN / ".lake" / "build" / "lib" / "lean"
RB, SP, PQ = "src/cc_ring_buffer.c", "src/memory/cc_static_pool.c", "src/cc_pqueue.c"

SCENARIOS = [
    ("baseline", [], set()),
    ("E1 enqueue: `size < capacity` -> `<=`",
     [(RB, "cc_rbuf_enqueue", "rbuf->size < rbuf->capacity", "rbuf->size <= rbuf->capacity")],
     {"rbuf_enqueue_agrees"}),
    ("E2 dequeue: `% capacity` dropped",
     [(RB, "cc_rbuf_dequeue", "(rbuf->tail + 1) % rbuf->capacity", "(rbuf->tail + 1)")],
     {"rbuf_dequeue_agrees"}),
    ("E3 enqueue: slot write and head update exchanged",
     [(RB, "cc_rbuf_enqueue",
       "rbuf->buf[rbuf->head] = item;\n\n    rbuf->head = (rbuf->head + 1) % rbuf->capacity;",
       "rbuf->head = (rbuf->head + 1) % rbuf->capacity;\n\n    rbuf->buf[rbuf->head] = item;")],
     {"rbuf_enqueue_agrees"}),
    ("E4 static pool malloc: fit test `>` -> `>=`",
     [(SP, "cc_static_pool_malloc", "size > pool->size - used", "size >= pool->size - used")],
     {"core_malloc_agrees"}),
    ("E5 peek: upper-bound guard dropped (values still coincide, only `fault = false` is lost)",
     [(RB, "cc_rbuf_peek", "index < 0 || (size_t) index >= rbuf->capacity", "index < 0")],
     {"rbuf_peek_agrees"}),
    ("E6 dequeue: the emptiness guard dropped",
     [(RB, "cc_rbuf_dequeue", "if (cc_rbuf_is_empty(rbuf))\n        return CC_ERR_OUT_OF_RANGE;\n", "")],
     {"rbuf_dequeue_agrees"}),
    ("E7 calloc: `memset` no longer guarded by `if (ptr)` (memset(NULL) on a refused request)",
     [(SP, "cc_static_pool_calloc",
       "if ((ptr = cc_static_pool_malloc(count * size, pool))) {\n        memset(ptr, 0, (count * size));\n    }",
       "ptr = cc_static_pool_malloc(count * size, pool);\n    memset(ptr, 0, (count * size));")],
     {"core_calloc_agrees"}),
    ("E8 calloc: operands of the overflow guard exchanged (division by zero for size 0)",
     [(SP, "cc_static_pool_calloc", "size != 0 && count > ((size_t) -1) / size", "count > ((size_t) -1) / size && size != 0")],
     {"core_calloc_agrees"}),
    ("E9 constructor: `ringbuf->head = 0` -> `= 1`",
     [(RB, "cc_rbuf_conf_new", "ringbuf->head        = 0;", "ringbuf->head        = 1;")],
     {"rbuf_conf_new_agrees"}),
    ("E10 constructor: the release pointer is not copied into the new buffer",
     [(RB, "cc_rbuf_conf_new", "ringbuf->mem_free    = rconf->mem_free;", "")],
     {"rbuf_conf_new_agrees"}),
    ("E11 static pool constructor ignores `offset`",
     [(SP, "cc_static_pool_new", "pool->block    = data_buf + offset;", "pool->block    = data_buf;")],
     {"spool_new_agrees"}),
    ("E12 destroy no longer releases the struct (leak)",
     [(RB, "cc_rbuf_destroy", "rbuf->mem_free(rbuf);", "")],
     {"rbuf_destroy_agrees"}),
    ("P1 pqueue heapify: `L < pq->size` -> `<=` (reads one slot past the heap)",
     [(PQ, "cc_pqueue_heapify", "L < pq->size", "L <= pq->size")],
     {"heapify_step"}),
    ("P2 pqueue push: the sift-up loop stops at `>= 0` instead of `> 0`",
     [(PQ, "cc_pqueue_push", "pq->cmp(child, parent) > 0", "pq->cmp(child, parent) >= 0")],
     {"loop_step_pos", "loop_step_neg"}),
    ("P3 pqueue macro: `CC_PARENT` divides by 3",
     [(PQ, None, "#define CC_PARENT(x)  ((x > 0) ? (x - 1) / 2 : 0)", "#define CC_PARENT(x)  ((x > 0) ? (x - 1) / 3 : 0)")],
     {"loop_step_pos", "push_room"}),
    ("P4 pqueue constructor: the byte-size guard dropped",
     [(PQ, "cc_pqueue_new_conf", "if (conf->capacity > CC_MAX_ELEMENTS / sizeof(void*))\n        return CC_ERR_INVALID_CAPACITY;", "")],
     {"pq_new_conf_agrees"}),
    ("W1 width: `size_t head, tail;` -> `uint8_t head, tail;` (must be refused)",
     [(RB, None, "    size_t head, tail;", "    uint8_t head, tail;")], None),
    ("W2 width: `(size_t) index` -> `(uint8_t) index` in peek (must be refused)",
     [(RB, "cc_rbuf_peek", "(size_t) index", "(uint8_t) index")], None),
    ("W3 width: `size_t used` -> `uint32_t used` in malloc (must be refused)",
     [(SP, "cc_static_pool_malloc", "size_t used", "uint32_t used")], None),
    ("W4 a file-level `#define tail head` (must be refused)",
     [(RB, None, "struct ring_buffer_conf {", "#define tail head\nstruct ring_buffer_conf {")], None),
    ("H  behaviour-preserving rewrites",
     [(SP, "cc_static_pool_malloc", "size_t used = pool->free_ptr - pool->low_ptr;",
       "size_t taken = (size_t) (pool->free_ptr - pool->low_ptr);"),
      (SP, "cc_static_pool_malloc", "size > pool->size - used", "size > pool->size - taken"),
      (RB, "cc_rbuf_enqueue", "++rbuf->size;", "{ rbuf->size = rbuf->size + 1; }"),
      (RB, "cc_rbuf_dequeue", "--rbuf->size;", "rbuf->size -= 1;")],
     set()),
    ("H' behaviour-preserving: ternary, else-if chain, declaration without initialiser, compound assignment",
     [(RB, "cc_rbuf_enqueue", "if (rbuf->size < rbuf->capacity)\n        ++rbuf->size;",
       "rbuf->size = (rbuf->size < rbuf->capacity) ? rbuf->size + 1 : rbuf->size;"),
      (SP, "cc_static_pool_free", "if (ptr == pool->high_ptr) {\n        pool->free_ptr = pool->high_ptr;\n    }",
       "uint8_t* top;\n    top = pool->high_ptr;\n    if (ptr != top) {\n    } else if (ptr == top) {\n        pool->free_ptr = top;\n    }"),
      (RB, "cc_rbuf_peek", "(size_t) index >= rbuf->capacity", "index >= rbuf->capacity"),   # C converts the int itself
      (SP, "cc_static_pool_free_bytes", "return pool->size - (pool->free_ptr - pool->low_ptr);",
       "size_t n = pool->size;\n    n -= (pool->free_ptr - pool->low_ptr);\n    return n;")],
     set()),
    ("HP pqueue behaviour-preserving: locals renamed, `size++` as `+= 1`, a swap through a differently named temporary, `break` instead of a conjunct of the loop condition",
     [(PQ, "cc_pqueue_heapify", "size_t tmp = index;", "size_t start = index;"),
      (PQ, "cc_pqueue_heapify", "if (index != tmp) {", "if (index != start) {"),
      (PQ, "cc_pqueue_heapify", "void *swap_tmp = pq->buffer[tmp];\n        pq->buffer[tmp] = pq->buffer[index];",
       "void *held = pq->buffer[start];\n        pq->buffer[start] = pq->buffer[index];"),
      (PQ, "cc_pqueue_heapify", "pq->buffer[index] = swap_tmp;", "pq->buffer[index] = held;"),
      (PQ, "cc_pqueue_push", "pq->size++;", "pq->size += 1;"),
      (PQ, "cc_pqueue_push", "while (i != 0 && pq->cmp(child, parent) > 0) {",
       "while (i != 0) {\n        if (!(pq->cmp(child, parent) > 0))\n            break;"),
      (PQ, "cc_pqueue_pop", "pq->size--;", "pq->size -= 1;")],
     set()),
] + [
    (f"{h} behaviour-preserving rewrite seeded_harmless/{h}/patch.diff", [("patch", ROOT / "seeded_harmless" / h / "patch.diff")], set())
    for h in ("H6-1", "H6-2", "H6-3") if (ROOT / "seeded_harmless" / h / "patch.diff").exists()
]


def sh(cmd, **kw):
    return subprocess.run(cmd, stdout=subprocess.PIPE, stderr=subprocess.STDOUT, text=True, **kw)


def mutate(repo, f, fname, old, new):
    """replace `old` by `new` inside the definition of fname only"""
    p = repo / f
    txt = p.read_text()
    if fname is None:
        if txt.count(old) != 1:
            raise SystemExit(f"self-test: `{old}` occurs {txt.count(old)} times in {f}")
        p.write_text(txt.replace(old, new))
        return
    m = None
    for cand in re.finditer(r"^(?:\w[\w \*]*)?\b" + re.escape(fname) + r"\s*\(", txt, re.M):
        depth, j = 0, cand.end() - 1
        while j < len(txt):
            depth += (txt[j] == "(") - (txt[j] == ")")
            if depth == 0:
                break
            j += 1
        if txt[j + 1:].lstrip().startswith("{"):      # a definition, not a prototype
            m = cand
            break
    if not m:
        raise SystemExit(f"self-test: {fname} not found in {f}")
    end = txt.index("\n}", m.start())
    body = txt[m.start():end]
    if body.count(old) != 1:
        raise SystemExit(f"self-test: `{old}` occurs {body.count(old)} times in {fname}")
    p.write_text(txt[:m.start()] + body.replace(old, new) + txt[end:])


def mirror_lib(dst):
    """symlink mirror of the built library, without Generated/Funcs.*"""
    for d, _, files in os.walk(LIB):
        rel = Path(d).relative_to(LIB)
        (dst / rel).mkdir(parents=True, exist_ok=True)
        for f in files:
            if rel == Path("CollectionsC/Generated") and f.startswith("Funcs."):
                continue
            os.symlink(Path(d) / f, dst / rel / f)


def blocks_of(prop):
    src = prop.read_text().split("\n")
    out = []
    for i, line in enumerate(src, 1):
        m = re.match(r"^(theorem|example)\b\s*(\S*)", line)
        if m:
            out.append((i, m.group(2) if m.group(1) == "theorem" else f"example@{prop.stem}:{i}"))
    return out


def run(tmp, label, edits):
    """-> (failing theorem names, failing examples, translator problems, error lines, generated text)"""
    repo = tmp / label / "repo"
    shutil.copytree(REPO / "src", repo / "src")
    for e in edits:
        if e[0] == "patch":
            r = sh(["patch", "-p1", "-d", str(repo), "-i", str(e[1])])
            if r.returncode != 0:
                # a patch written against an older tree may have hunks that no longer apply; that is
                # tolerated only in files the translator does not read
                rej = re.findall(r"saving rejects to file (\S+?)\.rej", r.stdout)
                translated = {c["file"] for c in gen_funcs.TABLE}
                if not rej or any(x in translated for x in rej):
                    raise SystemExit(f"self-test [{label}]: {e[1]} does not apply:\n{r.stdout}")
                print(f"        note: {Path(e[1]).parent.name}: a hunk of {', '.join(rej)} does not apply to the current "
                      f"tree (file not translated); the rest of the patch is applied")
        else:
            mutate(repo, *e)
    work = tmp / label / "lean"
    gen = work / "CollectionsC" / "Generated"
    shutil.copytree(GEN, gen)
    problems = gen_funcs.write(repo, gen / "Funcs.lean")
    lib = tmp / label / "lib"
    mirror_lib(lib)
    r = sh(["lake", "env", "sh", "-c",
            f'cd {work} && LEAN_PATH={lib} exec lean -o {lib}/CollectionsC/Generated/Funcs.olean '
            f'CollectionsC/Generated/Funcs.lean'], cwd=LEAN)
    if r.returncode != 0:
        raise SystemExit(f"self-test [{label}]: the regenerated Funcs.lean does not compile:\n{r.stdout}")
    bad, examples, lines = set(), set(), []
    for prop in PROPS:
        r = sh(["lake", "env", "sh", "-c", f'LEAN_PATH={lib} exec lean {prop}'], cwd=LEAN)
        blocks = blocks_of(prop)
        found = False
        for m in re.finditer(r"^(\S+?):(\d+):(\d+): error: (.*)$", r.stdout, re.M):
            found = True
            ln = int(m.group(2))
            owner = [n for i, n in blocks if i <= ln]
            name = owner[-1] if owner else f"{prop.stem}:{ln}"
            (examples if name.startswith("example@") else bad).add(name)
            lines.append(f"{prop.name}:{ln} ({name}): {m.group(4)[:70]}")
        if r.returncode != 0 and not found:
            raise SystemExit(f"self-test [{label}]: lean failed without an error position:\n{r.stdout[-2000:]}")
    # theorems whose proofs use a failed theorem (lean elaborates them against the failed statement)
    tainted, frontier = set(), set(bad)
    while frontier:
        nxt = set()
        for prop in PROPS:
            src = prop.read_text().split("\n")
            bl = blocks_of(prop)
            for k, (i, name) in enumerate(bl):
                j = bl[k + 1][0] - 1 if k + 1 < len(bl) else len(src)
                body = "\n".join(src[i:j])       # without the statement's first line
                if name not in bad and name not in tainted and any(re.search(r"\b" + re.escape(b) + r"\b", body) for b in frontier):
                    nxt.add(name)
        tainted |= nxt
        frontier = nxt
    return bad, examples, problems, lines, (gen / "Funcs.lean").read_text(), tainted


def main():
    before = hashlib.sha256((GEN / "Funcs.lean").read_bytes()).hexdigest()
    r = sh([str(ROOT / "tools" / "lk"), "build", "CollectionsC.Proofs.Rbuf", "CollectionsC.Proofs.StaticPool",
            "CollectionsC.Generated.Funcs"])
    if r.returncode != 0:
        raise SystemExit("self-test: could not build the imports of C19Gen/C12Gen:\n" + r.stdout[-2000:])
    ok = True
    with tempfile.TemporaryDirectory(prefix="gen_funcs_test_") as t:
        tmp = Path(t)
        for k, (label, edits, expected) in enumerate(SCENARIOS):
            bad, examples, problems, lines, txt, tainted = run(tmp, f"s{k}", edits)
            if expected is None:
                good = bool(problems)
                print(f"[{'ok' if good else 'FAIL'}] {label}")
                print(f"        translator: {problems[0] if problems else 'NO PROBLEM REPORTED'}")
                ok = ok and good
                continue
            good = bad == expected and not problems
            if label == "baseline":
                same = txt == (GEN / "Funcs.lean").read_text()
                good = good and same and not examples
                print(f"[{'ok' if good else 'FAIL'}] baseline: regenerated Funcs.lean identical to the tree's: {same}; "
                      f"failing theorems: {sorted(bad) or 'none'}")
            else:
                print(f"[{'ok' if good else 'FAIL'}] {label}")
                print(f"        failing theorems: {sorted(bad) or 'none'}"
                      + (f" (+ non-vacuity examples {sorted(examples)})" if examples else ""))
                print(f"        expected exactly: {sorted(expected) or 'none'}")
                if tainted:
                    print(f"        proved from a failed theorem: {sorted(tainted)}")
            if not good:
                for x in problems + lines:
                    print("       ", x)
            ok = ok and good
    after = hashlib.sha256((GEN / "Funcs.lean").read_bytes()).hexdigest()
    print(f"Generated/Funcs.lean in the tree untouched: {before == after}")
    ok = ok and before == after
    print("SELF-TEST", "PASSED" if ok else "FAILED")
    return 0 if ok else 1


if __name__ == "__main__":
    sys.exit(main())
