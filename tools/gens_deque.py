"""History generator for the deque (container name `deque`, shim harness/shim_deque.c).

Op vocabulary (all take `o=<slot>` 0..3, default 0):
  new cap=N | new_default | destroy (releases every live object) | drop (cc_deque_destroy of one slot)
  destroy_cb | add v | add_first v | add_last v | add_at v i | replace_at v i | remove v | remove_at i
  remove_first | remove_last | remove_all | remove_all_cb | get_at i | get_first | get_last | reverse
  trim | contains v | contains_value v | index_of v | size | foreach | filter_mut
  mk_filter to=k | mk_copy_shallow to=k | mk_copy_deep to=k
  it_new it_next it_remove it_add v it_replace v it_index
  zit_new o=a o2=b | zit_next | zit_add v w | zit_remove | zit_replace v w | zit_index
  `noout=1` passes NULL for the out parameter(s).

focus=None emits only the operations C05 names (both ends, indices, values, reverse, filter_mut, trim and
the read-only observers); the other focus values add iterators / builders / boundary arguments / growth /
allocating ops (see CONVENTIONS addendum).  The generator keeps an exact simulation (content and capacity)
so that it knows sizes, which calls allocate, and where finding D3 would be hit.
"""
import itertools, random

SIZE_MAX = 2**64 - 1
MAX_POW_TWO = 2**31


def d3_excluded(index, size):
    """KNOWN FINDING D3: cc_deque_add_at takes its (wrong, test-pinned) front-half branch exactly when
    1 <= index and index + 1 <= size / 2 (size = number of elements before the call).  Such calls
    (and it_add / zit_add, which call add_at with the cursor position) are kept out of the main streams;
    witnesses: corpus/deque/defect_D3_wrapped.ops, defect_D3_unwrapped.ops."""
    return 1 <= index and index + 1 <= size // 2


def d3_risky_under_fault(index, size):
    """the runner turns any allocating op of a `fault` history into a refused one, after which the real
    size (and an iterator position) can be one smaller than simulated: stay well clear of the D3 range"""
    return not (index == 0 or index > size // 2 + 1 or index >= size)


def upper_pow_two(n):
    if n >= MAX_POW_TWO:
        return MAX_POW_TWO
    if n == 0:
        return 1
    p = 1
    while p < n:
        p *= 2
    return p


BIG_OFFSETS = [2**31, 2**32, 2**63]
BIG_BASES = [1, 2, 3, 6]


def pick_value(rng):
    """CONVENTIONS addendum 3: besides small values and duplicates, values that differ from a small value (and
    from each other) by exactly 2^31, 2^32 or 2^63, and values near 2^64 - 1 — a comparison that truncates a
    pointer difference to int / 32 bits makes such elements compare equal"""
    r = rng.random()
    if r < 0.06:
        return 0            # NULL element
    if r < 0.42:
        return rng.randint(1, 6)    # duplicates likely
    if r < 0.52:
        return rng.choice([10, 11, 12, 21, 22, 31, 16, 26])   # equal modulo 10 (contains_value)
    if r < 0.70:
        return rng.choice(BIG_BASES) + rng.choice(BIG_OFFSETS + [2**32 + 2**31, 2**63 + 2**32])
    if r < 0.76:
        return 2**64 - 1 - rng.choice([0, 1, 2, 2**32, 2**31])
    return rng.randint(1, 99)


class Sim:
    """ideal content + capacity of one deque"""

    def __init__(self, conf_cap):
        self.items = []
        self.cap = upper_pow_two(conf_cap)

    def clone(self):
        s = Sim(1)
        s.items = list(self.items)
        s.cap = self.cap
        return s

    def grows(self):
        return len(self.items) == self.cap

    def grow(self):
        self.cap *= 2

    def trim_allocs(self):
        n = len(self.items)
        return self.cap != n and upper_pow_two(n) != self.cap

    def trim(self):
        if self.trim_allocs():
            self.cap = upper_pow_two(len(self.items))


CORE_OPS = ["add_last", "add_first", "add_at", "replace_at", "remove", "remove_at", "remove_first",
            "remove_last", "remove_all", "get_at", "get_first", "get_last", "reverse", "filter_mut",
            "trim", "contains", "contains_value", "index_of", "size", "foreach", "add"]
CORE_W = [14, 12, 12, 5, 4, 9, 6, 6, 1, 5, 2, 2, 3, 2, 3, 2, 2, 2, 1, 1, 3]
REJECT_IDX = lambda n: [max(n, 1) - 1, n, n + 1, 2**31, 2**63, SIZE_MAX - 1, SIZE_MAX]



def sparsify(rng, hist):
    """CONVENTIONS addendum 2: a sparse-observation session — `obs=sparse` on the constructor line, the obs
    section of every op then carries only status / out-values / callback log, and the content is swept only
    by `observe` (every 5-15 operations and once before the final destroy)."""
    if not hist or not hist[0].startswith("new"):
        return hist
    out = [hist[0] + " obs=sparse"]
    gap = rng.randint(5, 15)
    body = hist[1:-1] if hist[-1].startswith("destroy") else hist[1:]
    for op in body:
        out.append(op)
        gap -= 1
        if gap <= 0:
            out.append("observe")
            gap = rng.randint(5, 15)
    if hist[-1].startswith("destroy"):
        out += ["observe", hist[-1]]
    return out


def sparse_third(hists, seed):
    """every third history (deterministically for small-scope lists) runs in sparse mode"""
    r = random.Random(seed)
    return [sparsify(r, h) if i % 3 == 1 else h for i, h in enumerate(hists)]


class DequeGen:
    name = "deque"

    # ------------------------------------------------------------------ one core op
    def core_op(self, rng, sim, ops, slot=0, reject=False, fault=False, only=None, allow_fail=False):
        """append one core operation on `sim` to ops; keeps sim in step"""
        n = len(sim.items)
        sfx = f" o={slot}" if slot else ""
        op = only or rng.choices(CORE_OPS, CORE_W)[0]
        if fault and not only and rng.random() < 0.5:
            op = rng.choice(["add_last", "add_first", "add_at", "trim", "add"])
        noout = " noout=1" if rng.random() < 0.3 else ""
        v = pick_value(rng)
        fail = ""
        refused = False

        def maybe_fail(allocs):
            nonlocal fail, refused
            if allow_fail and rng.random() < 0.25:
                fail = " fail=1"
                refused = allocs
        if op in ("add", "add_last", "add_first"):
            maybe_fail(sim.grows())
            if not refused:
                if sim.grows():
                    sim.grow()
                if op == "add_first":
                    sim.items.insert(0, v)
                else:
                    sim.items.append(v)
            ops.append(f"{op} {v}{sfx}{fail}")
        elif op == "add_at":
            if reject and rng.random() < 0.6:
                i = rng.choice(REJECT_IDX(n))
                if i < n and d3_excluded(i, n):
                    i = n
            else:
                cand = [i for i in range(n) if not (d3_risky_under_fault(i, n) if fault else d3_excluded(i, n))]
                if not cand:
                    return self.core_op(rng, sim, ops, slot, reject, fault, "add_last", allow_fail)
                i = rng.choice(cand)
            if i < n:
                maybe_fail(sim.grows())
                if not refused:
                    if sim.grows():
                        sim.grow()
                    sim.items.insert(i, v)
            ops.append(f"add_at {v} {i}{sfx}{fail}")
        elif op in ("replace_at", "remove_at", "get_at"):
            if n == 0 or (reject and rng.random() < 0.6):
                i = rng.choice(REJECT_IDX(n))
            else:
                i = rng.choice([0, n - 1, rng.randrange(n), rng.randrange(n)])
            if op == "replace_at":
                if i < n:
                    sim.items[i] = v
                ops.append(f"replace_at {v} {i}{sfx}{noout}")
            elif op == "remove_at":
                if i < n:
                    del sim.items[i]
                ops.append(f"remove_at {i}{sfx}{noout}")
            else:
                ops.append(f"get_at {i}{sfx}")
        elif op == "remove":
            if n and rng.random() < (0.4 if reject else 0.8):
                v = rng.choice(sim.items)
            if v in sim.items:
                sim.items.remove(v)
            ops.append(f"remove {v}{sfx}{noout}")
        elif op == "remove_first":
            if n:
                del sim.items[0]
            ops.append(f"remove_first{sfx}{noout}")
        elif op == "remove_last":
            if n:
                del sim.items[-1]
            ops.append(f"remove_last{sfx}{noout}")
        elif op == "remove_all":
            sim.items = []
            ops.append(f"remove_all{sfx}")
        elif op == "reverse":
            sim.items.reverse()
            ops.append(f"reverse{sfx}")
        elif op == "filter_mut":
            sim.items = [x for x in sim.items if x % 2 == 0]
            ops.append(f"filter_mut{sfx}")
        elif op == "trim":
            maybe_fail(sim.trim_allocs())
            if not refused:
                sim.trim()
            ops.append(f"trim{sfx}{fail}")
        elif op in ("contains", "contains_value", "index_of"):
            if n and rng.random() < 0.7:
                v = rng.choice(sim.items)
            ops.append(f"{op} {v}{sfx}")
        else:
            ops.append(f"{op}{sfx}")

    # ------------------------------------------------------------------ iterator programs
    def iter_program(self, rng, sim, ops, slot=0, fault=False, reject=False, allow_fail=False):
        """it_new; then next / one mutation per yielded element / index, until the end"""
        sfx = f" o={slot}" if slot else ""
        ops.append(f"it_new{sfx}")
        pos = 0
        if reject and rng.random() < 0.5:      # mutators before the first next are rejected and inert
            ops.append(rng.choice(["it_remove", f"it_replace {pick_value(rng)}"]))
        p_mut = rng.choice([0.0, 0.3, 0.6, 1.0])
        kinds = rng.choice([["remove"], ["add"], ["replace"], ["remove", "add", "replace"]])
        steps = 0
        while steps < 80:
            steps += 1
            ops.append("it_next")
            if pos >= len(sim.items):
                if rng.random() < 0.3:
                    ops.append("it_next")       # END is sticky
                if rng.random() < 0.3 and not fault:   # adding behind the end is add_last
                    v = pick_value(rng)
                    fl = ""
                    refused = False
                    if allow_fail and rng.random() < 0.3:
                        fl, refused = " fail=1", sim.grows()
                    if not refused:
                        if sim.grows():
                            sim.grow()
                        sim.items.insert(pos, v)
                        pos += 1
                    ops.append(f"it_add {v}{fl}")
                    ops.append("it_next")
                break
            pos += 1
            if rng.random() < 0.3:
                ops.append("it_index")
            if rng.random() < p_mut:
                k = rng.choice(kinds)
                n = len(sim.items)
                if k == "remove":
                    del sim.items[pos - 1]
                    pos -= 1
                    ops.append("it_remove" + (" noout=1" if rng.random() < 0.2 else ""))
                    if reject and rng.random() < 0.3:
                        ops.append("it_remove")     # second removal of the same element is rejected
                elif k == "add":
                    bad = (d3_risky_under_fault(pos, n) if fault else d3_excluded(pos, n)) and pos != n
                    if not bad:
                        v = pick_value(rng)
                        fl = ""
                        refused = False
                        if allow_fail and rng.random() < 0.3:
                            fl, refused = " fail=1", sim.grows()
                        if not refused:
                            if sim.grows():
                                sim.grow()
                            sim.items.insert(pos, v)
                            pos += 1
                        ops.append(f"it_add {v}{fl}")
                        if rng.random() < 0.3:
                            ops.append("it_index")
                else:
                    v = pick_value(rng)
                    sim.items[pos - 1] = v
                    ops.append(f"it_replace {v}" + (" noout=1" if rng.random() < 0.2 else ""))
            if rng.random() < 0.04:
                break

    def zip_program(self, rng, s1, s2, ops, a=0, b=1, fault=False, reject=False, allow_fail=False):
        ops.append(f"zit_new o={a} o2={b}")
        pos = 0
        if reject and rng.random() < 0.5:
            ops.append(rng.choice(["zit_remove", f"zit_replace {pick_value(rng)} {pick_value(rng)}"]))
        p_mut = rng.choice([0.0, 0.3, 0.7])
        kinds = rng.choice([["remove"], ["add"], ["replace"], ["remove", "add", "replace"]])
        steps = 0
        while steps < 60:
            steps += 1
            ops.append("zit_next")
            if pos >= min(len(s1.items), len(s2.items)):
                if rng.random() < 0.3:
                    ops.append("zit_next")
                if reject and rng.random() < 0.5:
                    ops.append(f"zit_add {pick_value(rng)} {pick_value(rng)}")   # behind the shorter one: rejected
                break
            pos += 1
            if rng.random() < 0.3:
                ops.append("zit_index")
            if rng.random() < p_mut:
                k = rng.choice(kinds)
                n1, n2 = len(s1.items), len(s2.items)
                if k == "remove":
                    del s1.items[pos - 1]
                    del s2.items[pos - 1]
                    pos -= 1
                    ops.append("zit_remove" + (" noout=1" if rng.random() < 0.2 else ""))
                    if reject and rng.random() < 0.3:
                        ops.append("zit_remove")
                elif k == "add":
                    if pos < n1 and pos < n2:
                        ex = d3_risky_under_fault if fault else d3_excluded
                        if not ex(pos, n1) and not ex(pos, n2):
                            v, w = pick_value(rng), pick_value(rng)
                            fl = ""
                            refused = False
                            if allow_fail and rng.random() < 0.3:
                                # the first allocator call of the op belongs to the first deque that grows
                                fl, refused = " fail=1", (s1.grows() or s2.grows())
                            if not refused:          # refused: abs of both unchanged, nothing grew
                                for s, x in ((s1, v), (s2, w)):
                                    if s.grows():
                                        s.grow()
                                    s.items.insert(pos, x)
                                pos += 1
                            ops.append(f"zit_add {v} {w}{fl}")
                else:
                    v, w = pick_value(rng), pick_value(rng)
                    s1.items[pos - 1] = v
                    s2.items[pos - 1] = w
                    ops.append(f"zit_replace {v} {w}" + (" noout=1" if rng.random() < 0.2 else ""))
            if rng.random() < 0.04:
                break

    def zip_self_program(self, rng, s, ops, slot=0, fault=False, reject=False, allow_fail=False):
        """zip iterator with the SAME deque on both sides (`zit_new o=k o2=k`): the library then works on
        one object through both pointers — add inserts two elements (…, w, v, …), remove takes the yielded
        element and its successor, replace leaves the second value.
        Since repair D13 a refused growth inside the second add_at is all-or-nothing as well
        (corpus/deque/regress_D13_zip_alias_add_refused.ops), so fail= / fault enumeration is allowed here."""
        ops.append(f"zit_new o={slot} o2={slot}")
        pos = 0
        if reject and rng.random() < 0.5:
            ops.append(rng.choice(["zit_remove", f"zit_replace {pick_value(rng)} {pick_value(rng)}"]))
        p_mut = rng.choice([0.0, 0.4, 0.8])
        kinds = rng.choice([["remove"], ["add"], ["replace"], ["remove", "add", "replace"]])
        steps = 0
        while steps < 40:
            steps += 1
            ops.append("zit_next")
            if pos >= len(s.items):
                if rng.random() < 0.3:
                    ops.append("zit_next")
                if reject and rng.random() < 0.5:
                    ops.append(f"zit_add {pick_value(rng)} {pick_value(rng)}")     # behind the end: rejected
                break
            pos += 1
            if rng.random() < 0.3:
                ops.append("zit_index")
            if rng.random() < p_mut:
                k = rng.choice(kinds)
                n = len(s.items)
                if k == "remove":
                    del s.items[pos - 1]
                    if pos - 1 < len(s.items):
                        del s.items[pos - 1]
                    pos -= 1
                    ops.append("zit_remove" + (" noout=1" if rng.random() < 0.2 else ""))
                    if reject and rng.random() < 0.3:
                        ops.append("zit_remove")
                elif k == "add":
                    ex = d3_risky_under_fault if fault else d3_excluded
                    if pos < n and not ex(pos, n) and not ex(pos, n + 1):
                        v, w = pick_value(rng), pick_value(rng)
                        cap1 = s.cap * 2 if s.grows() else s.cap          # growth test of zip_iter_add itself
                        second_grows = (n + 1 == cap1)                    # the second add_at grows on its own
                        fl, refused = "", False
                        if allow_fail and (s.grows() or second_grows) and rng.random() < 0.4:
                            fl, refused = " fail=1", True     # first allocator call refused: all-or-nothing (D13)
                        if not refused:
                            s.cap = cap1 * 2 if second_grows else cap1
                            s.items.insert(pos, v)
                            s.items.insert(pos, w)
                            pos += 1
                        ops.append(f"zit_add {v} {w}{fl}")
                else:
                    v, w = pick_value(rng), pick_value(rng)
                    s.items[pos - 1] = w
                    ops.append(f"zit_replace {v} {w}" + (" noout=1" if rng.random() < 0.2 else ""))
            if rng.random() < 0.05:
                break

    # ------------------------------------------------------------------ builders
    def derived_program(self, rng, sims, ops, fault=False, reject=False, allow_fail=False):
        """build a derived deque from slot 0 into a free slot, then mutate both alternately, drop one"""
        src = 0
        free = [k for k in (1, 2, 3) if sims[k] is None]
        if not free or sims[src] is None:
            return
        to = rng.choice(free)
        kind = rng.choice(["mk_copy_shallow", "mk_copy_deep", "mk_filter"])
        s = sims[src]
        fl = ""
        refused = False
        if allow_fail and rng.random() < 0.3:
            fl = f" fail={rng.choice([1, 2])}"
            refused = not (kind == "mk_filter" and not s.items)
        ops.append(f"{kind} to={to}{fl}")
        if kind == "mk_filter" and not s.items:
            return                               # rejected on an empty source: no object
        if refused:
            return
        d = s.clone()
        if kind == "mk_copy_deep":
            d.items = [(x + 1000) % 2**64 for x in d.items]
        elif kind == "mk_filter":
            d.items = [x for x in d.items if x % 2 == 0]
        sims[to] = d
        for _ in range(rng.randint(2, 20)):
            k = rng.choice([src, to])
            self.core_op(rng, sims[k], ops, slot=k, reject=reject, fault=fault, allow_fail=allow_fail)
        r = rng.random()
        if r < 0.3:
            ops.append(f"drop o={to}")
            sims[to] = None
        elif r < 0.4:
            ops.append(f"destroy_cb o={to}")
            sims[to] = None

    # ------------------------------------------------------------------ re-creation at a reused address
    @staticmethod
    def recreate_program(k, cc, conf_first, n1=3, n2=3, keep=False):
        """a container at slot k is destroyed and IMMEDIATELY re-created through the other constructor (other
        allocator triple) — no allocation in between, so the new header can land on the freed address —, then
        every builder derives from it and each derived deque is appended to until it grows.  Catches state
        cached by parent address (seeded change in cc_list.c).  Returns (ops, content of slot k, its capacity,
        whether slot k is now on the C library triple)."""
        sk = f" o={k}" if k else ""
        mk_conf, mk_def = f"new cap={cc}{sk}", f"new_default{sk}"
        first, second = (mk_conf, mk_def) if conf_first else (mk_def, mk_conf)
        ops = [first] + [f"add_last {10 + i}{sk}" for i in range(n1)] + [f"drop o={k}", second]
        items = [20 + i for i in range(n2)]
        ops += [f"add_last {v}{sk}" for v in items]
        cap = 8 if conf_first else upper_pow_two(cc)
        while cap < len(items):
            cap *= 2
        others = [j for j in range(4) if j != k][:3]
        for j, mk in zip(others, ("mk_copy_shallow", "mk_copy_deep", "mk_filter")):
            ops.append(f"{mk} to={j}{sk}")
            size = len([x for x in items if x % 2 == 0]) if mk == "mk_filter" else len(items)
            ops += [f"add_last {40 + i} o={j}" for i in range(cap - size + 1)]      # … until it grows
            ops += [f"remove_first o={j}", "observe"]
        ops += [f"drop o={j}" for j in others]
        if not keep:
            ops.append(f"drop o={k}")
        return ops, items, cap, conf_first

    # ------------------------------------------------------------------ layouts (small scope)
    @staticmethod
    def layout(cap, f, s, slot=0, base=10):
        """a deque with capacity `cap` (power of two), first == f and elements base+1..base+s"""
        sfx = f" o={slot}" if slot else ""
        ops = [f"new cap={cap}{sfx}"]
        for i in range(f):
            ops.append(f"add_last 99{sfx}")
            ops.append(f"remove_first{sfx} noout=1")
        ops += [f"add_last {base + 1 + i}{sfx}" for i in range(s)]
        return ops

    def layouts(self, caps):
        for cap in caps:
            for f in range(cap):
                for s in range(cap + 1):
                    yield cap, f, s

    def small_scope(self, tier, focus=None):
        return sparse_third(self._small_scope(tier, focus), 12345)

    def _small_scope(self, tier, focus=None):
        out = []
        caps = (1, 2, 4, 8) if tier == "quick" else (1, 2, 4, 8, 16)
        if focus in (None, "reject", "all", "growth", "fault"):
            for cap, f, s in self.layouts(caps):
                pre = self.layout(cap, f, s)
                singles = ["add_first 77", "add_last 77", "remove_first", "remove_last", "reverse", "trim",
                           "filter_mut", "remove_all", "foreach", "get_first", "get_last", "size",
                           "remove 12", "remove 99", f"remove {10 + s}", "index_of 12", f"index_of {10 + s}",
                           "contains 11", "contains_value 21", "remove_last noout=1", "remove_first noout=1",
                           "remove 12 noout=1", "remove 99 noout=1"]
                if focus == "fault":
                    singles = ["add_first 77", "add_last 77", "trim"]
                if focus == "growth":
                    singles = ["add_first 77", "add_last 77", "trim"]
                for o in singles:
                    out.append(pre + [o, "get_at 0", "destroy"])
                idxs = list(range(s + 2))
                if focus in ("reject", "all"):
                    idxs += [2**31, 2**63, SIZE_MAX - 1, SIZE_MAX]
                for i in idxs:
                    if not d3_excluded(i, s):
                        out.append(pre + [f"add_at 77 {i}", "destroy"])
                    if focus in ("fault", "growth"):
                        continue
                    out.append(pre + [f"remove_at {i}", "destroy"])
                    out.append(pre + [f"replace_at 77 {i}", "destroy"])
                    if cap <= 4 or i in (0, s - 1, s):       # the same with a NULL out-pointer
                        out.append(pre + [f"remove_at {i} noout=1", "get_at 0", "destroy"])
                        out.append(pre + [f"replace_at 77 {i} noout=1", "get_at 0", "destroy"])
                    out.append(pre + [f"get_at {i}", "destroy"])
            # lookups and removal by value among elements that differ by exactly 2^31 / 2^32 / 2^63 and near 2^64-1
            big = [5, 5 + 2**32, 5 + 2**31, 5 + 2**63, 2**64 - 1, 2**64 - 1 - 2**32, 5 + 2**32]
            for cap in (8, 16):
                for f in (0, 3, cap - 1):
                    pre = self.layout(cap, f, 0) + [f"add_last {v}" for v in big]
                    for v in big + [5 + 2**33, 2**32, 0]:
                        for o in (f"contains {v}", f"index_of {v}", f"remove {v}", f"remove {v} noout=1", f"contains_value {v}"):
                            out.append(pre + [o, "get_at 0", "foreach", "destroy"])
            # configured capacities that are not powers of two, then growth through several doublings
            for cc in (0, 1, 3, 5, 6, 7, 9, 12, 17, 33):
                ops = [f"new cap={cc}"]
                for i in range(2 * upper_pow_two(cc) + 3):
                    ops.append((f"add_first {i + 1}" if i % 3 == 0 else f"add_last {i + 1}"))
                ops += ["remove_first", "remove_last", "trim", "add_at 7 0", "remove_all", "trim", "add 5", "destroy"]
                out.append(ops)
            if focus == "all":                      # only "all" carries fail= (CONVENTIONS addendum)
                out.append(["new cap=4 fail=1", "add 1", "destroy"])
                out.append(["new cap=4 fail=2", "add 1", "destroy"])
            out.append(["new_default", "add 1", "add_first 2", "remove_last", "remove_last", "remove_last", "destroy"])
            # default constructor = C library triple: growth, trim and removal must stay on that triple
            out.append(["new_default"] + [f"add_last {i}" if i % 2 else f"add_first {i}" for i in range(1, 20)] +
                       ["remove_first", "remove_at 3", "trim", "add_at 7 0", "filter_mut", "trim", "remove_all", "trim", "destroy"])
        if focus in ("iter", "all"):
            icaps = (1, 2, 4) if tier == "quick" else (1, 2, 4, 8)
            for cap, f, s in self.layouts(icaps):
                pre = self.layout(cap, f, s)
                walk = ["it_new"] + ["it_next", "it_index"] * s + ["it_next", "it_next"]
                out.append(pre + walk + ["destroy"])
                for k in range(1, s + 1):       # one mutation directly after the k-th yield
                    head = ["it_new"] + ["it_next"] * k
                    tail = ["it_next"] * (s - k + 2)
                    out.append(pre + head + ["it_remove", "it_index"] + tail + ["destroy"])
                    out.append(pre + head + ["it_replace 77", "it_index"] + tail + ["destroy"])
                    out.append(pre + head + ["it_remove noout=1", "it_index"] + tail + ["destroy"])
                    out.append(pre + head + ["it_replace 77 noout=1", "it_index"] + tail + ["destroy"])
                    if not d3_excluded(k, s) or k == s:
                        out.append(pre + head + ["it_add 77", "it_index"] + tail + ["destroy"])
                    out.append(pre + head + ["it_remove", "it_remove", "it_next", "it_replace 55"] + tail + ["destroy"])
                # zip against a second deque of every length up to cap (front offset 1 when possible)
                for s2 in range(0, cap + 1):
                    pre2 = self.layout(cap, min(1, cap - 1), s2, slot=1, base=50)
                    m = min(s, s2)
                    out.append(pre + pre2 + ["zit_new o=0 o2=1"] + ["zit_next", "zit_index"] * m + ["zit_next", "zit_next", "destroy"])
                    for k in range(1, m + 1):
                        head = ["zit_new o=0 o2=1"] + ["zit_next"] * k
                        tail = ["zit_next"] * (m - k + 2)
                        out.append(pre + pre2 + head + ["zit_remove", "zit_index"] + tail + ["destroy"])
                        out.append(pre + pre2 + head + ["zit_replace 77 88"] + tail + ["destroy"])
                        out.append(pre + pre2 + head + ["zit_remove noout=1", "zit_index"] + tail + ["destroy"])
                        out.append(pre + pre2 + head + ["zit_replace 77 88 noout=1"] + tail + ["destroy"])
                        if k < s and k < s2 and not d3_excluded(k, s) and not d3_excluded(k, s2):
                            out.append(pre + pre2 + head + ["zit_add 77 88", "zit_index"] + tail + ["destroy"])
        if focus in ("iter", "growth", "all"):
            # the SAME deque on both sides of the zip iterator, capacities 1..4 (3 is rounded up), exactly
            # 0 or 1 free slots, every front offset, one mutation after the k-th yield
            for cc in (1, 2, 3, 4):
                cap = upper_pow_two(cc)
                for f in range(cap):
                    for s in sorted({cap, cap - 1}):
                        if s < 0:
                            continue
                        pre = [f"new cap={cc}"] + self.layout(cap, f, s)[1:]
                        out.append(pre + ["zit_new o=0 o2=0"] + ["zit_next", "zit_index"] * s + ["zit_next", "zit_next", "destroy"])
                        for k in range(1, s + 1):
                            head = ["zit_new o=0 o2=0"] + ["zit_next"] * k
                            tail = ["zit_next"] * (s - k + 3)
                            out.append(pre + head + ["zit_remove", "zit_index"] + tail + ["destroy"])
                            out.append(pre + head + ["zit_remove", "zit_remove"] + tail + ["destroy"])
                            out.append(pre + head + ["zit_replace 77 88"] + tail + ["destroy"])
                            if k < s and not d3_excluded(k, s) and not d3_excluded(k, s + 1):
                                out.append(pre + head + ["zit_add 77 88", "zit_index"] + tail + ["get_at 0", "destroy"])
        if focus in ("derived", "all"):
            dcaps = (1, 2, 4) if tier == "quick" else (1, 2, 4, 8)
            for cap, f, s in self.layouts(dcaps):
                pre = self.layout(cap, f, s)
                for mk in ("mk_copy_shallow", "mk_copy_deep", "mk_filter"):
                    out.append(pre + [f"{mk} to=1", "add_last 5 o=1", "add_first 6 o=1", "remove_first", "add_last 7",
                                      "remove_last o=1", "drop o=0", "add_last 8 o=1", "foreach o=1", "destroy"])
                    out.append(pre + [f"{mk} to=2", "drop o=2", "add_last 7", "destroy"])
                out.append(pre + ["destroy_cb"])
            # destroy + immediate re-creation on the other triple at the same slot, then every builder
            for k in (0, 1):
                for cc in (1, 2, 4, 5):
                    for conf_first in (True, False):
                        for n1, n2 in ((1, 1), (3, 3), (2, 5)):
                            out.append(self.recreate_program(k, cc, conf_first, n1, n2)[0] + ["destroy"])
            # derived containers of a default-constructed deque inherit the C library triple
            for mk in ("mk_copy_shallow", "mk_copy_deep", "mk_filter"):
                out.append(["new_default"] + [f"add_last {i}" for i in range(1, 9)] +
                           [f"{mk} to=1"] + [f"add_last {i} o=1" for i in range(20, 30)] +
                           ["trim o=1", "drop o=0", "add_first 5 o=1", "destroy_cb o=1", "destroy"])
                out.append(pre + ["remove_all_cb", "add 1", "destroy"])
        return out

    def fault_seeds(self, tier):
        return sparse_third(self._fault_seeds(tier), 777)

    def _fault_seeds(self, tier):
        """histories whose every allocating operation is worth refusing (the runner adds fail=k)"""
        out = []
        for cap in (1, 2, 4):
            for f in range(cap):
                pre = self.layout(cap, f, cap)
                for o in ("add_first 77", "add_last 77", "add_at 77 0", f"add_at 77 {cap - 1}", "mk_copy_shallow to=1",
                          "mk_copy_deep to=1", "mk_filter to=1"):
                    out.append(pre + [o, "add_last 5", "get_at 0", "destroy"])
                out.append(pre + ["remove_first", "trim", "add_last 5", "destroy"])
                out.append(pre + ["it_new", "it_next", "it_next", "it_next", "it_next", "it_add 9", "destroy"])
                if cap >= 4 and f == 0:   # same deque, ONE free slot: the second add_at has to grow by itself (D13)
                    out.append(self.layout(cap, f, cap - 1) + ["zit_new o=0 o2=0"] + ["zit_next"] * (cap // 2) +
                               ["zit_add 7 8", "zit_next", "get_at 0", "add_last 5", "destroy"])
                if cap >= 4:      # same deque on both sides, full: the only allocation is zip_iter_add's own growth test
                    out.append(pre + ["zit_new o=0 o2=0"] + ["zit_next"] * (cap // 2 + 1) + ["zit_add 7 8", "zit_next", "get_at 0", "destroy"])
                pre2 = self.layout(cap, 0, cap, slot=1, base=50)
                if cap >= 2:
                    out.append(pre + pre2 + ["zit_new o=0 o2=1", "zit_next"] + ["zit_next"] * (cap // 2 + 1) + ["zit_add 7 8", "zit_next", "destroy"])
        return out

    # ------------------------------------------------------------------ random histories
    def random(self, rng, n, tier, focus=None):
        hs = self._random(rng, n, tier, focus)
        return [sparsify(rng, h) if rng.random() < 0.34 else h for h in hs]

    def _random(self, rng, n, tier, focus=None):
        out = []
        allf = focus == "all"
        for _ in range(n):
            cc = rng.choice([0, 1, 2, 3, 4, 5, 6, 7, 8, 9, 12, 16, 17, 33] if rng.random() < 0.8 else list(range(34)))
            sims = [Sim(cc), None, None, None]
            ops = [f"new cap={cc}"]
            default_obj = False
            if focus in (None, "derived", "growth", "all") and rng.random() < 0.06:
                sims[0] = Sim(8)                 # cc_deque_new: default capacity, C library triple
                ops = ["new_default"]
                default_obj = True
            if focus in ("derived", "all") and rng.random() < 0.2:
                # early: drop + immediate re-creation through the other constructor, builders, growth
                pre, items, cap, is_default = self.recreate_program(0, cc, rng.random() < 0.5,
                                                                    rng.randint(1, 4), rng.randint(1, 6), keep=True)
                ops = pre
                sims = [Sim(1), None, None, None]
                sims[0].items, sims[0].cap = list(items), cap
                default_obj = is_default
            fault = focus == "fault"
            reject = focus in ("reject", "all")
            allow_fail = allf and not default_obj   # the C library triple is never refused: fail= would desynchronise the simulation
            length = rng.randint(1, 70 if focus != "growth" else 400)
            p_add = rng.choice([0.2, 0.45, 0.6, 0.8])
            i = 0
            while i < length:
                i += 1
                r = rng.random()
                s0 = sims[0]
                p_iter = {"iter": 0.12, "all": 0.05}.get(focus, 0.0)
                p_der = {"derived": 0.15, "all": 0.05, "fault": 0.05}.get(focus, 0.0)
                if focus == "growth" and r < 0.003:
                    self.zip_self_program(rng, s0, ops, slot=0)
                elif focus == "growth" and r < 0.85:
                    self.core_op(rng, s0, ops, only=rng.choice(["add_last", "add_first", "add_last", "add"]))
                elif r < p_iter:
                    if rng.random() < 0.65:
                        self.iter_program(rng, s0, ops, fault=fault, reject=reject, allow_fail=allow_fail)
                    else:
                        if sims[1] is None:
                            c2 = rng.choice([1, 2, 3, 4, 8])
                            sims[1] = Sim(c2)
                            ops.append(f"new cap={c2} o=1")
                        for _ in range(rng.randint(0, 9)):
                            self.core_op(rng, sims[1], ops, slot=1, only=rng.choice(["add_last", "add_first", "remove_first", "add_last"]))
                        if rng.random() < 0.25:      # the same deque on both sides
                            self.zip_self_program(rng, s0, ops, slot=0, fault=fault, reject=reject, allow_fail=allow_fail)
                        else:
                            a, b = rng.choice([(0, 1), (1, 0)])
                            self.zip_program(rng, sims[a], sims[b], ops, a=a, b=b, fault=fault, reject=reject, allow_fail=allow_fail)
                elif r < p_iter + p_der:
                    self.derived_program(rng, sims, ops, fault=fault, reject=reject, allow_fail=allow_fail)
                elif focus in ("derived", "all") and r < p_iter + p_der + 0.015:
                    ops.append("remove_all_cb")
                    s0.items = []
                elif rng.random() < p_add:
                    self.core_op(rng, s0, ops, only=rng.choice(["add_last", "add_first", "add_at", "add"]),
                                 reject=reject, fault=fault, allow_fail=allow_fail)
                else:
                    self.core_op(rng, s0, ops, reject=reject, fault=fault, allow_fail=allow_fail)
                if rng.random() < 0.04:
                    p_add = rng.choice([0.1, 0.5, 0.9])
            if focus in ("derived", "all") and rng.random() < 0.15:
                ops.append("destroy_cb")
            ops.append("destroy")
            out.append(ops)
        return out


GEN = DequeGen()
