"""History generator for the deque (container name `deque`, shim harness/shim_deque.c).

Op vocabulary (all take `o=<slot>` 0..3, default 0):
  new cap=N | new_default | destroy (releases every live object) | drop (cc_deque_destroy of one slot)
  destroy_cb | add v | add_first v | add_last v | add_at v i | replace_at v i | remove v | remove_at i
  remove_first | remove_last | remove_all | remove_all_cb | get_at i | get_first | get_last | reverse
  trim | contains v | contains_value v | index_of v | size | foreach | filter_mut
  mk_filter to=k | mk_copy_shallow to=k | mk_copy_deep to=k
  it_new it_next it_remove it_add v it_replace v it_index
  zit_new o=a o2=b | zit_next | zit_add v w | zit_remove | zit_replace v w | zit_index
  `noout=1` passes NULL for the out parameter(s).  Constructor lines take `obs=sparse` (content sweep only on
  `observe`) and `phys=quiet` (buffer checksum `buf=#n` instead of the slot dump, full dump on `observe`).

Cursor sessions (focus iter / reject / all) are simulated with the library's own cursor state (index + flag), so
they can be interleaved with direct calls on the walked object, start with a mutator before the first next, and
stand behind the end.  `scale(rng, tier)` returns a few long histories (ROUND12 A), run by every check.

focus=None emits only the operations C05 names (both ends, indices, values, reverse, filter_mut, trim and
the read-only observers); the other focus values add iterators / builders / boundary arguments / growth /
allocating ops (see CONVENTIONS addendum).  The generator keeps an exact simulation (content and capacity)
so that it knows sizes, which calls allocate, and where finding D3 would be hit.
"""
import itertools, random

SIZE_MAX = 2**64 - 1
MAX_POW_TWO = 2**31


def d3_excluded(index, size):
    """KNOWN FINDING D3: cc_deque_add_at takes its (wrong, test-pinned) front-half branch exactly when
    1 <= index and index + 1 <= size / 2 (size = number of elements before the call).  Such calls
    (and it_add / zit_add, which call add_at with the cursor position) are kept out of the main streams;
    witnesses: corpus/deque/defect_D3_wrapped.ops, defect_D3_unwrapped.ops."""
    return 1 <= index and index + 1 <= size // 2


def d3_risky_under_fault(index, size):
    """Histories meant for the runner's refusal enumeration (`fault`).  The runner refuses ONE allocator call of ANY
    earlier operation (growth, trim, a mk_* builder, the constructor), so the real object can differ from the
    simulated one: it is usually one element shorter, but it can also be LONGER (refused add_first x, remove_at of
    the last index rejected on the shorter real deque, then `remove x` finds nothing to remove), and by-position /
    by-value / parity operations can widen the gap by a few elements in either direction.  The real call is
    add_at(index) on some size n'; it avoids finding D3 (1 <= index <= n'/2 - 1) for EVERY n' <= 2*index + 1.
    Kept are therefore only index 0 (never D3), rejected indices (>= size) and index >= size/2 + 2, which is safe
    for every real size up to size + 5 and every smaller one; everything else is kept out.  Wider than the
    `finding:` text on purpose; tools check: every single-refusal variant of the fault streams was replayed on the
    real harness asserting that no add_at / it_add / zit_add executes at a D3 position (seeds 0..40)."""
    return not (index == 0 or index > size // 2 + 1 or index >= size)


def upper_pow_two(n):
    if n >= MAX_POW_TWO:
        return MAX_POW_TWO
    if n == 0:
        return 1
    p = 1
    while p < n:
        p *= 2
    return p


BIG_OFFSETS = [2**31, 2**32, 2**63]
BIG_BASES = [1, 2, 3, 6]


def pick_value(rng):
    """CONVENTIONS addendum 3: besides small values and duplicates, values that differ from a small value (and
    from each other) by exactly 2^31, 2^32 or 2^63, and values near 2^64 - 1 — a comparison that truncates a
    pointer difference to int / 32 bits makes such elements compare equal"""
    r = rng.random()
    if r < 0.06:
        return 0            # NULL element
    if r < 0.42:
        return rng.randint(1, 6)    # duplicates likely
    if r < 0.52:
        return rng.choice([10, 11, 12, 21, 22, 31, 16, 26])   # equal modulo 10 (contains_value)
    if r < 0.70:
        return rng.choice(BIG_BASES) + rng.choice(BIG_OFFSETS + [2**32 + 2**31, 2**63 + 2**32])
    if r < 0.76:
        # 2^64 - 1000: the harness deep-copy callback (v + 1000 mod 2^64) maps it to NULL — a copy_deep that took a
        # NULL image for a failed copy would stop / fail there
        return 2**64 - 1 - rng.choice([0, 1, 2, 2**32, 2**31, 999, 999])
    return rng.randint(1, 99)


class Sim:
    """ideal content + capacity of one deque"""

    def __init__(self, conf_cap):
        self.items = []
        self.cap = upper_pow_two(conf_cap)

    def clone(self):
        s = Sim(1)
        s.items = list(self.items)
        s.cap = self.cap
        return s

    def grows(self):
        return len(self.items) == self.cap

    def grow(self):
        self.cap *= 2

    def trim_allocs(self):
        n = len(self.items)
        return self.cap != n and upper_pow_two(n) != self.cap

    def trim(self):
        if self.trim_allocs():
            self.cap = upper_pow_two(len(self.items))


CORE_OPS = ["add_last", "add_first", "add_at", "replace_at", "remove", "remove_at", "remove_first",
            "remove_last", "remove_all", "get_at", "get_first", "get_last", "reverse", "filter_mut",
            "trim", "contains", "contains_value", "index_of", "size", "foreach", "add"]
CORE_W = [14, 12, 12, 5, 4, 9, 6, 6, 1, 5, 2, 2, 3, 2, 3, 2, 2, 2, 1, 1, 3]
MIXED_OPS = ["remove_last", "remove_first", "remove_at", "remove_all", "add_last", "add_first", "add_at", "trim", "filter_mut"]
MIXED_W = [6, 5, 4, 1, 4, 4, 2, 1, 1]
REJECT_IDX = lambda n: [max(n, 1) - 1, n, n + 1, 2**31, 2**63, SIZE_MAX - 1, SIZE_MAX]



def sparsify(rng, hist):
    """CONVENTIONS addendum 2: a sparse-observation session — `obs=sparse` on the constructor line, the obs
    section of every op then carries only status / out-values / callback log, and the content is swept only
    by `observe` (every 5-15 operations and once before the final destroy)."""
    if not hist or not hist[0].startswith("new"):
        return hist
    out = [hist[0] + " obs=sparse"]
    gap = rng.randint(5, 15)
    body = hist[1:-1] if hist[-1].startswith("destroy") else hist[1:]
    for op in body:
        out.append(op)
        gap -= 1
        if gap <= 0:
            out.append("observe")
            gap = rng.randint(5, 15)
    if hist[-1].startswith("destroy"):
        out += ["observe", hist[-1]]
    return out


def sparse_third(hists, seed):
    """every third history (deterministically for small-scope lists) runs in sparse mode"""
    r = random.Random(seed)
    return [sparsify(r, h) if i % 3 == 1 else h for i, h in enumerate(hists)]


class DequeGen:
    name = "deque"

    # ------------------------------------------------------------------ one core op
    def core_op(self, rng, sim, ops, slot=0, reject=False, fault=False, only=None, allow_fail=False):
        """append one core operation on `sim` to ops; keeps sim in step"""
        n = len(sim.items)
        sfx = f" o={slot}" if slot else ""
        op = only or rng.choices(CORE_OPS, CORE_W)[0]
        if fault and not only and rng.random() < 0.5:
            op = rng.choice(["add_last", "add_first", "add_at", "trim", "add"])
        noout = " noout=1" if rng.random() < 0.3 else ""
        v = pick_value(rng)
        fail = ""
        refused = False

        def maybe_fail(allocs):
            nonlocal fail, refused
            if allow_fail and rng.random() < 0.25:
                fail = " fail=1"
                refused = allocs
        if op in ("add", "add_last", "add_first"):
            maybe_fail(sim.grows())
            if not refused:
                if sim.grows():
                    sim.grow()
                if op == "add_first":
                    sim.items.insert(0, v)
                else:
                    sim.items.append(v)
            ops.append(f"{op} {v}{sfx}{fail}")
        elif op == "add_at":
            if reject and rng.random() < 0.6:
                i = rng.choice(REJECT_IDX(n))
                if i < n and d3_excluded(i, n):
                    i = n
            else:
                cand = [i for i in range(n) if not (d3_risky_under_fault(i, n) if fault else d3_excluded(i, n))]
                if not cand:
                    return self.core_op(rng, sim, ops, slot, reject, fault, "add_last", allow_fail)
                i = rng.choice(cand)
            if i < n:
                maybe_fail(sim.grows())
                if not refused:
                    if sim.grows():
                        sim.grow()
                    sim.items.insert(i, v)
            ops.append(f"add_at {v} {i}{sfx}{fail}")
        elif op in ("replace_at", "remove_at", "get_at"):
            if n == 0 or (reject and rng.random() < 0.6):
                i = rng.choice(REJECT_IDX(n))
            else:
                i = rng.choice([0, n - 1, rng.randrange(n), rng.randrange(n)])
            if op == "replace_at":
                if i < n:
                    sim.items[i] = v
                ops.append(f"replace_at {v} {i}{sfx}{noout}")
            elif op == "remove_at":
                if i < n:
                    del sim.items[i]
                ops.append(f"remove_at {i}{sfx}{noout}")
            else:
                ops.append(f"get_at {i}{sfx}")
        elif op == "remove":
            if n and rng.random() < (0.4 if reject else 0.8):
                v = rng.choice(sim.items)
            if v in sim.items:
                sim.items.remove(v)
            ops.append(f"remove {v}{sfx}{noout}")
        elif op == "remove_first":
            if n:
                del sim.items[0]
            ops.append(f"remove_first{sfx}{noout}")
        elif op == "remove_last":
            if n:
                del sim.items[-1]
            ops.append(f"remove_last{sfx}{noout}")
        elif op == "remove_all":
            sim.items = []
            ops.append(f"remove_all{sfx}")
        elif op == "reverse":
            sim.items.reverse()
            ops.append(f"reverse{sfx}")
        elif op == "filter_mut":
            sim.items = [x for x in sim.items if x % 2 == 0]
            ops.append(f"filter_mut{sfx}")
        elif op == "trim":
            maybe_fail(sim.trim_allocs())
            if not refused:
                sim.trim()
            ops.append(f"trim{sfx}{fail}")
        elif op in ("contains", "contains_value", "index_of"):
            if n and rng.random() < 0.7:
                v = rng.choice(sim.items)
            ops.append(f"{op} {v}{sfx}")
        else:
            ops.append(f"{op}{sfx}")

    # ------------------------------------------------------------------ iterator programs
    def direct_ops(self, rng, sim, ops, slot, reject, fault, allow_fail):
        """1-3 direct container calls on the object an iterator session is walking (ROUND12 C): the cursor is just
        an index, so shortening / lengthening the deque behind its back is legal input"""
        for _ in range(rng.choice([1, 1, 2, 3])):
            self.core_op(rng, sim, ops, slot=slot, reject=reject, fault=fault, allow_fail=allow_fail,
                         only=rng.choices(MIXED_OPS, MIXED_W)[0])

    def iter_program(self, rng, sim, ops, slot=0, fault=False, reject=False, allow_fail=False, mixed=False):
        """it_new; then next / mutations / index until the end.  The simulation keeps the cursor the way the library
        does (index + last_removed flag), so every call is predictable wherever the cursor stands: behind the end
        after direct removals (`mixed`), before the first next, twice on the same element."""
        sfx = f" o={slot}" if slot else ""
        ex = d3_risky_under_fault if fault else d3_excluded
        ops.append(f"it_new{sfx}")
        pos, removed = 0, False
        n = lambda: len(sim.items)

        def do_remove():
            nonlocal pos, removed
            if not removed and 1 <= pos <= n():
                del sim.items[pos - 1]
                pos -= 1
                removed = True
            ops.append("it_remove" + (" noout=1" if rng.random() < 0.2 else ""))

        def do_replace():
            v = pick_value(rng)
            if 1 <= pos <= n():
                sim.items[pos - 1] = v
            ops.append(f"it_replace {v}" + (" noout=1" if rng.random() < 0.2 else ""))

        def do_add():
            nonlocal pos
            if pos < n() and ex(pos, n()):
                return False                      # KNOWN FINDING D3 (add_at front half): kept out
            v = pick_value(rng)
            fl = ""
            if pos <= n():                        # pos == size: add_last; pos < size: add_at; pos > size: rejected
                refused = False
                if allow_fail and rng.random() < 0.3:
                    fl, refused = " fail=1", sim.grows()
                if not refused:
                    if sim.grows():
                        sim.grow()
                    sim.items.insert(pos, v)
                    pos += 1
            ops.append(f"it_add {v}{fl}")
            return True

        if reject and rng.random() < 0.5:      # mutators before the first next are rejected and inert
            rng.choice([do_remove, do_replace])()
        if rng.random() < 0.12:                # … but it_add before the first next inserts at the front
            do_add()
        p_mut = rng.choice([0.0, 0.3, 0.6, 1.0])
        kinds = rng.choice([["remove"], ["add"], ["replace"], ["remove", "add", "replace"]])
        steps = 0
        while steps < 80:
            steps += 1
            if mixed and rng.random() < 0.2:
                self.direct_ops(rng, sim, ops, slot, reject, fault, allow_fail)
            ops.append("it_next")
            if pos >= n():
                if rng.random() < 0.3:
                    ops.append("it_next")       # END again
                if pos > n():                   # the deque was shortened behind the cursor: everything is rejected
                    for f in rng.sample([do_add, do_remove, do_replace], rng.randint(1, 3)):
                        f()
                    if rng.random() < 0.3:
                        ops.append("it_index")
                elif rng.random() < 0.3:        # adding behind the end is add_last
                    do_add()
                    ops.append("it_next")
                if mixed and rng.random() < 0.5:
                    continue                    # END is not sticky: after direct additions the walk goes on
                break
            pos += 1
            removed = False
            if rng.random() < 0.3:
                ops.append("it_index")
            if rng.random() < p_mut:
                k = rng.choice(kinds)
                if k == "remove":
                    do_remove()
                    if reject and rng.random() < 0.3:
                        do_remove()             # second removal of the same element is rejected
                elif k == "add":
                    if do_add() and rng.random() < 0.3:
                        ops.append("it_index")
                else:
                    do_replace()
            if rng.random() < 0.04:
                break

    def zip_program(self, rng, s1, s2, ops, a=0, b=1, fault=False, reject=False, allow_fail=False, mixed=False):
        ex = d3_risky_under_fault if fault else d3_excluded
        ops.append(f"zit_new o={a} o2={b}")
        pos, removed = 0, False
        m = lambda: min(len(s1.items), len(s2.items))

        def do_remove():
            nonlocal pos, removed
            if not removed and 1 <= pos <= m():
                del s1.items[pos - 1]
                del s2.items[pos - 1]
                pos -= 1
                removed = True
            ops.append("zit_remove" + (" noout=1" if rng.random() < 0.2 else ""))

        def do_replace():
            v, w = pick_value(rng), pick_value(rng)
            if 1 <= pos <= m():
                s1.items[pos - 1] = v
                s2.items[pos - 1] = w
            ops.append(f"zit_replace {v} {w}" + (" noout=1" if rng.random() < 0.2 else ""))

        def do_add():
            nonlocal pos
            n1, n2 = len(s1.items), len(s2.items)
            if pos < n1 and pos < n2 and (ex(pos, n1) or ex(pos, n2)):
                return                              # KNOWN FINDING D3
            v, w = pick_value(rng), pick_value(rng)
            fl = ""
            if pos < n1 and pos < n2:               # otherwise rejected: behind the end of the shorter one
                refused = False
                if allow_fail and rng.random() < 0.3:
                    # the first allocator call of the op belongs to the first deque that grows
                    fl, refused = " fail=1", (s1.grows() or s2.grows())
                if not refused:                     # refused: abs of both unchanged, nothing grew
                    for s, x in ((s1, v), (s2, w)):
                        if s.grows():
                            s.grow()
                        s.items.insert(pos, x)
                    pos += 1
            ops.append(f"zit_add {v} {w}{fl}")

        if reject and rng.random() < 0.5:
            rng.choice([do_remove, do_replace])()
        if rng.random() < 0.12:
            do_add()                                # before the first next: pair insertion at the front
        p_mut = rng.choice([0.0, 0.3, 0.7])
        kinds = rng.choice([["remove"], ["add"], ["replace"], ["remove", "add", "replace"]])
        steps = 0
        while steps < 60:
            steps += 1
            if mixed and rng.random() < 0.2:
                k = rng.choice([0, 1])
                self.direct_ops(rng, (s1, s2)[k], ops, (a, b)[k], reject, fault, allow_fail)
            ops.append("zit_next")
            if pos >= m():
                if rng.random() < 0.3:
                    ops.append("zit_next")
                if reject and rng.random() < 0.5 or pos > m():
                    for f in rng.sample([do_add, do_remove, do_replace], rng.randint(1, 3) if pos > m() else 1):
                        f()                         # behind the shorter one: add always rejected
                if mixed and rng.random() < 0.4:
                    continue
                break
            pos += 1
            removed = False
            if rng.random() < 0.3:
                ops.append("zit_index")
            if rng.random() < p_mut:
                k = rng.choice(kinds)
                if k == "remove":
                    do_remove()
                    if reject and rng.random() < 0.3:
                        do_remove()
                elif k == "add":
                    do_add()
                else:
                    do_replace()
            if rng.random() < 0.04:
                break

    def zip_self_program(self, rng, s, ops, slot=0, fault=False, reject=False, allow_fail=False, mixed=False):
        """zip iterator with the SAME deque on both sides (`zit_new o=k o2=k`): the library then works on
        one object through both pointers — add inserts two elements (…, w, v, …), remove takes the yielded
        element and its successor, replace leaves the second value.
        Since repair D13 a refused growth inside the second add_at is all-or-nothing as well
        (corpus/deque/regress_D13_zip_alias_add_refused.ops), so fail= / fault enumeration is allowed here."""
        ex = d3_risky_under_fault if fault else d3_excluded
        ops.append(f"zit_new o={slot} o2={slot}")
        pos, removed = 0, False
        n = lambda: len(s.items)

        def do_remove():
            nonlocal pos, removed
            if not removed and 1 <= pos <= n():
                del s.items[pos - 1]
                if pos - 1 < len(s.items):
                    del s.items[pos - 1]
                pos -= 1
                removed = True
            ops.append("zit_remove" + (" noout=1" if rng.random() < 0.2 else ""))

        def do_replace():
            v, w = pick_value(rng), pick_value(rng)
            if 1 <= pos <= n():
                s.items[pos - 1] = w
            ops.append(f"zit_replace {v} {w}" + (" noout=1" if rng.random() < 0.2 else ""))

        def do_add():
            nonlocal pos
            k = n()
            if pos < k and (ex(pos, k) or ex(pos, k + 1)):
                return                              # KNOWN FINDING D3 (either of the two add_at calls)
            v, w = pick_value(rng), pick_value(rng)
            fl = ""
            if pos < k:
                first_grows = s.grows()                                 # growth test of zip_iter_add itself
                cap1 = s.cap * 2 if first_grows else s.cap
                second_grows = (k + 1 == cap1)                          # the second add_at grows on its own
                refused = False
                if allow_fail and (first_grows or second_grows) and rng.random() < 0.4:
                    if first_grows and second_grows and rng.random() < 0.5:
                        fl, refused = " fail=2", True     # capacity 1: first growth granted and KEPT, second refused
                        s.cap = cap1
                    else:
                        fl, refused = " fail=1", True     # first allocator call refused: all-or-nothing (D13)
                if not refused:
                    s.cap = cap1 * 2 if second_grows else cap1
                    s.items.insert(pos, v)
                    s.items.insert(pos, w)
                    pos += 1
            ops.append(f"zit_add {v} {w}{fl}")

        if reject and rng.random() < 0.5:
            rng.choice([do_remove, do_replace])()
        if rng.random() < 0.2:
            do_add()                                # before the first next: index 0
        p_mut = rng.choice([0.0, 0.4, 0.8])
        kinds = rng.choice([["remove"], ["add"], ["replace"], ["remove", "add", "replace"]])
        steps = 0
        while steps < 40:
            steps += 1
            if mixed and rng.random() < 0.2:
                self.direct_ops(rng, s, ops, slot, reject, fault, allow_fail)
            ops.append("zit_next")
            if pos >= n():
                if rng.random() < 0.3:
                    ops.append("zit_next")
                if reject and rng.random() < 0.5 or pos > n():
                    for f in rng.sample([do_add, do_remove, do_replace], rng.randint(1, 3) if pos > n() else 1):
                        f()                         # behind the end: add always rejected
                if mixed and rng.random() < 0.4:
                    continue
                break
            pos += 1
            removed = False
            if rng.random() < 0.3:
                ops.append("zit_index")
            if rng.random() < p_mut:
                k = rng.choice(kinds)
                if k == "remove":
                    do_remove()
                    if reject and rng.random() < 0.3:
                        do_remove()
                elif k == "add":
                    do_add()
                else:
                    do_replace()
            if rng.random() < 0.05:
                break

    # ------------------------------------------------------------------ builders
    def derived_program(self, rng, sims, ops, fault=False, reject=False, allow_fail=False):
        """build a derived deque from slot 0 into a free slot, then mutate both alternately, drop one"""
        src = 0
        free = [k for k in (1, 2, 3) if sims[k] is None]
        if not free or sims[src] is None:
            return
        to = rng.choice(free)
        kind = rng.choice(["mk_copy_shallow", "mk_copy_deep", "mk_filter"])
        s = sims[src]
        fl = ""
        refused = False
        if allow_fail and rng.random() < 0.3:
            fl = f" fail={rng.choice([1, 2])}"
            refused = not (kind == "mk_filter" and not s.items)
        ops.append(f"{kind} to={to}{fl}")
        if kind == "mk_filter" and not s.items:
            return                               # rejected on an empty source: no object
        if refused:
            return
        d = s.clone()
        if kind == "mk_copy_deep":
            d.items = [(x + 1000) % 2**64 for x in d.items]
        elif kind == "mk_filter":
            d.items = [x for x in d.items if x % 2 == 0]
        sims[to] = d
        for _ in range(rng.randint(2, 20)):
            k = rng.choice([src, to])
            self.core_op(rng, sims[k], ops, slot=k, reject=reject, fault=fault, allow_fail=allow_fail)
        r = rng.random()
        if r < 0.3:
            ops.append(f"drop o={to}")
            sims[to] = None
        elif r < 0.4:
            ops.append(f"destroy_cb o={to}")
            sims[to] = None

    # ------------------------------------------------------------------ re-creation at a reused address
    @staticmethod
    def recreate_program(k, cc, conf_first, n1=3, n2=3, keep=False):
        """a container at slot k is destroyed and IMMEDIATELY re-created through the other constructor (other
        allocator triple) — no allocation in between, so the new header can land on the freed address —, then
        every builder derives from it and each derived deque is appended to until it grows.  Catches state
        cached by parent address (seeded change in cc_list.c).  Returns (ops, content of slot k, its capacity,
        whether slot k is now on the C library triple)."""
        sk = f" o={k}" if k else ""
        mk_conf, mk_def = f"new cap={cc}{sk}", f"new_default{sk}"
        first, second = (mk_conf, mk_def) if conf_first else (mk_def, mk_conf)
        ops = [first] + [f"add_last {10 + i}{sk}" for i in range(n1)] + [f"drop o={k}", second]
        items = [20 + i for i in range(n2)]
        ops += [f"add_last {v}{sk}" for v in items]
        cap = 8 if conf_first else upper_pow_two(cc)
        while cap < len(items):
            cap *= 2
        others = [j for j in range(4) if j != k][:3]
        for j, mk in zip(others, ("mk_copy_shallow", "mk_copy_deep", "mk_filter")):
            ops.append(f"{mk} to={j}{sk}")
            size = len([x for x in items if x % 2 == 0]) if mk == "mk_filter" else len(items)
            ops += [f"add_last {40 + i} o={j}" for i in range(cap - size + 1)]      # … until it grows
            ops += [f"remove_first o={j}", "observe"]
        ops += [f"drop o={j}" for j in others]
        if not keep:
            ops.append(f"drop o={k}")
        return ops, items, cap, conf_first

    # ------------------------------------------------------------------ layouts (small scope)
    @staticmethod
    def layout(cap, f, s, slot=0, base=10):
        """a deque with capacity `cap` (power of two), first == f and elements base+1..base+s"""
        sfx = f" o={slot}" if slot else ""
        ops = [f"new cap={cap}{sfx}"]
        for i in range(f):
            ops.append(f"add_last 99{sfx}")
            ops.append(f"remove_first{sfx} noout=1")
        ops += [f"add_last {base + 1 + i}{sfx}" for i in range(s)]
        return ops

    def layouts(self, caps):
        for cap in caps:
            for f in range(cap):
                for s in range(cap + 1):
                    yield cap, f, s

    def small_scope(self, tier, focus=None):
        return sparse_third(self._small_scope(tier, focus), 12345)

    def _small_scope(self, tier, focus=None):
        out = []
        caps = (1, 2, 4, 8) if tier == "quick" else (1, 2, 4, 8, 16)
        if focus in (None, "reject", "all", "growth", "fault"):
            for cap, f, s in self.layouts(caps):
                pre = self.layout(cap, f, s)
                singles = ["add_first 77", "add_last 77", "remove_first", "remove_last", "reverse", "trim",
                           "filter_mut", "remove_all", "foreach", "get_first", "get_last", "size",
                           "remove 12", "remove 99", f"remove {10 + s}", "index_of 12", f"index_of {10 + s}",
                           "contains 11", "contains_value 21", "remove_last noout=1", "remove_first noout=1",
                           "remove 12 noout=1", "remove 99 noout=1"]
                if focus == "fault":
                    singles = ["add_first 77", "add_last 77", "trim"]
                if focus == "growth":
                    singles = ["add_first 77", "add_last 77", "trim"]
                for o in singles:
                    out.append(pre + [o, "get_at 0", "destroy"])
                idxs = list(range(s + 2))
                if focus in ("reject", "all"):
                    idxs += [2**31, 2**63, SIZE_MAX - 1, SIZE_MAX]
                for i in idxs:
                    if not d3_excluded(i, s):
                        out.append(pre + [f"add_at 77 {i}", "destroy"])
                    if focus in ("fault", "growth"):
                        continue
                    out.append(pre + [f"remove_at {i}", "destroy"])
                    out.append(pre + [f"replace_at 77 {i}", "destroy"])
                    if cap <= 4 or i in (0, s - 1, s):       # the same with a NULL out-pointer
                        out.append(pre + [f"remove_at {i} noout=1", "get_at 0", "destroy"])
                        out.append(pre + [f"replace_at 77 {i} noout=1", "get_at 0", "destroy"])
                    out.append(pre + [f"get_at {i}", "destroy"])
            # lookups and removal by value among elements that differ by exactly 2^31 / 2^32 / 2^63 and near 2^64-1
            big = [5, 5 + 2**32, 5 + 2**31, 5 + 2**63, 2**64 - 1, 2**64 - 1 - 2**32, 5 + 2**32]
            for cap in (8, 16):
                for f in (0, 3, cap - 1):
                    pre = self.layout(cap, f, 0) + [f"add_last {v}" for v in big]
                    for v in big + [5 + 2**33, 2**32, 0]:
                        for o in (f"contains {v}", f"index_of {v}", f"remove {v}", f"remove {v} noout=1", f"contains_value {v}"):
                            out.append(pre + [o, "get_at 0", "foreach", "destroy"])
            # configured capacities that are not powers of two, then growth through several doublings
            for cc in (0, 1, 3, 5, 6, 7, 9, 12, 17, 33):
                ops = [f"new cap={cc}"]
                for i in range(2 * upper_pow_two(cc) + 3):
                    ops.append((f"add_first {i + 1}" if i % 3 == 0 else f"add_last {i + 1}"))
                ops += ["remove_first", "remove_last", "trim", "add_at 7 0", "remove_all", "trim", "add 5", "destroy"]
                out.append(ops)
            if focus == "all":                      # only "all" carries fail= (CONVENTIONS addendum)
                out.append(["new cap=4 fail=1", "add 1", "destroy"])
                out.append(["new cap=4 fail=2", "add 1", "destroy"])
            out.append(["new_default", "add 1", "add_first 2", "remove_last", "remove_last", "remove_last", "destroy"])
            # default constructor = C library triple: growth, trim and removal must stay on that triple
            out.append(["new_default"] + [f"add_last {i}" if i % 2 else f"add_first {i}" for i in range(1, 20)] +
                       ["remove_first", "remove_at 3", "trim", "add_at 7 0", "filter_mut", "trim", "remove_all", "trim", "destroy"])
        if focus in ("iter", "all"):
            icaps = (1, 2, 4) if tier == "quick" else (1, 2, 4, 8)
            for cap, f, s in self.layouts(icaps):
                pre = self.layout(cap, f, s)
                walk = ["it_new"] + ["it_next", "it_index"] * s + ["it_next", "it_next"]
                out.append(pre + walk + ["destroy"])
                for k in range(1, s + 1):       # one mutation directly after the k-th yield
                    head = ["it_new"] + ["it_next"] * k
                    tail = ["it_next"] * (s - k + 2)
                    out.append(pre + head + ["it_remove", "it_index"] + tail + ["destroy"])
                    out.append(pre + head + ["it_replace 77", "it_index"] + tail + ["destroy"])
                    out.append(pre + head + ["it_remove noout=1", "it_index"] + tail + ["destroy"])
                    out.append(pre + head + ["it_replace 77 noout=1", "it_index"] + tail + ["destroy"])
                    if not d3_excluded(k, s) or k == s:
                        out.append(pre + head + ["it_add 77", "it_index"] + tail + ["destroy"])
                    out.append(pre + head + ["it_remove", "it_remove", "it_next", "it_replace 55"] + tail + ["destroy"])
                # zip against a second deque of every length up to cap (front offset 1 when possible)
                for s2 in range(0, cap + 1):
                    pre2 = self.layout(cap, min(1, cap - 1), s2, slot=1, base=50)
                    m = min(s, s2)
                    out.append(pre + pre2 + ["zit_new o=0 o2=1"] + ["zit_next", "zit_index"] * m + ["zit_next", "zit_next", "destroy"])
                    for k in range(1, m + 1):
                        head = ["zit_new o=0 o2=1"] + ["zit_next"] * k
                        tail = ["zit_next"] * (m - k + 2)
                        out.append(pre + pre2 + head + ["zit_remove", "zit_index"] + tail + ["destroy"])
                        out.append(pre + pre2 + head + ["zit_replace 77 88"] + tail + ["destroy"])
                        out.append(pre + pre2 + head + ["zit_remove noout=1", "zit_index"] + tail + ["destroy"])
                        out.append(pre + pre2 + head + ["zit_replace 77 88 noout=1"] + tail + ["destroy"])
                        if k < s and k < s2 and not d3_excluded(k, s) and not d3_excluded(k, s2):
                            out.append(pre + pre2 + head + ["zit_add 77 88", "zit_index"] + tail + ["destroy"])
        if focus in ("iter", "growth", "all"):
            # the SAME deque on both sides of the zip iterator, capacities 1..4 (3 is rounded up), exactly
            # 0 or 1 free slots, every front offset, one mutation after the k-th yield
            for cc in (1, 2, 3, 4):
                cap = upper_pow_two(cc)
                for f in range(cap):
                    for s in sorted({cap, cap - 1}):
                        if s < 0:
                            continue
                        pre = [f"new cap={cc}"] + self.layout(cap, f, s)[1:]
                        out.append(pre + ["zit_new o=0 o2=0"] + ["zit_next", "zit_index"] * s + ["zit_next", "zit_next", "destroy"])
                        for k in range(1, s + 1):
                            head = ["zit_new o=0 o2=0"] + ["zit_next"] * k
                            tail = ["zit_next"] * (s - k + 3)
                            out.append(pre + head + ["zit_remove", "zit_index"] + tail + ["destroy"])
                            out.append(pre + head + ["zit_remove", "zit_remove"] + tail + ["destroy"])
                            out.append(pre + head + ["zit_replace 77 88"] + tail + ["destroy"])
                            if k < s and not d3_excluded(k, s) and not d3_excluded(k, s + 1):
                                out.append(pre + head + ["zit_add 77 88", "zit_index"] + tail + ["get_at 0", "destroy"])
        if focus in ("iter", "reject", "all"):
            # ROUND12 C: the deque is changed by DIRECT calls behind a cursor that has yielded k elements; then one
            # cursor call (rejected wherever the cursor now stands outside the deque), index, next
            mcaps = (2, 4) if tier == "quick" else (2, 4, 8)
            for cap, f, s in self.layouts(mcaps):
                if s == 0:
                    continue
                pre = self.layout(cap, f, s)
                for k in range(1, s + 1):
                    head = ["it_new"] + ["it_next"] * k
                    directs = [(["remove_last"] * j, s - j) for j in range(1, s + 1)]
                    directs += [(["remove_first"] * j, s - j) for j in range(1, s + 1)]
                    directs += [(["remove_all"], 0), (["remove_at 0"], s - 1), (["add_last 61"], s + 1),
                                (["add_first 62", "add_first 63"], s + 2), (["remove_last", "trim"], s - 1)]
                    for dops, n2 in directs:
                        for fin in ("it_add 77", "it_remove", "it_replace 55", "it_next"):
                            if fin == "it_add 77" and k < n2 and d3_excluded(k, n2):
                                continue                 # KNOWN FINDING D3
                            if focus == "reject" and not (k > n2 or (fin != "it_add 77" and k - 1 >= n2)):
                                if (k + len(dops) + s) % 3:
                                    continue             # reject: mostly the calls that must be rejected
                            out.append(pre + head + dops + [fin, "it_index", "it_next", "it_next", "get_at 0", "destroy"])
                    # the same with a zip cursor over (slot 0, slot 1): slot 0 shortened behind it
                    if cap <= 4:
                        pre2 = self.layout(cap, 0, s, slot=1, base=50)
                        for j in range(1, s + 1):
                            n2 = s - j
                            for fin in ("zit_add 77 88", "zit_remove", "zit_replace 55 66", "zit_next"):
                                if fin.startswith("zit_add") and k < n2 and (d3_excluded(k, n2) or d3_excluded(k, s)):
                                    continue
                                out.append(pre + pre2 + ["zit_new o=0 o2=1"] + ["zit_next"] * k + ["remove_last"] * j +
                                           [fin, "zit_index", "zit_next", "get_at 0", "destroy"])
        if focus in ("iter", "growth", "all"):
            # cursor insertion BEFORE the first next (index 0) in every layout; for the aliased zip on capacity 1 this
            # is the only position at which both add_at calls grow the buffer
            for cap, f, s in self.layouts((1, 2, 4)):
                pre = self.layout(cap, f, s)
                out.append(pre + ["it_new", "it_add 77", "it_index", "it_next", "it_next", "get_at 0", "destroy"])
                if s >= 1:
                    out.append(pre + ["zit_new o=0 o2=0", "zit_add 77 88", "zit_index", "zit_next", "zit_next", "get_at 0", "destroy"])
        if focus == "all":
            # ROUND12 C: aliased zip x capacity in {1, 2} x every refusal point (fail=3 never fires: two calls at most)
            for cap in (1, 2):
                for f in range(cap):
                    for s in range(1, cap + 1):
                        for k in range(0, s):
                            if d3_excluded(k, s) or d3_excluded(k, s + 1):
                                continue
                            for fl in (1, 2, 3):
                                out.append(self.layout(cap, f, s) + ["zit_new o=0 o2=0"] + ["zit_next"] * k +
                                           [f"zit_add 77 88 fail={fl}", "zit_index", "zit_next", "zit_next", "get_at 0",
                                            "add_last 5", "destroy"])
        if focus in ("derived", "all"):
            dcaps = (1, 2, 4) if tier == "quick" else (1, 2, 4, 8)
            for cap, f, s in self.layouts(dcaps):
                pre = self.layout(cap, f, s)
                for mk in ("mk_copy_shallow", "mk_copy_deep", "mk_filter"):
                    out.append(pre + [f"{mk} to=1", "add_last 5 o=1", "add_first 6 o=1", "remove_first", "add_last 7",
                                      "remove_last o=1", "drop o=0", "add_last 8 o=1", "foreach o=1", "destroy"])
                    out.append(pre + [f"{mk} to=2", "drop o=2", "add_last 7", "destroy"])
                out.append(pre + ["destroy_cb"])
            # destroy + immediate re-creation on the other triple at the same slot, then every builder
            for k in (0, 1):
                for cc in (1, 2, 4, 5):
                    for conf_first in (True, False):
                        for n1, n2 in ((1, 1), (3, 3), (2, 5)):
                            out.append(self.recreate_program(k, cc, conf_first, n1, n2)[0] + ["destroy"])
            # derived containers of a default-constructed deque inherit the C library triple
            for mk in ("mk_copy_shallow", "mk_copy_deep", "mk_filter"):
                out.append(["new_default"] + [f"add_last {i}" for i in range(1, 9)] +
                           [f"{mk} to=1"] + [f"add_last {i} o=1" for i in range(20, 30)] +
                           ["trim o=1", "drop o=0", "add_first 5 o=1", "destroy_cb o=1", "destroy"])
                out.append(pre + ["remove_all_cb", "add 1", "destroy"])
        return out

    def fault_seeds(self, tier):
        return sparse_third(self._fault_seeds(tier), 777)

    def _fault_seeds(self, tier):
        """histories whose every allocating operation is worth refusing (the runner adds fail=k)"""
        out = []
        for cap in (1, 2, 4):
            for f in range(cap):
                pre = self.layout(cap, f, cap)
                for o in ("add_first 77", "add_last 77", "add_at 77 0", f"add_at 77 {cap - 1}", "mk_copy_shallow to=1",
                          "mk_copy_deep to=1", "mk_filter to=1"):
                    out.append(pre + [o, "add_last 5", "get_at 0", "destroy"])
                out.append(pre + ["remove_first", "trim", "add_last 5", "destroy"])
                out.append(pre + ["it_new", "it_next", "it_next", "it_next", "it_next", "it_add 9", "destroy"])
                if cap >= 4 and f == 0:   # same deque, ONE free slot: the second add_at has to grow by itself (D13)
                    out.append(self.layout(cap, f, cap - 1) + ["zit_new o=0 o2=0"] + ["zit_next"] * (cap // 2) +
                               ["zit_add 7 8", "zit_next", "get_at 0", "add_last 5", "destroy"])
                if cap >= 4:      # same deque on both sides, full: the only allocation is zip_iter_add's own growth test
                    out.append(pre + ["zit_new o=0 o2=0"] + ["zit_next"] * (cap // 2 + 1) + ["zit_add 7 8", "zit_next", "get_at 0", "destroy"])
                # aliased zip on capacity 1 / 2, insertion at index 0 (before the first next) and after the first
                # yield: on capacity 1 with one element BOTH add_at calls grow (the runner refuses the 1st, the 2nd)
                if cap <= 2:
                    for s in range(1, cap + 1):
                        for k in range(0, s):
                            if not (d3_excluded(k, s) or d3_excluded(k, s + 1)):
                                out.append(self.layout(cap, f, s) + ["zit_new o=0 o2=0"] + ["zit_next"] * k +
                                           ["zit_add 7 8", "zit_index", "zit_next", "get_at 0", "add_last 5", "destroy"])
                out.append(pre + ["it_new", "it_add 9", "it_next", "get_at 0", "destroy"])
                pre2 = self.layout(cap, 0, cap, slot=1, base=50)
                if cap >= 2:
                    out.append(pre + pre2 + ["zit_new o=0 o2=1", "zit_next"] + ["zit_next"] * (cap // 2 + 1) + ["zit_add 7 8", "zit_next", "destroy"])
        return out

    # ------------------------------------------------------------------ scale (ROUND12 A)
    SCALE_CAPS = [1, 7, 8, 9, 255, 256, 257, 300, 513, 1000, 1023, 1024, 1025, 4100]

    def scale(self, rng, tier):
        """few LONG histories: constructor capacities around powers of two up to 4100 (upper_pow_two beyond 8 bits),
        600-1500 elements, then several hundred operations at the front, the middle and the back, iterator sweeps
        with removals / insertions (incl. over an EXACTLY FULL ring, insertion in the back half, walk continued
        beyond the old capacity), cursor sessions interleaved with direct calls, reverse / trim / copies / filter.
        Sessions are `obs=sparse phys=quiet` (buffer checksum per op, full dump on `observe` every ~50 ops).
        The models' memmove is quadratic, so operations that shift half a buffer are budgeted by capacity."""
        nh = 3 if tier == "quick" else 24
        caps = [rng.choice([257, 513]), 4100, rng.choice([c for c in self.SCALE_CAPS if c not in (257, 513, 4100)])] if tier == "quick" else \
            [self.SCALE_CAPS[i % len(self.SCALE_CAPS)] for i in range(nh)]
        hs = [self.scale_history(rng, cc, i) for i, cc in enumerate(caps)]
        if tier != "quick":
            hs.append(self.giant_history(rng))
        return hs

    @staticmethod
    def giant_history(rng):
        """ROUND13 (seeded change C05-11, growth step capped at 2^16 slots): more than 131072 elements in one deque,
        i.e. the growth steps 65536 -> 131072 -> 262144 (-> 524288), observed WHILE the capacity is what the step
        after 131072 produced.  `fill n=` appends in bulk, the content is probed by index around every multiple of
        2^16, at both ends and by `it_sweep` (n x iter_next, count + checksum); no `observe` (the dump would be MBs)."""
        n = 140000 + rng.randrange(0, 3000)
        cc = rng.choice([0, 5, 8, 1000, 4100])
        ops = [f"new cap={cc} obs=sparse phys=quiet", f"fill n=65536 seed={rng.randrange(1, 1000)}", "get_at 65535", "get_first",
               "add_first 4242", "get_at 65536", "get_at 1", f"fill n={n - 65537} seed={rng.randrange(1, 1000)}", "size"]
        probes = [0, 1, 65535, 65536, 65537, 131071, 131072, 131073, n - 2, n - 1, n, n + 1] + [rng.randrange(n) for _ in range(10)]
        ops += [f"get_at {i}" for i in probes] + ["get_first", "get_last"]
        ops += ["it_new", "it_sweep n=65530"] + ["it_next", "it_index"] * 8 + ["it_sweep n=65530"] + ["it_next", "it_index"] * 8
        ops += ["it_replace 777", "it_remove", "it_next", f"it_sweep n={n}", "it_next", "it_index"]
        ops += ["remove_first", "remove_last", "remove_first", "remove_last", "add_first 11", "add_last 12",
                f"replace_at 13 {131072}", f"get_at {131072}", f"remove_at {n - 5}", "remove_at 0", "remove_at 1",
                f"add_at 14 {n - 10}", f"add_at 15 {n // 2 + 5}", f"remove_at {n // 2 + 5}", f"get_at {n // 2 + 5}",
                "get_at 0", f"get_at {131072}", "get_last"]     # no index_of / contains / reverse: quadratic in the model
        ops += [f"fill n=125000 seed={rng.randrange(1, 1000)}", "size", f"get_at {262143}", f"get_at {262144}", f"get_at {n + 124000}",
                "it_new", f"it_sweep n={n + 130000}", "get_first", "get_last", "remove_last", "remove_first", "destroy"]
        return ops

    def scale_history(self, rng, cc, variant=0):
        sim = Sim(cc)
        ops = [f"new cap={cc} obs=sparse phys=quiet"]
        since = [0]

        def tick(k=1):
            since[0] += k
            if since[0] >= 50:
                ops.append("observe")
                since[0] = 0

        big = upper_pow_two(cc) >= 4096
        # -- fill: distinct small values (a slot that aliases another one shows at once), both ends
        target = rng.randint(1100, 1300) if big else rng.choice([rng.randint(600, 1500), 1024, 2048 if cc > 8 else 1024])
        p_first = rng.choice([0.0, 0.25, 0.5])
        v = 0
        while len(sim.items) < target:
            v += 1
            x = v if rng.random() < 0.97 else pick_value(rng)
            self.core_op_fixed(sim, ops, "add_first" if rng.random() < p_first else rng.choice(["add_last", "add_last", "add"]), x)
            tick()
        ops.append("observe")
        # -- exactly full ring? then a cursor walk with an insertion in the back half, continued past the old capacity
        if len(sim.items) == sim.cap:
            self.full_ring_walk(rng, sim, ops, slot=0, long=True)
            ops.append("observe")
        # -- several hundred operations at the front, the middle and the back
        big = sim.cap >= 4096
        budget = 8 if sim.cap >= 8192 else 30 if big else 150     # calls that memmove about half the buffer
        p_scan = 0.925 if big else 0.96        # linear scans (index_of / contains) cost size * capacity in the model
        for _ in range(rng.randint(300, 450)):
            n = len(sim.items)
            r = rng.random()
            if r < 0.22 and budget > 0 and n > 3:
                budget -= 1
                i = rng.choice([0, 1, n // 3, n // 2, n - 2, n - 1, rng.randrange(n)])
                self.core_op_fixed(sim, ops, "remove_at", i)
            elif r < 0.40 and budget > 0 and n > 3:
                budget -= 1
                cand = [i for i in (0, n // 2, n // 2 + 1, 2 * n // 3, n - 1, rng.randrange(n // 2, n)) if not d3_excluded(i, n)]
                v += 1
                self.core_op_fixed(sim, ops, "add_at", v, rng.choice(cand))
            elif r < 0.55:
                ops.append(f"get_at {rng.choice([0, 1, n // 3, n // 2, max(n, 1) - 1, n, n + 1, rng.randrange(max(n, 1))])}")
            elif r < 0.60:
                ops.append(rng.choice(["get_first", "get_last", "size"]))
            elif r < 0.72:
                self.core_op_fixed(sim, ops, rng.choice(["remove_first", "remove_last"]))
            elif r < 0.86:
                v += 1
                self.core_op_fixed(sim, ops, rng.choice(["add_first", "add_last"]), v)
            elif r < 0.92 and n:
                v += 1
                self.core_op_fixed(sim, ops, "replace_at", v, rng.choice([0, n // 3, n - 1]))
            elif r < p_scan and n:
                x = rng.choice([sim.items[0], sim.items[n // 3], sim.items[-1], 10**9])
                ops.append(f"{rng.choice(['index_of', 'contains'])} {x}")
            else:
                x = rng.choice([sim.items[n // 2], 10**9]) if n else 5
                if x in sim.items and budget > 0:
                    budget -= 1
                    sim.items.remove(x)
                    ops.append(f"remove {x}")
            tick()
        ops.append("observe")
        # -- cursor sweep over everything: a removal / replacement every few dozen yields, an insertion in the back half
        ops.append("it_new")
        pos, k = 0, 0
        gap = rng.randint(8, 40)
        while pos < len(sim.items):
            ops.append("it_next")
            pos += 1
            k += 1
            if k % gap == 0:
                c = rng.random()
                n = len(sim.items)
                if c < 0.4 and budget > 0:
                    budget -= 1
                    del sim.items[pos - 1]
                    pos -= 1
                    ops.append("it_remove")
                elif c < 0.6 and budget > 0 and not d3_excluded(pos, n):
                    budget -= 1
                    v += 1
                    if sim.grows():
                        sim.grow()
                    sim.items.insert(pos, v)
                    pos += 1
                    ops += [f"it_add {v}", "it_index"]
                else:
                    v += 1
                    sim.items[pos - 1] = v
                    ops.append(f"it_replace {v}")
                if rng.random() < 0.3:       # ROUND12 C: direct calls behind the cursor's back
                    self.core_op_fixed(sim, ops, rng.choice(["remove_last", "remove_first", "add_last"]), v + 7000)
                    v += 1
            tick()
        ops += ["it_next", "observe"]
        # -- shorten the deque far behind the cursor: every cursor call is rejected now
        for _ in range(rng.randint(2, 40)):
            self.core_op_fixed(sim, ops, rng.choice(["remove_last", "remove_first"]))
        ops += ["it_add 5", "it_remove", "it_replace 6", "it_index", "it_next", "observe"]
        # -- whole-container operations at this size, then the same again after a trim
        ops.append("reverse")
        sim.items.reverse()
        ops += ["get_at 0", f"get_at {len(sim.items) - 1}"]
        ops.append("mk_copy_shallow to=1")
        cp = sim.clone()
        for _ in range(20):
            v += 1
            self.core_op_fixed(cp, ops, rng.choice(["add_first", "add_last", "remove_first"]), v, slot=1)
        ops += ["observe", "mk_filter to=2", "observe", "drop o=2", "mk_copy_deep to=2", "remove_first o=2", "observe",
                "drop o=2", "drop o=1"]
        for _ in range(rng.randint(0, 300)):
            self.core_op_fixed(sim, ops, rng.choice(["remove_first", "remove_last"]))
            tick()
        ops.append("trim")
        sim.trim()
        for _ in range(rng.randint(20, 60)):
            v += 1
            self.core_op_fixed(sim, ops, rng.choice(["add_first", "add_last", "add_last", "remove_first"]), v)
            tick()
        ops.append("observe")
        # -- a second, small ring: exactly full and wrapped, cursor insertion in the back half; aliased zip on capacity 1
        c2 = rng.choice([2, 4, 8, 16, 64])
        sim2 = Sim(c2)
        ops.append(f"new cap={c2} o=1")
        for i in range(c2):
            self.core_op_fixed(sim2, ops, "add_first" if i < c2 // 3 else "add_last", 500 + i, slot=1)
        self.full_ring_walk(rng, sim2, ops, slot=1)
        ops += ["observe", "drop o=1", "new cap=1 o=1", "add_last 9 o=1", "zit_new o=1 o2=1", "zit_add 7 8", "zit_next",
                "zit_next", "zit_next", "observe", "destroy"]
        return ops

    @staticmethod
    def core_op_fixed(sim, ops, op, a=None, b=None, slot=0):
        """one deterministic call, simulation kept in step (no D3 check: callers choose the index)"""
        sfx = f" o={slot}" if slot else ""
        if op in ("add", "add_last", "add_first"):
            if sim.grows():
                sim.grow()
            sim.items.insert(0, a) if op == "add_first" else sim.items.append(a)
            ops.append(f"{op} {a}{sfx}")
        elif op == "add_at":
            assert not d3_excluded(b, len(sim.items))
            if b < len(sim.items):
                if sim.grows():
                    sim.grow()
                sim.items.insert(b, a)
            ops.append(f"add_at {a} {b}{sfx}")
        elif op == "remove_at":
            if a < len(sim.items):
                del sim.items[a]
            ops.append(f"remove_at {a}{sfx}")
        elif op == "replace_at":
            if b < len(sim.items):
                sim.items[b] = a
            ops.append(f"replace_at {a} {b}{sfx}")
        elif op == "remove_first":
            if sim.items:
                del sim.items[0]
            ops.append(f"remove_first{sfx}")
        elif op == "remove_last":
            if sim.items:
                del sim.items[-1]
            ops.append(f"remove_last{sfx}")
        else:
            raise ValueError(op)

    @staticmethod
    def full_ring_walk(rng, sim, ops, slot=0, long=False):
        """cursor over an EXACTLY FULL ring: it_add at a position in the back half that is not the end (the front
        half is finding D3), which doubles the buffer under the cursor; then the walk goes on beyond the old capacity"""
        sfx = f" o={slot}" if slot else ""
        n = len(sim.items)
        assert n == sim.cap
        if n < 2:
            return
        k = rng.randrange(max(n // 2, 1), n)          # 1 <= k < n and not d3_excluded(k, n)
        assert not d3_excluded(k, n)
        ops.append(f"it_new{sfx}")
        ops += ["it_next"] * k
        sim.grow()
        sim.items.insert(k, 4242)
        ops += ["it_add 4242", "it_index"]
        rest = n + 1 - (k + 1)
        ops += ["it_next", "it_index"] * min(rest, 3) + ["it_next"] * max(rest - 3, 0) + ["it_next", "it_next"]

    # ------------------------------------------------------------------ random histories
    def random(self, rng, n, tier, focus=None):
        hs = self._random(rng, n, tier, focus)
        return [sparsify(rng, h) if rng.random() < 0.34 else h for h in hs]

    def _random(self, rng, n, tier, focus=None):
        out = []
        allf = focus == "all"
        for _ in range(n):
            cc = rng.choice([0, 1, 2, 3, 4, 5, 6, 7, 8, 9, 12, 16, 17, 33] if rng.random() < 0.8 else list(range(34)))
            sims = [Sim(cc), None, None, None]
            ops = [f"new cap={cc}"]
            default_obj = False
            if focus in (None, "derived", "growth", "all") and rng.random() < 0.06:
                sims[0] = Sim(8)                 # cc_deque_new: default capacity, C library triple
                ops = ["new_default"]
                default_obj = True
            if focus in ("derived", "all") and rng.random() < 0.2:
                # early: drop + immediate re-creation through the other constructor, builders, growth
                pre, items, cap, is_default = self.recreate_program(0, cc, rng.random() < 0.5,
                                                                    rng.randint(1, 4), rng.randint(1, 6), keep=True)
                ops = pre
                sims = [Sim(1), None, None, None]
                sims[0].items, sims[0].cap = list(items), cap
                default_obj = is_default
            fault = focus == "fault"
            reject = focus in ("reject", "all")
            allow_fail = allf and not default_obj   # the C library triple is never refused: fail= would desynchronise the simulation
            length = rng.randint(1, 70 if focus != "growth" else 400)
            p_add = rng.choice([0.2, 0.45, 0.6, 0.8])
            i = 0
            while i < length:
                i += 1
                r = rng.random()
                s0 = sims[0]
                # reject: cursor calls at positions outside the deque (after direct removals) are rejected calls (C16)
                p_iter = {"iter": 0.12, "all": 0.05, "reject": 0.05}.get(focus, 0.0)
                mixed = rng.random() < (0.8 if focus == "reject" else 0.5)
                p_der = {"derived": 0.15, "all": 0.05, "fault": 0.05}.get(focus, 0.0)
                if focus == "growth" and r < 0.003:
                    self.zip_self_program(rng, s0, ops, slot=0)
                elif focus == "growth" and r < 0.85:
                    self.core_op(rng, s0, ops, only=rng.choice(["add_last", "add_first", "add_last", "add"]))
                elif r < p_iter:
                    if rng.random() < 0.65:
                        self.iter_program(rng, s0, ops, fault=fault, reject=reject, allow_fail=allow_fail, mixed=mixed)
                    else:
                        if sims[1] is None:
                            c2 = rng.choice([1, 2, 3, 4, 8])
                            sims[1] = Sim(c2)
                            ops.append(f"new cap={c2} o=1")
                        for _ in range(rng.randint(0, 9)):
                            self.core_op(rng, sims[1], ops, slot=1, only=rng.choice(["add_last", "add_first", "remove_first", "add_last"]))
                        if rng.random() < 0.25:      # the same deque on both sides
                            self.zip_self_program(rng, s0, ops, slot=0, fault=fault, reject=reject, allow_fail=allow_fail, mixed=mixed)
                        else:
                            a, b = rng.choice([(0, 1), (1, 0)])
                            self.zip_program(rng, sims[a], sims[b], ops, a=a, b=b, fault=fault, reject=reject, allow_fail=allow_fail, mixed=mixed)
                elif r < p_iter + p_der:
                    self.derived_program(rng, sims, ops, fault=fault, reject=reject, allow_fail=allow_fail)
                elif focus in ("derived", "all") and r < p_iter + p_der + 0.015:
                    ops.append("remove_all_cb")
                    s0.items = []
                elif rng.random() < p_add:
                    self.core_op(rng, s0, ops, only=rng.choice(["add_last", "add_first", "add_at", "add"]),
                                 reject=reject, fault=fault, allow_fail=allow_fail)
                else:
                    self.core_op(rng, s0, ops, reject=reject, fault=fault, allow_fail=allow_fail)
                if rng.random() < 0.04:
                    p_add = rng.choice([0.1, 0.5, 0.9])
            if focus in ("derived", "all") and rng.random() < 0.15:
                ops.append("destroy_cb")
            ops.append("destroy")
            out.append(ops)
        return out


GEN = DequeGen()
