#!/usr/bin/env python3
"""Regenerates the shared registration files of the Lean project from what exists on disk:
  lean/CollectionsC.lean   imports every module under lean/CollectionsC/
  lean/Mains/<k>.lean      one tiny main per container driver (Driver/<K>.lean declares
                           `-- container: <k>` and namespace CC.Driver.<K>D with Sess/step)
  lean/lakefile.toml       one lean_exe per container driver
"""
import re, sys
from pathlib import Path
LEAN = Path(__file__).resolve().parent.parent / "lean"
mods = []
for p in sorted((LEAN / "CollectionsC").rglob("*.lean")):
    mods.append(".".join(p.relative_to(LEAN).with_suffix("").parts))
skip = set(sys.argv[1:])   # modules to leave out (e.g. work in progress)
root = "\n".join(f"import {m}" for m in mods if m not in skip) + "\n"
(LEAN / "CollectionsC.lean").write_text(root)
drivers = []
for p in sorted((LEAN / "CollectionsC" / "Driver").glob("*.lean")):
    txt = p.read_text()
    m = re.search(r"^-- container:\s*(\w+)\s*$", txt, re.M)
    ns = re.search(r"^namespace (CC\.Driver\.\w+D)\s*$", txt, re.M)
    if m and ns:
        drivers.append((m.group(1), p.stem, ns.group(1)))
(LEAN / "Mains").mkdir(exist_ok=True)
for k, stem, ns in drivers:
    (LEAN / "Mains" / f"{k}.lean").write_text(
        f"import CollectionsC.Driver.Loop\nimport CollectionsC.Driver.{stem}\n"
        f"def main : IO Unit := CC.Driver.mainLoop (σ := {ns}.Sess) {{}} {ns}.step\n")
lake = 'name = "CollectionsC"\nversion = "0.1.0"\ndefaultTargets = ["CollectionsC"' + "".join(f', "driver_{k}"' for k, _, _ in drivers) + ']\n\n[[lean_lib]]\nname = "CollectionsC"\n'
for k, _, _ in drivers:
    lake += f'\n[[lean_exe]]\nname = "driver_{k}"\nroot = "Mains.{k}"\n'
(LEAN / "lakefile.toml").write_text(lake)
print("modules:", len(mods), "drivers:", [k for k, _, _ in drivers])
