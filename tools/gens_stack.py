"""History generator for CC_Stack (container `stack`, harness/shim_stack.c, Driver/Stack.lean).

Op vocabulary (`o=<slot>` selects the stack, default slot 0):
  (pop, it_replace, zit_replace take `noout=1`: a NULL out-pointer is passed and no out= is printed)
  new cap=<n> exp=<decimal> | new_default | mk_new to=<k> cap=<n> exp=<decimal> | mk_new_default to=<k>
  push v | pop | peek | size | map | filter_mut | mk_filter to=<k>
  it_new | it_next | it_replace v | zit_new o=<k> p=<j> (p = k allowed: the same stack on both sides) | zit_next | zit_replace v w
  drop o=<k> | destroy | destroy_cb

focus: None = the operations C09 names (push/pop/peek/size, iteration, zip iteration, map, filter);
"growth" = push-dominated long interleavings; "reject" = pops/peeks on empty stacks dominate;
"fault" = allocating ops (new stacks, pushes, mk_filter); "iter"/"derived"/"all" = as None with
more of the respective ops.  No `fail=` is generated."""
import itertools
import random

FACTORS = ["0.5", "1", "1.1", "1.5", "2", "3"]
NSLOT = 4


def pick_value(rng):
    """small values and duplicates; 0 (NULL); and — CONVENTIONS addendum 3 — pairs that differ by exactly
    2^31, 2^32, 2^63 (a small `v` and `v + 2^k`) and values near 2^64 - 1, so that a comparison that
    truncates a pointer difference to 32 bits, or treats elements as signed, is exposed"""
    r = rng.random()
    if r < 0.08:
        return 0
    if r < 0.16:
        return rng.randint(1, 6) + rng.choice([2 ** 31, 2 ** 32, 2 ** 63])
    if r < 0.175:
        return 2 ** 64 - 1000          # the deep-copy callback (v + 1000, 64-bit) maps it to 0 = NULL
    if r < 0.20:
        return rng.choice([2 ** 64 - 1, 2 ** 64 - 2, 2 ** 64 - 7, 2 ** 64 - 1000, 2 ** 63 - 1, 2 ** 63, 2 ** 32 - 1, 2 ** 32,
                           2 ** 31 - 1, 2 ** 31, 2 ** 63 + 2 ** 32 + 3])
    if r < 0.58:
        return rng.randint(1, 6)
    return rng.randint(1, 99)


def maybe_noout(rng, p=0.3):
    """CONVENTIONS addendum 3: operations with an optional out-pointer are generated with and without it"""
    return " noout=1" if rng.random() < p else ""



def sparsify(rng, hist):
    """CONVENTIONS addendum 2: a sparse-observation session — `obs=sparse` on the constructor line, the obs
    section of every op then carries only status / out-values / callback log, and the content is swept only
    by `observe` (every 5-15 operations and once before the final destroy)."""
    if not hist or not hist[0].startswith("new"):
        return hist
    out = [hist[0] + " obs=sparse"]
    gap = rng.randint(5, 15)
    body = hist[1:-1] if hist[-1].startswith("destroy") else hist[1:]
    for op in body:
        out.append(op)
        gap -= 1
        if gap <= 0:
            out.append("observe")
            gap = rng.randint(5, 15)
    if hist[-1].startswith("destroy"):
        out += ["observe", hist[-1]]
    return out


def sparse_third(hists, seed):
    """every third history (deterministically for small-scope lists) runs in sparse mode"""
    r = random.Random(seed)
    return [sparsify(r, h) if i % 3 == 1 else h for i, h in enumerate(hists)]


class StackGen:
    name = "stack"

    def small_scope(self, tier, focus=None):
        return sparse_third(self._small_scope(tier, focus), 12345)

    def _small_scope(self, tier, focus=None):
        out = []
        quick = tier == "quick"
        alpha = ["push", "pop", "peek", "pop noout=1"]      # addendum 3: NULL out-pointer
        depth = 6 if quick else 7
        for cap, ex in ([(1, "2"), (2, "1.5"), (3, "2")] if quick else [(c, e) for c in (1, 2, 3, 4) for e in ("2", "1.5", "1.1")]):
            for n in range(0, depth + 1):
                for seq in itertools.product(alpha, repeat=n):
                    v = 10
                    ops = [f"new cap={cap} exp={ex}"]
                    for s in seq:
                        if s == "push":
                            v += 1
                            ops.append(f"push {v % 14}")      # 0 (NULL) and duplicates occur
                        else:
                            ops.append(s)
                    ops += ["map", "destroy"]
                    out.append(ops)
        full = ["push 1", "push 2", "push 0", "pop", "peek", "size", "map", "filter_mut", "mk_filter to=1", "drop o=1",
                "it_new", "it_next", "it_replace 9", "mk_new to=2 cap=1 exp=2", "push 4 o=2", "zit_new o=0 p=2", "zit_next",
                "zit_replace 7 8", "pop noout=1", "it_replace 5 noout=1", "zit_replace 3 4 noout=1", f"push {1 + 2 ** 32}",
                f"push {2 ** 64 - 1}"]
        for cap, d2 in (((1, 3), (2, 2)) if quick else ((1, 3), (2, 3), (3, 3))):
            for n in range(0, d2 + 1):
                for seq in itertools.product(full, repeat=n):
                    out.append([f"new cap={cap} exp=2"] + list(seq) + ["destroy"])
        out.append(["new_default", "push 1", "push 2", "pop", "peek", "destroy_cb"])
        if focus in ("iter", "all"):
            # iterator sessions interleaved with direct calls on the iterated stack
            for cap in (2, 3):
                for d in ("pop", "push 9", "filter_mut"):
                    for a in ("it_next", "it_replace 6"):
                        for b in ("it_next", "it_replace 5", "pop"):
                            out.append([f"new cap={cap} exp=2", "push 1", "push 2", "push 3", "it_new", "it_next", "it_next", "it_next", d, "pop", a, b,
                                        "it_next", "peek", "destroy"])
        # the same stack on both sides of the zip iterator, at fill levels 0..3 (full and with room)
        for cap in (1, 2, 3):
            for n in range(0, 4):
                out.append([f"new cap={cap} exp=2"] + [f"push {i + 1}" for i in range(n)] +
                           ["zit_new o=0 p=0", "zit_replace 5 6", "zit_next", "zit_replace 7 8", "zit_next", "zit_next", "pop",
                            "zit_replace 1 2", "zit_next", "push 4", "zit_next", "map", "destroy"])
        out.append(["new cap=0 exp=2", "destroy"])
        if focus in ("reject", "all"):
            for cap in (2 ** 61 - 1, 2 ** 61, 2 ** 62, 2 ** 63, 2 ** 64 - 1):
                out.append([f"new cap={cap} exp=2", "push 1", "destroy"])
            for cap, ex in ((1, 2 ** 61), (1, 2 ** 63), (2, 2 ** 60), (1, 2 ** 64)):
                out.append([f"new cap={cap} exp={ex}"] + [f"push {i}" for i in range(1, cap + 3)] + ["pop", "push 9", "destroy"])
        out.append(["new cap=2", "push 1", "push 2", "push 3", "mk_filter to=1", "destroy_cb"])
        if focus in ("derived", "all"):
            for conf_first in (True, False):
                for k, dst in ((1, 2), (2, 1), (3, 1)):
                    for cap, ex in ((1, "2"), (2, "1.5"), (8, "2")):
                        for head in ("new cap=2 exp=2", "new_default"):
                            out.append([head] + self.recreate_other_triple(k, dst, conf_first, cap, ex) + ["push 1", "destroy"])
        return out

    def random(self, rng, n, tier, focus=None):
        hs = [self._one(rng, focus) for _ in range(n)]
        return [sparsify(rng, h) if rng.random() < 0.34 else h for h in hs]

    def _one(self, rng, focus):
        cap = rng.randint(1, 9)
        ex = rng.choice(FACTORS)
        ops = [f"new cap={cap} exp={ex}"]
        if rng.random() < 0.12:
            ops = ["new_default"]      # C-library allocator triple (capacity 8, factor 2)
        L = {0: []}
        length = rng.randint(1, 70)
        if focus in ("derived", "all") and rng.random() < 0.3:
            # early in the history: destroy + re-creation in the same slot with the other allocator triple
            k, dst = rng.choice([(1, 2), (2, 1), (3, 2), (1, 3)])
            vals = tuple(pick_value(rng) for _ in range(rng.randint(2, 5)))
            ops += self.recreate_other_triple(k, dst, rng.random() < 0.5, rng.randint(1, 8), rng.choice(FACTORS[2:]), vals)
            length += len(ops)
        table = [("push", 12), ("pop", 8), ("peek", 3), ("size", 1), ("map", 1), ("filter_mut", 1), ("mk_filter", 1.5),
                 ("mk_new", 1), ("drop", 1), ("other", 6), ("iter_prog", 2), ("zip_prog", 1.5), ("iter_mixed_prog", 0.7)]
        if focus == "growth":
            length = rng.randint(60, 400)
            table = [("push", 30), ("pop", 10), ("peek", 2), ("filter_mut", 0.2), ("map", 0.2)]
        elif focus == "reject":
            table = [("push", 4), ("pop", 10), ("peek", 6), ("filter_mut", 3), ("mk_filter", 3), ("drop", 1)]
        elif focus == "fault":
            table = [("push", 14), ("pop", 4), ("mk_filter", 4), ("mk_new", 2), ("drop", 2), ("other", 5)]
        elif focus in ("iter", "all"):
            table += [("iter_prog", 4), ("zip_prog", 3), ("iter_mixed_prog", 2.5)]
        elif focus == "derived":
            table += [("mk_filter", 4), ("other", 6), ("drop", 2)]
        names = [o for o, _ in table]
        weights = [w for _, w in table]
        p_push = rng.choice([0.4, 0.5, 0.6, 0.8])

        def free_slot():
            f = [s for s in range(1, NSLOT) if s not in L]
            return rng.choice(f) if f else None

        while len(ops) < length:
            op = rng.choices(names, weights)[0]
            k = 0
            if op == "other":
                live = [s for s in L if s != 0]
                if not live:
                    continue
                k = rng.choice(live)
                op = "push" if rng.random() < p_push else rng.choice(["pop", "peek", "map", "filter_mut"])
            xs = L[k]
            sfx = f" o={k}" if k else ""
            if op == "push":
                if k == 0 and focus != "growth" and rng.random() > p_push * 1.4:
                    op = "pop"
                else:
                    v = pick_value(rng); ops.append(f"push {v}{sfx}"); xs.append(v)
            if op == "pop":
                ops.append("pop" + sfx + maybe_noout(rng))
                if xs: xs.pop()
            elif op in ("peek", "size", "map"):
                ops.append(op + sfx)
            elif op == "filter_mut":
                ops.append(op + sfx); xs[:] = [v for v in xs if v % 2 == 0]
            elif op == "mk_filter":
                to = free_slot()
                if to is None:
                    continue
                ops.append(f"mk_filter to={to}{sfx}")
                if xs: L[to] = [v for v in xs if v % 2 == 0]
            elif op == "mk_new":
                to = free_slot()
                if to is None:
                    continue
                ops.append(f"mk_new to={to} cap={rng.randint(1, 5)} exp={rng.choice(FACTORS)}"); L[to] = []
            elif op == "drop":
                live = [s for s in L if s != 0]
                if live:
                    d = rng.choice(live); ops.append(f"drop o={d}"); del L[d]
            elif op == "iter_prog":
                k = rng.choice(sorted(L)); xs = L[k]
                ops.append("it_new" + (f" o={k}" if k else ""))
                pos = 0
                while True:
                    ops.append("it_next")
                    if pos >= len(xs):
                        break
                    pos += 1
                    if rng.random() < 0.3:
                        v = pick_value(rng); ops.append(f"it_replace {v}{maybe_noout(rng)}"); xs[pos - 1] = v
                    if rng.random() < 0.05:
                        break
            elif op == "iter_mixed_prog":
                # an iterator session interleaved with direct calls on the iterated stack (legal for an
                # index-based iterator): pushes and pops move the end of the stack under the cursor
                k = rng.choice(sorted(L)); xs = L[k]; sfx = f" o={k}" if k else ""
                ops.append("it_new" + sfx)
                pos = 0
                for _ in range(rng.randint(3, 14)):
                    r = rng.random()
                    if r < 0.5:
                        ops.append("it_next")
                        if pos < len(xs): pos += 1
                    elif r < 0.65:
                        v = pick_value(rng); ops.append(f"it_replace {v}{maybe_noout(rng)}")
                        if 0 < pos <= len(xs): xs[pos - 1] = v
                    elif r < 0.8:
                        ops.append("pop" + sfx + maybe_noout(rng))
                        if xs: xs.pop()
                    elif r < 0.93:
                        v = pick_value(rng); ops.append(f"push {v}{sfx}"); xs.append(v)
                    else:
                        ops.append("filter_mut" + sfx); xs[:] = [v for v in xs if v % 2 == 0]
                    if rng.random() < 0.2: ops.append("peek" + sfx)
            elif op == "zip_prog":
                if len(L) < 2:
                    to = free_slot()
                    ops.append(f"mk_new to={to} cap={rng.randint(1, 4)} exp=2"); L[to] = []
                    for _ in range(rng.randint(0, 5)):
                        v = pick_value(rng); ops.append(f"push {v} o={to}"); L[to].append(v)
                a, b = rng.sample(sorted(L), 2)
                if rng.random() < 0.15:
                    b = a                      # the same stack on both sides
                xa, xb = L[a], L[b]
                ops.append(f"zit_new o={a} p={b}")
                pos = 0
                while True:
                    ops.append("zit_next")
                    if pos >= len(xa) or pos >= len(xb):
                        break
                    pos += 1
                    if rng.random() < 0.3:
                        v, w = pick_value(rng), pick_value(rng); ops.append(f"zit_replace {v} {w}{maybe_noout(rng)}"); xa[pos - 1] = v; xb[pos - 1] = w
                    if rng.random() < 0.05:
                        break
            if rng.random() < 0.03:
                p_push = rng.choice([0.2, 0.5, 0.9])
        ops.append("destroy_cb" if rng.random() < 0.15 else "destroy")
        return ops

    def scale(self, rng, tier):
        """a few LONG sparse histories: 1100-1500 pushes from small and odd capacities, then several hundred
        calls: pops and pushes around the growth boundaries, iterator sweeps with replacements interleaved
        with pops, a zip with a second long stack, filter (the result grows from the default
        capacity 8 through many growth steps), pop until empty and beyond; `observe` every ~50 calls"""
        n_hist = 3 if tier == "quick" else 20
        caps = [1, 7, 8, 9, 255, 256, 257, 300, 1000, 1023, 1024, 1025, 4100]
        out = []
        for h in range(n_hist):
            cap = caps[(h * 4 + rng.randint(0, 2)) % len(caps)]
            ex = ["1.01", "1.5", "2", "3"][h % 4]
            n = rng.randint(1100, 1500)
            ops = [f"new cap={cap} exp={ex} obs=sparse"]
            gap = [rng.randint(35, 60)]

            def emit(op):
                ops.append(op)
                gap[0] -= 1
                if gap[0] <= 0:
                    ops.append("observe"); gap[0] = rng.randint(35, 60)
            size = 0
            for i in range(n):
                emit(f"push {i * 7 + 3 if rng.random() < 0.9 else pick_value(rng)}"); size += 1
            for _ in range(rng.randint(250, 400)):
                r = rng.random()
                if r < 0.35: emit("pop" + maybe_noout(rng, 0.2)); size = max(0, size - 1)
                elif r < 0.6: emit(f"push {10 ** 7 + rng.randint(0, 10 ** 6)}"); size += 1
                elif r < 0.7: emit("peek")
                elif r < 0.74: emit("size")
                elif r < 0.8:
                    emit("it_new")
                    for _ in range(rng.randint(3, 30)):
                        emit("it_next")
                        q = rng.random()
                        if q < 0.3: emit(f"it_replace {rng.randint(1, 99)}")
                        elif q < 0.4: emit("pop"); size = max(0, size - 1)
                elif r < 0.84:
                    emit("mk_new to=2 cap=3 exp=1.5")
                    for i in range(rng.randint(40, 300)): emit(f"push {i * 5 + 1} o=2")
                    emit("zit_new o=0 p=2")
                    for _ in range(rng.randint(5, 40)):
                        emit("zit_next")
                        if rng.random() < 0.3: emit(f"zit_replace {rng.randint(1, 99)} {rng.randint(1, 99)}")
                    emit("observe"); emit("drop o=2")
                elif r < 0.88:
                    emit("mk_filter to=1"); emit("push 4 o=1"); emit("pop o=1"); emit("observe"); emit("drop o=1")
                elif r < 0.9: emit("map")
                else: emit("peek")
            for _ in range(rng.randint(20, 60)):
                emit("pop")
            ops += ["observe", "peek", "destroy_cb" if h % 2 else "destroy"]
            out.append(ops)
        return out

    def recreate_other_triple(self, k=1, dst=2, conf_first=True, cap=2, ex="2", vals=(2, 5, 4, 7)):
        """a stack is built in slot k, used, destroyed, and immediately re-created in the same slot with the
        OTHER allocator triple (nothing is allocated in between, so the allocator may hand out the same
        addresses); then `cc_stack_filter` derives a stack from it, the derived stack is grown by pushes
        (it starts with the default capacity 8), observed and dropped"""
        mk_a = f"mk_new to={k} cap={cap} exp={ex}"
        mk_b = f"mk_new_default to={k}"
        first, second = (mk_a, mk_b) if conf_first else (mk_b, mk_a)
        ops = [first, f"push 1 o={k}", f"push 3 o={k}", f"drop o={k}", second] + [f"push {v} o={k}" for v in vals]
        for _ in range(2):
            ops += [f"mk_filter to={dst} o={k}"] + [f"push {10 + i} o={dst}" for i in range(9)] + ["observe", f"pop o={dst}", f"drop o={dst}"]
        ops += [f"push 6 o={k}", "observe", f"drop o={k}"]
        return ops

    def fault_seeds(self, tier):
        return sparse_third(self._fault_seeds(tier), 777)

    def _fault_seeds(self, tier):
        return [["new cap=1 exp=2", "push 2", "push 4", "push 3", "mk_filter to=1", "push 6 o=1", "mk_new to=2 cap=1 exp=1.5",
                 "push 1 o=2", "push 2 o=2", "destroy"],
                ["new cap=2 exp=2"] + [f"push {2 * i}" for i in range(1, 12)] + ["mk_filter to=1", "destroy"]]


GEN = StackGen()
