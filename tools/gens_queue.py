"""History generator for the queue adapter (container name `queue`, shim harness/shim_queue.c).

Op vocabulary (`o=<slot>` 0..1, default 0):
  new cap=N | new_default | destroy (every live queue) | destroy_cb | enqueue v | poll [noout=1] | peek
  size | foreach | it_new it_next it_replace v | zit_new o=a o2=b  zit_next  zit_replace v w
Constructor lines take `obs=sparse` and `phys=quiet` (see gens_deque).  `scale(rng, tier)`: few long histories.
C09 names iteration / zip iteration on the adapters, so focus=None includes them.  `fail=` appears only
with focus="all"; focus="fault" emits growth-heavy histories for the runner's refusal enumeration.
"""
import itertools, random
from gens_deque import pick_value, upper_pow_two, Sim



def sparsify(rng, hist):
    """CONVENTIONS addendum 2: a sparse-observation session — `obs=sparse` on the constructor line, the obs
    section of every op then carries only status / out-values / callback log, and the content is swept only
    by `observe` (every 5-15 operations and once before the final destroy)."""
    if not hist or not hist[0].startswith("new"):
        return hist
    out = [hist[0] + " obs=sparse"]
    gap = rng.randint(5, 15)
    body = hist[1:-1] if hist[-1].startswith("destroy") else hist[1:]
    for op in body:
        out.append(op)
        gap -= 1
        if gap <= 0:
            out.append("observe")
            gap = rng.randint(5, 15)
    if hist[-1].startswith("destroy"):
        out += ["observe", hist[-1]]
    return out


def sparse_third(hists, seed):
    """every third history (deterministically for small-scope lists) runs in sparse mode"""
    r = random.Random(seed)
    return [sparsify(r, h) if i % 3 == 1 else h for i, h in enumerate(hists)]


class QueueGen:
    name = "queue"

    @staticmethod
    def recreate_program(k, cc, conf_first, n1=3, n2=3, keep=False):
        """a queue at slot k is destroyed (`destroy_cb o=k`: the only single-queue destructor of the protocol)
        and IMMEDIATELY re-created through the other constructor (other allocator triple); then it is enqueued
        until the inner deque grows, iterated, zipped with itself and with the other slot.  Returns
        (ops, iteration view of slot k, capacity, on C library triple?)."""
        sk = f" o={k}" if k else ""
        o = 1 - k
        so = f" o={o}" if o else ""
        mk_conf, mk_def = f"new cap={cc}{sk}", f"new_default{sk}"
        first, second = (mk_conf, mk_def) if conf_first else (mk_def, mk_conf)
        ops = [first] + [f"enqueue {10 + i}{sk}" for i in range(n1)] + [f"destroy_cb o={k}", second]
        cap = 8 if conf_first else upper_pow_two(cc)
        vals = [20 + i for i in range(max(n2, cap + 1))]          # … until the ring grows
        ops += [f"enqueue {v}{sk}" for v in vals]
        while cap < len(vals):
            cap *= 2
        ops += [f"it_new{sk}", "it_next", "it_replace 7", "it_next", f"foreach{sk}", f"peek{sk}", "observe",
                f"zit_new o={k} o2={k}", "zit_next", "zit_replace 8 9", "zit_next",
                f"new cap=2{so}", f"enqueue 5{so}", f"enqueue 6{so}", f"enqueue 7{so}",
                f"zit_new o={k} o2={o}", "zit_next", "zit_next", f"poll{sk}", "observe", f"destroy_cb o={o}"]
        view = list(reversed(vals))           # newest first
        view[0] = 9
        view.pop()                            # poll removes the oldest
        if not keep:
            ops.append(f"destroy_cb o={k}")
        return ops, view, cap, conf_first

    def small_scope(self, tier, focus=None):
        return sparse_third(self._small_scope(tier, focus), 12345)

    def _small_scope(self, tier, focus=None):
        out = []
        maxlen = 8 if tier == "quick" else 11
        for cap in (1, 2, 3):
            for n in range(0, maxlen + 1):
                for seq in itertools.product("ep", repeat=n):
                    ops = [f"new cap={cap}"]
                    v = 10
                    big = [0, 2**32, 2**31, 2**63, 2**64 - 40]      # values 2^31 / 2^32 / 2^63 apart, near 2^64-1
                    for j, s in enumerate(seq):
                        if s == "e":
                            v += 1
                            ops.append(f"enqueue {v + big[(v + n) % len(big)]}")
                        else:
                            ops.append("poll" + (" noout=1" if (j + n) % 2 else ""))    # with and without out-pointer
                    ops += ["peek", "destroy"]
                    out.append(ops)
        # every (capacity, front offset, size) layout: iterate, replace, zip
        for cap in (1, 2, 4, 8):
            for f in range(cap):
                for s in range(cap + 1):
                    # s enqueues then f more enqueue/poll pairs rotate the ring
                    pre = [f"new cap={cap}"] + [f"enqueue {20 + i}" for i in range(s)]
                    for i in range(f):
                        pre += [f"enqueue {40 + i}", "poll"] if s < cap else ["poll", f"enqueue {40 + i}"]
                    walk = ["it_new"] + ["it_next"] * (s + 2)
                    out.append(pre + walk + ["foreach", "size", "peek", "poll", "enqueue 9", "destroy"])
                    for k in range(1, s + 1):
                        out.append(pre + ["it_new"] + ["it_next"] * k + ["it_replace 77"] + ["it_next"] * (s - k + 1) + ["poll", "destroy"])
                    if cap <= 4:
                        for s2 in range(cap + 1):
                            pre2 = [f"new cap={cap} o=1"] + [f"enqueue {60 + i} o=1" for i in range(s2)]
                            m = min(s, s2)
                            out.append(pre + pre2 + ["zit_new o=0 o2=1"] + ["zit_next"] * (m + 2) + ["destroy"])
                            if m:
                                out.append(pre + pre2 + ["zit_new o=0 o2=1"] + ["zit_next"] * m + ["zit_replace 7 8", "zit_next", "poll", "poll o=1", "destroy"])
        if focus == "all":                          # only "all" carries fail= (CONVENTIONS addendum)
            out.append(["new cap=4 fail=1", "enqueue 1", "destroy"])
            out.append(["new cap=4 fail=2", "enqueue 1", "destroy"])
            out.append(["new cap=4 fail=3", "enqueue 1", "destroy"])
        if focus in ("derived", "all"):            # destroy + immediate re-creation on the other triple, same slot
            for k in (0, 1):
                for cc in (1, 2, 4, 5):
                    for conf_first in (True, False):
                        for n1 in (1, 3):
                            out.append(self.recreate_program(k, cc, conf_first, n1, 2)[0] + ["destroy"])
        if focus in ("reject", "all"):             # rejected calls: empty queue, iterator replace before next
            for cap in (1, 2, 4):
                out.append([f"new cap={cap}", "poll", "peek", "it_new", "it_replace 5", "it_next", "enqueue 1", "it_new",
                            "it_replace 6", "it_next", "it_next", "it_replace 7", "poll", "poll", "peek", "destroy"])
                out.append([f"new cap={cap}", f"new cap={cap} o=1", "enqueue 1", "zit_new o=0 o2=1", "zit_replace 3 4",
                            "zit_next", "enqueue 2 o=1", "zit_new o=0 o2=1", "zit_replace 3 4", "zit_next", "zit_replace 5 6",
                            "zit_next", "destroy"])
        # constructor capacities around powers of two beyond 8 bits: rounding must give the next power of two and the
        # ring must not alias (first slots, then a lap around the ring)
        for cc in (255, 256, 257, 300, 513, 1000, 1025, 4097, 4100):
            lap = min(upper_pow_two(cc), 600)
            out.append([f"new cap={cc} phys=quiet"] + [f"enqueue {i + 1}" for i in range(6)] + ["peek", "poll", "observe"] +
                       [x for i in range(lap) for x in (f"enqueue {100 + i}", "poll")][:2 * lap] + ["observe", "peek", "destroy"])
        out.append(["new_default", "enqueue 1", "enqueue 2", "poll", "peek", "poll", "poll", "destroy"])
        # default constructor = C library triple for the header, the inner deque and every re-allocation
        out.append(["new_default"] + [f"enqueue {i}" for i in range(1, 20)] + ["poll"] * 5 +
                   ["it_new", "it_next", "it_replace 9", "foreach", "destroy_cb", "destroy"])
        out.append(["new cap=2", "enqueue 1", "enqueue 2", "it_new", "it_replace 5", "zit_next", "destroy_cb"])
        # the SAME queue on both sides of the zip iterator: capacities 1..4, exactly 0 or 1 free slots
        for cc in (1, 2, 3, 4):
            cap = upper_pow_two(cc)
            for f in range(cap):
                for s in sorted({cap, cap - 1}):
                    pre = [f"new cap={cc}"] + [f"enqueue {20 + i}" for i in range(s)]
                    for i in range(f):
                        pre += ([f"enqueue {40 + i}", "poll"] if s < cap else ["poll", f"enqueue {40 + i}"]) if s else []
                    out.append(pre + ["zit_new o=0 o2=0"] + ["zit_next"] * (s + 2) + ["destroy"])
                    for k in range(1, s + 1):
                        out.append(pre + ["zit_new o=0 o2=0"] + ["zit_next"] * k + ["zit_replace 7 8"] +
                                   ["zit_next"] * (s - k + 1) + ["enqueue 9", "poll", "destroy"])
        return out

    SCALE_CAPS = [1, 7, 8, 9, 255, 256, 257, 300, 513, 1000, 1023, 1024, 1025, 4100]

    def scale(self, rng, tier):
        """few LONG histories (ROUND12 A): constructor capacities around powers of two up to 4100, 600-1500 live
        elements, then several hundred enqueue / poll / peek calls, cursor sweeps with replacements interleaved with
        direct calls, aliased and two-queue zips, foreach.  `obs=sparse phys=quiet`, `observe` every ~50 ops."""
        if tier == "quick":
            caps = [rng.choice([257, 513]), 4100, rng.choice([c for c in self.SCALE_CAPS if c not in (257, 513, 4100)])]
        else:
            caps = [self.SCALE_CAPS[i % len(self.SCALE_CAPS)] for i in range(24)]
        hs = [self.scale_history(rng, cc) for cc in caps]
        if tier != "quick":
            hs.append(self.giant_history(rng))
        return hs

    @staticmethod
    def giant_history(rng):
        """ROUND13 (seeded change C05-11): more than 131072 live elements (growth steps up to 262144 and 524288 of the inner
        deque), `fill n=` = n x enqueue; FIFO order probed by peek / poll, the whole content by `it_sweep` (n x iter_next,
        count + checksum, newest first) while the capacity is what each step produced; no `observe`."""
        n = 140000 + rng.randrange(0, 3000)
        cc = rng.choice([0, 5, 8, 1000, 4100])
        ops = [f"new cap={cc} obs=sparse phys=quiet", f"fill n=65536 seed={rng.randrange(1, 1000)}", "peek", "enqueue 4242", "peek", "size",
               f"fill n={n - 65537} seed={rng.randrange(1, 1000)}", "size", "peek", "it_new", "it_sweep n=65530"] + ["it_next"] * 8 + \
              ["it_sweep n=65530"] + ["it_next"] * 8 + ["it_replace 777", "it_next", f"it_sweep n={n}", "it_next"]
        ops += ["poll"] * 12 + ["peek", "enqueue 11", "enqueue 12", "size", "it_new", "it_sweep n=3", f"it_sweep n={n}", "it_next"]
        ops += [f"fill n=125000 seed={rng.randrange(1, 1000)}", "size", "peek", "it_new", f"it_sweep n={n + 130000}"] + ["poll"] * 6 + \
               ["peek", "size", "destroy"]
        return ops

    def scale_history(self, rng, cc):
        q = Sim(cc)                  # items: iteration view, newest first
        ops = [f"new cap={cc} obs=sparse phys=quiet"]
        since = [0]
        v = [0]

        def tick():
            since[0] += 1
            if since[0] >= 50:
                ops.append("observe")
                since[0] = 0

        def enq():
            v[0] += 1
            x = v[0] if rng.random() < 0.97 else pick_value(rng)
            if q.grows():
                q.grow()
            q.items.insert(0, x)
            ops.append(f"enqueue {x}")
            tick()

        def poll():
            if q.items:
                q.items.pop()
            ops.append("poll" + (" noout=1" if rng.random() < 0.1 else ""))
            tick()

        target = rng.choice([rng.randint(600, 1500), rng.randint(1100, 1300), 1024])
        while len(q.items) < target:
            if rng.random() < 0.15:
                poll()                       # the ring rotates while it fills
            else:
                enq()
            if rng.random() < 0.01:
                ops.append("peek")
        ops += ["observe", "peek", "size"]
        for _ in range(rng.randint(300, 500)):          # steady state: the ring laps around
            r = rng.random()
            if r < 0.45:
                enq()
            elif r < 0.9:
                poll()
            else:
                ops.append(rng.choice(["peek", "size"]))
        ops.append("observe")
        # cursor sweep, newest first, a replacement every few dozen yields, direct calls behind the cursor's back
        ops.append("it_new")
        pos, k, gap = 0, 0, rng.randint(8, 40)
        while pos < len(q.items):
            ops.append("it_next")
            pos += 1
            k += 1
            if k % gap == 0:
                v[0] += 1
                q.items[pos - 1] = v[0]
                ops.append(f"it_replace {v[0]}")
                if rng.random() < 0.3:
                    if rng.random() < 0.5:
                        enq()
                    else:
                        poll()
            tick()
        ops += ["it_next", "observe"]
        for _ in range(rng.randint(2, 30)):             # shorten the queue far behind the cursor: replace is rejected
            poll()
        ops += ["it_replace 5", "it_next", "observe", "foreach"]
        # zips: aliased, and against a second queue whose capacity is just above a power of two as well
        ops += ["zit_new o=0 o2=0"]
        for j in range(min(len(q.items), 40)):
            ops.append("zit_next")
            if j % 7 == 3:
                v[0] += 1
                q.items[j] = v[0]                       # aliased replace leaves the second value
                ops.append(f"zit_replace {v[0] + 5000} {v[0]}")
        c2 = rng.choice([33, 257, 300])
        ops.append(f"new cap={c2} o=1")
        q2 = Sim(c2)
        for j in range(rng.randint(20, 60)):
            q2.items.insert(0, 9000 + j)
            ops.append(f"enqueue {9000 + j} o=1")
        a, b = rng.choice([(0, 1), (1, 0)])
        ops.append(f"zit_new o={a} o2={b}")
        for j in range(min(len(q.items), len(q2.items)) + 1):
            ops.append("zit_next")
            if j % 9 == 4 and j < min(len(q.items), len(q2.items)):
                ops.append(f"zit_replace {70000 + j} {80000 + j}")
                (q, q2)[a].items[j] = 70000 + j
                (q, q2)[b].items[j] = 80000 + j
        ops += ["observe", "destroy_cb o=1"]
        while len(q.items) > 5:                         # drain: strict FIFO down to the last elements
            poll()
        ops += ["observe", "peek", "poll", "poll", "poll", "poll", "poll", "poll", "peek", "enqueue 1", "peek", "observe", "destroy"]
        return ops

    def fault_seeds(self, tier):
        return sparse_third(self._fault_seeds(tier), 777)

    def _fault_seeds(self, tier):
        out = []
        for cap in (1, 2, 4):
            for f in range(cap):
                pre = [f"new cap={cap}"] + [f"enqueue {20 + i}" for i in range(cap)]
                for i in range(f):
                    pre += ["poll", f"enqueue {40 + i}"]
                out.append(pre + ["enqueue 77", "peek", "poll", "enqueue 78", "destroy"])
        return out

    def random(self, rng, n, tier, focus=None):
        hs = self._random(rng, n, tier, focus)
        return [sparsify(rng, h) if rng.random() < 0.34 else h for h in hs]

    def _random(self, rng, n, tier, focus=None):
        out = []
        for _ in range(n):
            cc = rng.choice([0, 1, 2, 3, 4, 5, 7, 8, 9, 16, 17])
            if rng.random() < 0.03:
                cc = rng.choice([33, 65, 129, 255, 257, 300])     # capacity rounding beyond one byte (dump of <= 512 slots)
            sims = [Sim(cc), None]
            ops = [f"new cap={cc}"]
            default_obj = False
            if focus in (None, "growth", "all") and rng.random() < 0.06:
                sims[0] = Sim(8)
                ops = ["new_default"]
                default_obj = True
            if focus in ("derived", "all") and rng.random() < 0.2:
                pre, view, cap, is_default = self.recreate_program(0, cc, rng.random() < 0.5, rng.randint(1, 4),
                                                                   rng.randint(1, 4), keep=True)
                ops = pre
                sims = [Sim(1), None]
                sims[0].items, sims[0].cap = list(view), cap
                default_obj = is_default
            length = rng.randint(1, 90 if focus != "growth" else 300)
            p_enq = rng.choice([0.3, 0.5, 0.55, 0.7, 0.9])
            if focus in ("growth", "fault"):
                p_enq = rng.choice([0.6, 0.8, 0.95])
            if focus == "reject":                   # mostly near-empty queues: poll/peek on empty are the rejected calls
                p_enq = rng.choice([0.2, 0.35, 0.5])
            allow_fail = focus == "all" and not default_obj   # the C library triple is never refused
            for _ in range(length):
                r = rng.random() if focus != "growth" else (0.05 if rng.random() < 0.01 else max(rng.random(), 0.061))
                q = sims[0]
                if r < 0.04:
                    # cursor = (index, flag) as in the library; between two nexts, with probability 0.2, direct calls
                    # on the queue being walked (ROUND12 C): enqueue shifts the view, poll shortens it behind the cursor
                    ops.append("it_new")
                    pos = 0
                    mixed = rng.random() < 0.5
                    if focus in ("reject", "all") and rng.random() < 0.5:
                        ops.append(f"it_replace {pick_value(rng)}")     # before the first next: rejected, inert
                    for _ in range(len(q.items) + 12):
                        if mixed and rng.random() < 0.2:
                            for _ in range(rng.choice([1, 1, 2, 3])):
                                if rng.random() < 0.4:
                                    v = pick_value(rng)
                                    if q.grows():
                                        q.grow()
                                    q.items.insert(0, v)
                                    ops.append(f"enqueue {v}")
                                else:
                                    if q.items:
                                        q.items.pop()
                                    ops.append("poll" + (" noout=1" if rng.random() < 0.3 else ""))
                        ops.append("it_next")
                        if pos < len(q.items):
                            pos += 1
                        elif not mixed or rng.random() < 0.5:
                            if pos > len(q.items) or rng.random() < 0.3:
                                ops.append(f"it_replace 3")          # behind the end: rejected (pos-1 >= size), or the last one
                                if 1 <= pos <= len(q.items):
                                    q.items[pos - 1] = 3
                            break
                        if rng.random() < 0.3:
                            v = pick_value(rng)
                            if 1 <= pos <= len(q.items):
                                q.items[pos - 1] = v
                            ops.append(f"it_replace {v}" + (" noout=1" if rng.random() < 0.2 else ""))
                    if rng.random() < 0.3:
                        ops.append("it_next")
                elif r < 0.06:
                    if sims[1] is None:
                        c2 = rng.choice([1, 2, 3, 4, 8])
                        sims[1] = Sim(c2)
                        ops.append(f"new cap={c2} o=1")
                    for _ in range(rng.randint(0, 6)):
                        if rng.random() < 0.7:
                            v = pick_value(rng)
                            if sims[1].grows():
                                sims[1].grow()
                            sims[1].items.insert(0, v)
                            ops.append(f"enqueue {v} o=1")
                        else:
                            if sims[1].items:
                                sims[1].items.pop()
                            ops.append("poll o=1")
                    a, b = rng.choice([(0, 1), (1, 0)])
                    if rng.random() < 0.25:
                        b = a                     # the same queue on both sides
                    ops.append(f"zit_new o={a} o2={b}")
                    m = min(len(sims[a].items), len(sims[b].items))
                    for j in range(m + 1):
                        ops.append("zit_next")
                        if j < m and rng.random() < 0.3:
                            v, w = pick_value(rng), pick_value(rng)
                            sims[a].items[j] = v
                            sims[b].items[j] = w
                            ops.append(f"zit_replace {v} {w}" + (" noout=1" if rng.random() < 0.2 else ""))
                elif r < 0.10:
                    ops.append(rng.choice(["peek", "size", "foreach", "peek"]))
                elif rng.random() < p_enq:
                    v = pick_value(rng)
                    fl = ""
                    refused = False
                    if allow_fail and rng.random() < 0.2:
                        fl, refused = " fail=1", q.grows()
                    if not refused:
                        if q.grows():
                            q.grow()
                        q.items.insert(0, v)      # sims hold the iteration view: newest first
                    ops.append(f"enqueue {v}{fl}")
                else:
                    if q.items:
                        q.items.pop()
                    ops.append("poll" + (" noout=1" if rng.random() < 0.3 else ""))
                if rng.random() < 0.05:
                    p_enq = rng.choice([0.1, 0.5, 0.9])
            ops.append("destroy_cb" if rng.random() < 0.1 else "destroy")
            if ops[-1] == "destroy_cb":
                ops.append("destroy")
            out.append(ops)
        return out


GEN = QueueGen()
