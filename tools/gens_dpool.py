"""History generator for the dynamic pool (container `dpool`, property C13).

Protocol:  new size=N fixed=0/1 packed=0/1 ab=A exp=F [fail=k] | new_default size=N |
           malloc n [probe=1] [fail=1] | calloc count size [fail=1] | free idx=k | free off=a | free |
           pool_reset | destroy
`free idx=k` gives back the k-th allocation result of the history (NULL results count; results in
pages that a reset released are forgotten = NULL), `free off=a` the address (newest page payload)+a,
a bare `free` the NULL pointer.  `probe=1` additionally prints whether the absolute address is a
multiple of the alignment boundary (known finding M6, only in corpus/dpool/defect_M6_align32.ops).

Main streams use alignment boundaries {1,2,4,8,16} (M6: absolute alignment for larger boundaries
depends on the allocator).  calloc products that overflow size_t are included (NULL since the
overflow guard was added; corpus/dpool/calloc_overflow.ops).  `fail=` only with focus "all".

Sparse observation mode: `obs=sparse` on the constructor line suppresses the content sweep after every
operation (a third of the histories of every focus); `observe` prints it on demand.

`giant=1 phys=quiet` (scale stream): the harness allocator serves blocks of 1 GiB and more from reserved,
never touched address space, so pages and single requests beyond 4 GiB (2^32) are exercised; those
histories only malloc / free / pool_reset (never calloc), mostly in padded mode.
"""
import itertools

SIZE_MAX = 2**64 - 1
FACTORS = ["0.5", "1", "1.5", "2"]


class Sim:
    """enough of the pool to aim requests at page boundaries (exact for the factors above)"""

    def __init__(self, size, fixed, packed, ab, exp):
        self.fixed, self.packed, self.ab, self.exp = fixed, packed, ab, float(exp)
        self.sizes = [size]
        self.free = self.high = 0
        self.n = 0

    def pad(self, n):
        if not self.packed and self.ab > 1 and n % self.ab:
            return self.ab - n % self.ab
        return 0

    def alloc(self, n):
        self.n += 1
        top = self.sizes[-1]
        if n >= top:
            return
        span = n + self.pad(n)
        if span > top - self.free:
            nxt = int(top * self.exp)
            if self.fixed or span > nxt:
                return
            self.sizes.append(nxt)
            self.free = self.high = 0
        self.high = self.free
        self.free += span

    def release_off(self, off):
        if off == self.high:
            self.free = self.high

    def reset(self):
        self.sizes = self.sizes[:1]
        self.free = self.high = 0


def confs(tier):
    out = []
    for fixed in (1, 0):
        for packed, ab in ((1, 1), (0, 1), (0, 2), (0, 4), (0, 8), (0, 16), (1, 8)):
            for exp in (FACTORS if not fixed else ["1"]):
                out.append((fixed, packed, ab, exp))
    return out


def sparsify(hist, step):
    """the same history in sparse observation mode: obs=sparse on the constructor, an `observe`
    every `step` operations and one before the destructor"""
    out = [hist[0] + " obs=sparse"]
    body, last = hist[1:], []
    if body and body[-1].split()[0].startswith("destroy"):
        body, last = body[:-1], [hist[-1]]
    for i, op in enumerate(body, 1):
        out.append(op)
        if i % step == 0:
            out.append("observe")
    return out + ["observe"] + last


def mix_sparse(hists, rng=None):
    """roughly a third of the histories in sparse mode"""
    out = []
    for i, h in enumerate(hists):
        if (rng.random() < 1 / 3) if rng is not None else (i % 3 == 1):
            out.append(sparsify(h, rng.randint(5, 15) if rng is not None else 5 + i % 11))
        else:
            out.append(h)
    return out


class DpoolGen:
    name = "dpool"

    def small_scope(self, tier, focus=None):
        return mix_sparse(self._small_scope(tier, focus))

    def random(self, rng, n, tier, focus=None):
        return mix_sparse(self._random(rng, n, tier, focus), rng)

    def scale(self, rng, tier):
        """few LONG or LARGE histories, all with `phys=quiet` (no page dumps; the Lean side runs the
        accounting-only twin of the model):
        (1) large sizes: pages above 2^24 bytes (where `float` no longer represents every size), decaying
            and growing factors, requests one byte around the next page size;
        (2) alignment boundaries {32, 64, 4096, 65536, 131072} in padded mode — excluded from the main
            streams because of known finding M6 (absolute alignment); here the alignment oracle is the
            relative reading and every other clause (accounting, containment, disjointness, NULL beyond the
            size) is checked as usual;
        (3) thousands of malloc/calloc/free/reset cycles with many expansions on small pools."""
        out = []
        quick = tier == "quick"
        # ---- (1) large sizes
        big = [(2**25, "0.5"), (2**24 + 8, "1"), (2**24 + 1, "1.5"), (2**25 + 3, "0.5"), (2**26, "0.5"), (2**24, "2")]
        for size, exp in (big[:3] if quick else big):
            sim = Sim(size, 0, 1, 1, exp)
            ops = [f"new size={size} fixed=0 packed=1 ab=1 exp={exp} phys=quiet"]
            for _ in range(rng.randint(6, 10)):
                top = sim.sizes[-1]
                nxt = int(top * float(exp))
                remaining = top - sim.free
                sz = rng.choice([nxt + 1, nxt, nxt - 1, remaining + 1, remaining, top - 1, 2**24 + 1, 2**24, 2**24 - 1,
                                 (remaining // 2) | 1, 5])
                sz = max(sz, 0)
                if rng.random() < 0.2:
                    ops.append(f"calloc 1 {sz}")
                else:
                    ops.append(f"malloc {sz}")
                sim.alloc(sz)
                if rng.random() < 0.15:
                    ops.append(f"free idx={sim.n - 1}")
                    ops.append(f"free off={sim.high}"); sim.release_off(sim.high)
                if len(sim.sizes) > 4 or sim.sizes[-1] > 2**27:
                    ops.append("pool_reset"); sim.reset()
            ops += ["pool_reset", "malloc 7", "destroy"]
            out.append(ops)
        # the shape of the missed change: 2^25-byte pool, factor 0.5, the page nearly full, a request of 2^24 + 1
        out.append(["new size=33554432 fixed=0 packed=1 ab=1 exp=0.5 phys=quiet", "malloc 20000000", "malloc 16777217",
                    "malloc 16777216", "malloc 1", "malloc 16777215", "pool_reset", "malloc 33554431", "destroy"])
        # ---- (2) large alignment boundaries, relative reading
        abs_ = [32, 64, 4096, 65536, 131072]
        for ab in (abs_ if quick else abs_ * 3):
            k = rng.choice([2, 3, 4, 8])
            size = ab * k + rng.choice([0, 0, 1, ab // 2])
            fixed = rng.choice([0, 0, 1])
            exp = rng.choice(["1", "2", "1.5"])
            sim = Sim(size, fixed, 0, ab, exp)
            ops = [f"new size={size} fixed={fixed} packed=0 ab={ab} exp={exp} phys=quiet"]
            for _ in range(rng.randint(25, 45)):
                top = sim.sizes[-1]
                remaining = top - sim.free
                r = rng.random()
                if r < 0.7:
                    sz = rng.choice([1, 3, 100, ab - 1, ab, ab + 1, 2 * ab, remaining, remaining - 1, remaining + 1, top - 1, 0])
                    sz = max(sz, 0)
                    if rng.random() < 0.25:
                        ops.append(f"calloc 1 {sz}")
                    else:
                        ops.append(f"malloc {sz}")
                    sim.alloc(sz)
                elif r < 0.9:
                    a = rng.choice([sim.high, sim.high, 0, sim.free, ab])
                    ops.append(f"free off={a}"); sim.release_off(a)
                else:
                    ops.append("pool_reset"); sim.reset()
                if len(sim.sizes) > 5:
                    ops.append("pool_reset"); sim.reset()
            ops.append("destroy")
            out.append(ops)
        # ---- (3) many cycles
        for _ in range(2 if quick else 12):
            N = rng.choice([16, 64, 255, 256, 257, 1000])
            fixed, packed, ab, exp = rng.choice([(0, 1, 1, "1"), (0, 0, 8, "1.5"), (0, 0, 4, "1"), (1, 1, 1, "1"), (0, 1, 1, "2")])
            sim = Sim(N, fixed, packed, ab, exp)
            ops = [f"new size={N} fixed={fixed} packed={packed} ab={ab} exp={exp} obs=sparse phys=quiet"]
            for i in range(rng.randint(1500, 2500)):
                top = sim.sizes[-1]
                remaining = top - sim.free
                r = rng.random()
                if r < 0.6:
                    sz = rng.choice([0, 1, 2, 3, 5, 8, 13, remaining, max(remaining - 1, 0), remaining + 1, top - 1])
                    if len(sim.sizes) > 8 or top > 60000:
                        sz = min(sz, remaining)      # no further growth
                    ops.append(f"malloc {sz}" if rng.random() < 0.7 else f"calloc 1 {sz}")
                    sim.alloc(sz)
                elif r < 0.9:
                    a = rng.choice([sim.high, sim.high, sim.high, 0, sim.free])
                    ops.append(f"free off={a}"); sim.release_off(a)
                else:
                    ops.append("pool_reset"); sim.reset()
                if i % 300 == 299:
                    ops.append("observe")
            ops += ["observe", "destroy"]
            out.append(ops)
        return out + mix_sparse(self.giant(rng, 8 if quick else 40), rng)

    def giant(self, rng, count):
        """(4) pages of 5-9 GiB and more, requests around and above 2^32 bytes, padded mode mostly"""
        out = []
        G = 2**30
        for _ in range(count):
            size = rng.choice([5, 6, 8, 9]) * G + rng.choice([0, 0, 8, 16, 4096])
            fixed = rng.choice([0, 0, 1])
            packed, ab = rng.choice([(0, 2), (0, 8), (0, 8), (0, 16), (0, 16), (0, 4096), (0, 2**32), (1, 1), (1, 8)])
            exp = "1" if fixed else rng.choice(["1", "2", "1.5"])
            sim = Sim(size, fixed, packed, ab, exp)
            ops = [f"new size={size} fixed={fixed} packed={packed} ab={ab} exp={exp} giant=1 phys=quiet"]
            # the first request: a single block of at least 4 GiB
            first = rng.choice([2**32, 2**32 + 1, 2**32 + ab, 2**32 - 1, 2**32 + 7, 2**32 + 2**20 + 3, size - 1, size - G])
            ops.append(f"malloc {first}"); sim.alloc(first)
            for _ in range(rng.randint(8, 30)):
                top = sim.sizes[-1]
                remaining = top - sim.free
                r = rng.random()
                if r < 0.65:
                    sz = rng.choice([0, 1, 5, ab, G, G + 1, 3 * G, 2**32, 2**32 + 1, 2**32 - 1, 2**32 + ab, remaining,
                                     max(remaining - 1, 0), remaining + 1, max(remaining - ab, 0), top - 1, top, 2**63, SIZE_MAX])
                    if len(sim.sizes) > 3 or top > 2**36:
                        sz = min(sz, max(remaining - sim.pad(min(sz, remaining)), 0))      # no further growth
                    ops.append(f"malloc {sz}"); sim.alloc(sz)
                elif r < 0.8:
                    a = rng.choice([sim.high, sim.high, sim.high % 2**32, sim.free, 0])
                    ops.append(f"free off={a}"); sim.release_off(a)
                elif r < 0.9 and sim.n:
                    ops.append(f"free idx={sim.n - 1}")
                    ops.append(f"free off={sim.high}"); sim.release_off(sim.high)
                else:
                    ops.append("pool_reset"); sim.reset()
                    if rng.random() < 0.6:
                        ops.append(f"malloc {first}"); sim.alloc(first)
            ops.append("destroy")
            out.append(ops)
        return out

    def _small_scope(self, tier, focus=None):
        out = []
        sizes = (1, 4, 9) if tier == "quick" else (0, 1, 2, 4, 8, 9, 16)
        maxlen = 3

        def alphabet(N):
            return ["malloc 0", "malloc 1", "malloc 3", f"malloc {max(N - 1, 0)}", f"malloc {N}",
                    f"malloc {SIZE_MAX}", "calloc 2 2", "free idx=LAST", "free idx=0", "pool_reset"]

        for N in sizes:
            for fixed, packed, ab, exp in ((1, 1, 1, "1"), (0, 1, 1, "1"), (0, 0, 4, "2"), (0, 0, 2, "0.5"), (0, 1, 1, "1.5")):
                for n in range(0, maxlen + 1):
                    for seq in itertools.product(alphabet(N), repeat=n):
                        ops = [f"new size={N} fixed={fixed} packed={packed} ab={ab} exp={exp}"]
                        nalloc = 0
                        for s in seq:
                            if s == "free idx=LAST":
                                s = f"free idx={max(nalloc - 1, 0)}"
                            if s.startswith(("malloc", "calloc")):
                                nalloc += 1
                            ops.append(s)
                        ops += ["malloc 1", "destroy"]
                        out.append(ops)
        out.append(["new_default size=8", "malloc 3", "calloc 1 4", "malloc 2", "free idx=1", "pool_reset", "malloc 7", "destroy"])
        if focus in ("reject", "all"):
            # M9: size + sizeof(PageInfo) must not wrap (SIZE_MAX-8 rejected; SIZE_MAX-16, SIZE_MAX-17 and 2^63
            # pass the check and are refused by the harness allocator as requests above 2^40 bytes)
            for sz in (SIZE_MAX - 8, SIZE_MAX - 15, SIZE_MAX - 16, SIZE_MAX - 17, 2**63, SIZE_MAX):
                out.append([f"new size={sz} fixed=0 packed=1 ab=1 exp=2", "malloc 1", "destroy"])
        if focus in ("all", "fault"):
            out.append(["new size=4 fixed=0 packed=1 ab=1 exp=1 fail=1", "destroy"])
            out.append(["new size=4 fixed=0 packed=1 ab=1 exp=1 fail=2", "destroy"])
            out.append(["new size=4 fixed=0 packed=1 ab=1 exp=2", "malloc 3", "malloc 3 fail=1", "malloc 3", "calloc 1 3 fail=1",
                        "malloc 3", "pool_reset", "malloc 3", "destroy"])
        return out

    def _random(self, rng, n, tier, focus=None):
        out = []
        cs = confs(tier)
        for _ in range(n):
            fixed, packed, ab, exp = rng.choice(cs)
            N = rng.choice([0, 1, 2, 3, 5, 8, 12, 16, 17, 24, 32, 48, 64])
            if focus == "growth":
                fixed = 0
            sim = Sim(N, fixed, packed, ab, exp)
            ops = [f"new size={N} fixed={fixed} packed={packed} ab={ab} exp={exp}"]
            if focus == "all" and rng.random() < 0.1:
                ops = [f"new_default size={N}"]      # cc_dynamic_pool_new: the C library triple (fixed, packed)
                sim = Sim(N, 1, 1, 1, "1")
            if focus == "reject" and rng.random() < 0.05:
                ops = [f"new size={rng.choice([SIZE_MAX - 8, SIZE_MAX - 16, SIZE_MAX - 17, 2**63])} fixed={fixed} packed={packed} ab={ab} exp={exp}"]
            length = rng.randint(1, 45)
            p_free = rng.choice([0.1, 0.2, 0.35])
            if focus == "growth":
                p_free = 0.05
            p_big = 0.25 if focus == "reject" else 0.08
            p_fail = 0.15 if focus == "all" else 0.0
            for _ in range(length):
                r = rng.random()
                top = sim.sizes[-1]
                remaining = top - sim.free
                if r < p_free:
                    k = rng.random()
                    if k < 0.55 and sim.n:
                        ops.append(f"free idx={sim.n - 1}")
                        sim.free = sim.free    # unknown to the sim whether it was NULL: resync not needed for aiming
                    elif k < 0.7 and sim.n:
                        ops.append(f"free idx={rng.randrange(sim.n)}")
                    elif k < 0.8:
                        ops.append("free")
                    else:
                        a = rng.choice([sim.high, sim.high, 0, sim.free, top, top + 1, rng.randint(0, top + 8)])
                        ops.append(f"free off={a}")
                        sim.release_off(a)
                elif r < p_free + 0.06:
                    ops.append("pool_reset")
                    sim.reset()
                else:
                    if rng.random() < p_big:
                        sz = rng.choice([remaining, remaining + 1, top, top + 1, max(top - 1, 0), 2**31, 2**32, 2**32 + 1, 2**63, SIZE_MAX - 1, SIZE_MAX, 0])
                    else:
                        sz = rng.choice([0, 1, 1, 2, 3, 4, 5, 7, 8, 8, 13, 16, remaining, max(remaining - 1, 0), max(top - 1, 0)])
                    nxt = int(top * sim.exp)
                    if not sim.fixed and nxt > 2**16 and sz < top and sz + sim.pad(sz) > remaining and sz + sim.pad(sz) <= nxt:
                        sz = max(remaining - sim.pad(remaining), 0) if remaining > 0 else 0   # no page above 64 KiB here
                        if sz + sim.pad(sz) > remaining:
                            sz = 0
                    fail = " fail=1" if rng.random() < p_fail else ""
                    if rng.random() < 0.3:
                        if sz >= 2**31:
                            # products that overflow although only one factor is huge, and both-32-bit factors
                            a, b = rng.choice([(1, sz), (sz, 1), (0, sz), (sz, 0), (2**32, 2**32), (2**63, 2),
                                               (2**63 + 1, 2), (2, 2**63 + 1), (2**61 + 1, 8), (8, 2**61 + 1),
                                               (2**32 + 1, 2**32), (SIZE_MAX, SIZE_MAX), (3, sz), (sz, 2)])
                        else:
                            d = rng.choice([1, 2, 4]) if sz % 4 == 0 and sz else 1
                            a, b = (d, sz // d) if rng.random() < 0.5 else (sz // d, d)
                        ops.append(f"calloc {a} {b}{fail}")
                        if not fail:
                            sim.alloc(a * b)
                        else:
                            sim.n += 1
                    else:
                        ops.append(f"malloc {sz}{fail}")
                        if not fail:
                            sim.alloc(sz)
                        else:
                            sim.n += 1
            ops.append("destroy")
            out.append(ops)
        return out


GEN = DpoolGen()
