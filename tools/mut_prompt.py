#!/usr/bin/env python3
import json, sys
pid = sys.argv[1]
for l in open('/verif/properties.jsonl'):
    p = json.loads(l)
    if p['id'] == pid: break
print(f"""You are helping to evaluate a verification tool by writing realistic, subtle bugs ("seeded changes") for a C library.

Work ONLY inside /tmp/mut/{pid} — a git worktree of the C container library srdja/Collections-C (sources in src/, headers in src/include/, unit tests in test/unit/). Its build directory is already configured: `cmake --build _build && ctest --test-dir _build -j8` builds and runs the 16 existing tests (all pass now). Do not read or touch /verif or /repo or any other directory; use no network.

The semantic property under attack:

  {p['id']} — {p['title']}
  {p['statement']}
  Quantifier: {p['quantifier']['text']}
  Source files it is anchored in: {', '.join(p['anchors']['files'])}

Task: produce TWO different changes (independent alternatives, each applied alone to the clean tree; use different mechanisms/functions) to the library sources under src/ such that each change
  (a) still compiles without new warnings that would stand out,
  (b) leaves all 16 existing unit tests passing, unedited,
  (c) breaks the property above, and
  (d) needs something specific to manifest — a particular multi-step operation sequence, a particular internal layout (wrap-around, exactly full, after a resize), an unusual input or boundary argument, a failure at a particular point, or two cooperating sites that each look fine alone — not something that any ordinary use exposes at once. It should look like a plausible maintenance mistake or "optimisation", not sabotage.

For each change n ∈ {{1,2}} write into /tmp/mut/{pid}/OUT/<n>/:
  patch.diff   — `git diff` output; must apply with `git apply` to the clean tree
  demo.c       — a standalone C program using only the public API that exits 0 (prints PASS) when the property holds on its scenario and exits 1 (prints FAIL and what went wrong) when violated; it must PASS on the clean tree and FAIL with the patch applied
  build.sh     — builds demo.c against the worktree's current sources into ./demo (e.g. `gcc -g -I src/include -I src/include/sized -I src/include/memory OUT/<n>/demo.c src/*.c src/sized/*.c src/memory/*.c -o OUT/<n>/demo`), run from the worktree root
  meta.json    — {{"property": "{pid}", "title": …, "what_it_breaks": …, "needs_to_manifest": …, "files_touched": […]}}

Verify everything yourself: with the patch applied the 16 tests pass and the demo fails; without it the demo passes. Leave the worktree clean at the end (`git checkout -- src`), keeping only OUT/. Final answer: ≤ 120 words summarising the two changes.""")
